//! C12 - macro expansion and inclusion equal reference textual substitution.
//!
//! Reference-model monitor. Three workloads drive the REAL preprocessor (`rssl::preprocess::preprocess` +
//! `prepare_tokens`, and `rssl::compile` for the third) and an oracle decides each execution:
//!
//!  1. macro programs   - oracle = `oracle::c12_refpp`, C99 6.10.3 written from the standard (hide sets);
//!                        compared on the resulting token sequence (kind + spelling/value, no positions).
//!  2. include graphs   - same oracle: #include = textual paste, a `#pragma once` file contributes once.
//!  3. API defines      - differential oracle stated by the property: `compile(defines=[(N,V)..])` must be
//!                        indistinguishable from the same file with `#define N V` lines in front, for EVERY
//!                        split of the list between the two places (verdict + complete Ok payload).
//!
//! Developer switches (environment): VERIF_C12_NO_SUBSAMPLE=1 executes every program of the `painted-name-in-argument`
//! family, VERIF_C12_SHOW_UNDECIDED=<substring> prints the programs the reference would not decide, VERIF_C12_TIMES=1
//! adds time_us:* counters to the evidence.
//!
//! The generators stay inside the subset where C fully defines the result and where the property claims RSSL
//! follows C; everything else is either not generated or answered `Undecided` by the reference and then
//! skipped and counted (see `def().rule`).

use crate::json::Json;
use crate::oracle::c12_refpp::{self as refpp, Kind, RefOut};
use crate::par::{self, Caught};
use crate::report::{Ctx, Report};
use crate::rng::{hash_str, Rng};
use crate::rs::{self, Files, FilesHandler, Mode, Opts, Outcome, Tgt};
use crate::CheckDef;
use rssl::text::tokens::Token;

pub fn def() -> CheckDef {
    CheckDef {
        id: "C12",
        salt: 0xC12,
        rule: "W1 macro programs: <= 6 #define lines over the names A1..F6 (object-like or 0-3 parameters), bodies <= 8 tokens over parameters, \
               macro names (self, mutual, later-defined, undefined), identifiers, digits 1-9, punctuation incl. commas and balanced parentheses, \
               and ## chains (identifier/digit fragments, binary punctuator pastes; results may name macros); #undef and redefinition between \
               <= 10 single-line invocation sites with nested, parenthesised, comma-carrying, empty, unused and macro-valued arguments. \
               W2 include graphs: main + <= 4 headers, each with/without #pragma once (first line or later), forward edges, diamonds, repeated \
               includes, back/self edges into once-files, \"\" and <> forms, macro state flowing across file boundaries; one graph in six lives in \
               directories a/ b/ (same base name twice, one file under two spellings; include handler = relative to the includer first, then as \
               given, like the repository's own test handler). W3 API defines: a small shader using <= 4 object-like defines (ints, floats, \
               expressions, type names, empty, references to each other, use in #if/#ifdef/defined(), as macro arguments, name built by ##, \
               value pasted by ##, ## inside the value) compiled for every split of the list between compile(defines) and prepended #define \
               lines, targets DirectX/Vulkan/Metal, with and without a pipeline. \
               Decided subset: the reference runs BOTH accepted readings of C99 6.10.3.4 (Prosser's hide sets and the context stack of \
               GCC/clang) and decides only where they agree. Skipped and counted (reference answers Undecided) or not generated: # stringification, \
               `defined` outside #if, variadic macros, conditionals in W1/W2, a ## operand (body token, intermediate result of a ## chain, or any \
               token of a pasted parameter's argument) that is a macro name, ## whose result is not one token or depends on the evaluation order \
               of several ##, a function-like macro name (blue-painted or not) that takes its argument list from outside the replacement that \
               produced it (unspecified in C, DR 268; RSSL pins its own rules in test_macro_recursion/test_concat), function-like names or \
               unterminated argument lists at the end of a run of text lines, programs in which an UNUSED argument would not expand cleanly \
               (RSSL expands arguments eagerly), incompatible-redefinition diagnostics (the property says redefinition replaces), keywords as \
               macro names, files without final newline, results > 1000 tokens. Programs of the known-finding family `painted-name-in-argument` \
               (18 % of W1; each unbounded expansion costs ~0.5 s) are executed one in six by content hash, the rest counted as skipped. \
               evaluations = runs of the real preprocessor / compile() that were compared; distinct_nontrivial = distinct inputs (content hash \
               of all files + define list) which the reference decided, rssl agreed on, and in which at least one macro was replaced / one file \
               included / (W3) all splits agreed.",
        assumptions: &[
            "the reference preprocessor (oracle/c12_refpp.rs: C99 6.10.3 with Prosser's hide sets and, in parallel, the context-stack reading; decides only where both agree) is a correct reading of the standard for the generated subset",
            "which file an #include names is decided by the include handler; the harness's handler (relative to the including file first, then as given; identity = resolved path) mirrors the handler of the repository's own tests",
            "the step budget (100k + 150 x reference steps + result size squared, capped at 350k ticks; observed legitimate maximum 3-4 % of it) separates terminating from non-terminating expansion",
            "token spelling used for comparison (identifier text, integer value, punctuator) loses nothing the property talks about; positions and white space are not compared",
            "for workload 3 compile() is deterministic (C07) so that two runs may be compared byte for byte",
        ],
        min_distinct: (3000, 30000),
        deadline_s: (50.0, 540.0),
        run,
        replay,
    }
}

// ------------------------------------------------------------------------------------------------
// Observation of the real preprocessor
// ------------------------------------------------------------------------------------------------

#[derive(Clone, Debug)]
enum PpOut {
    Ok(Vec<(Kind, String)>),
    /// (variant name of PreprocessError, rendered diagnostic)
    Diag(String, String),
    Panic(Caught),
    Budget(u32, u64),
}

/// Logical step budget for one small preprocessing run. Legal macro fan-out of the generated programs stays below
/// 4000 output tokens (the reference gives up beyond that), which costs well under 10^6 ticks.
const PP_BUDGET_BASE: u64 = 100_000;
const PP_BUDGET_PER_STEP: u64 = 150;
/// measured: the leanest unbounded recursion (KF-C12-2's witness) uses ~0.55 KB of stack per tick; 350k ticks = 190 MB
const PP_BUDGET_CAP: u64 = 350_000;

fn spell(t: &Token) -> (Kind, String) {
    let p = |s: &str| (Kind::Punct, s.to_string());
    match t {
        Token::Id(id) => (Kind::Id, id.0.clone()),
        Token::LiteralInt(v) => (Kind::Int, v.to_string()),
        Token::LeftParen => p("("),
        Token::RightParen => p(")"),
        Token::LeftBrace => p("{"),
        Token::RightBrace => p("}"),
        Token::LeftSquareBracket => p("["),
        Token::RightSquareBracket => p("]"),
        Token::Semicolon => p(";"),
        Token::Comma => p(","),
        Token::Plus => p("+"),
        Token::PlusPlus => p("++"),
        Token::PlusEquals => p("+="),
        Token::Minus => p("-"),
        Token::MinusMinus => p("--"),
        Token::MinusEquals => p("-="),
        Token::ForwardSlash => p("/"),
        Token::ForwardSlashEquals => p("/="),
        Token::Percent => p("%"),
        Token::PercentEquals => p("%="),
        Token::Asterix => p("*"),
        Token::AsterixEquals => p("*="),
        Token::VerticalBar => p("|"),
        Token::VerticalBarVerticalBar => p("||"),
        Token::VerticalBarEquals => p("|="),
        Token::Ampersand => p("&"),
        Token::AmpersandAmpersand => p("&&"),
        Token::AmpersandEquals => p("&="),
        Token::Hat => p("^"),
        Token::HatEquals => p("^="),
        Token::Equals => p("="),
        Token::EqualsEquals => p("=="),
        Token::ExclamationPoint => p("!"),
        Token::ExclamationPointEquals => p("!="),
        Token::Tilde => p("~"),
        Token::Period => p("."),
        Token::Colon => p(":"),
        Token::ScopeResolution => p("::"),
        Token::QuestionMark => p("?"),
        Token::HashHash => p("##"),
        Token::Hash => p("#"),
        other => (Kind::Str, format!("<{:?}>", other)),
    }
}

thread_local! {
    static PP_TICKS: std::cell::Cell<u64> = const { std::cell::Cell::new(0) };
}

fn run_rssl_pp(files: &Files, entry: &str, defines: &[(String, String)], budget: u64) -> PpOut {
    let defs: Vec<(&str, &str)> = defines.iter().map(|(a, b)| (a.as_str(), b.as_str())).collect();
    rssl::text::verif::reset(budget);
    let r = par::guard(|| {
        use rssl::text::CompileErrorExt;
        let mut sm = rssl::text::SourceManager::new();
        let mut h = FilesHandler::new(files);
        match rssl::preprocess::preprocess(entry, &mut sm, &mut h, &defs) {
            Ok(t) => Ok(rssl::preprocess::prepare_tokens(&t)),
            Err(e) => {
                let dbg = format!("{:?}", e);
                let variant: String = dbg.chars().take_while(|c| c.is_ascii_alphanumeric()).collect();
                Err((variant, format!("{}", e.display(&sm))))
            }
        }
    });
    let ticks = rssl::text::verif::ticks();
    rssl::text::verif::reset(u64::MAX);
    match r {
        Ok(Ok(tokens)) => {
            let mut v: Vec<(Kind, String)> = tokens.iter().map(|t| spell(&t.0)).collect();
            // prepare_tokens terminates the stream with Eof
            if matches!(tokens.last().map(|t| &t.0), Some(Token::Eof)) {
                v.pop();
            }
            PP_TICKS.with(|t| t.set(ticks));
            PpOut::Ok(v)
        }
        Ok(Err((variant, text))) => PpOut::Diag(variant, text),
        Err(c) => match c.budget_site {
            Some(site) => PpOut::Budget(site, ticks),
            None => PpOut::Panic(c),
        },
    }
}

fn render(tokens: &[(Kind, String)]) -> String {
    let mut s = String::new();
    for (i, t) in tokens.iter().enumerate() {
        if i > 0 {
            s.push(' ');
        }
        s.push_str(&t.1);
        if s.len() > 6000 {
            s.push_str(" ...");
            break;
        }
    }
    s
}

fn files_hash(tag: &str, files: &Files, defines: &[(String, String)]) -> u64 {
    let mut s = String::from(tag);
    for (n, c) in &files.0 {
        s.push('\u{1}');
        s.push_str(n);
        s.push('\u{2}');
        s.push_str(c);
    }
    for (n, v) in defines {
        s.push('\u{3}');
        s.push_str(n);
        s.push('=');
        s.push_str(v);
    }
    hash_str(&s)
}

fn count_stats(report: &mut Report, w: &str, s: &refpp::Stats) {
    let mut c = |k: &str, n: u64| {
        if n > 0 {
            report.count_n(&format!("{}:ref:{}", w, k), n);
        }
    };
    c("object_like_replacements", s.object_expansions);
    c("function_like_replacements", s.function_expansions);
    for (i, n) in s.arity.iter().enumerate() {
        c(&format!("invocations_with_{}_params", i), *n);
    }
    c("pastes", s.pastes);
    c("paste_made_macro_name", s.paste_made_macro_name);
    c("placemarkers", s.placemarkers);
    c("blue_painted_names_met", s.painted);
    c("blue_painted_names_met_in_arguments", s.painted_in_argument);
    c("args_with_nested_parens", s.nested_paren_args);
    c("commas_protected_by_parens", s.comma_in_paren_args);
    c("empty_args", s.empty_args);
    c("unused_args", s.unused_args);
    c("args_containing_macros", s.args_with_macros);
    c("function_like_name_without_parens", s.funlike_name_without_parens);
    c("defines", s.defines);
    c("redefinitions", s.redefinitions);
    c("undef_effective", s.undefs_effective);
    c("undef_of_undefined", s.undefs_noop);
    c("includes", s.includes);
    c("includes_skipped_by_pragma_once", s.includes_skipped_once);
    c("includes_resolved_relative_to_includer", s.includes_resolved_relative);
    c("includes_involving_directories", s.includes_involving_directories);
    c("pragma_once_seen", s.pragma_once);
    c("multi_line_invocations", s.multi_line_invocations);
    report.max(&format!("max:{}:include_depth", w), s.max_include_depth);
    report.max(&format!("max:{}:expansion_depth", w), s.max_expansion_depth);
}

/// The monitor of workloads 1 and 2: run reference and real preprocessor on the same files and compare
const FAMILY_SUBSAMPLE: u64 = 6;

fn examine_pp(w: &str, files: &Files, entry: &str, subsample: bool, report: &mut Report, extra: &dyn Fn() -> Json) {
    let t0 = std::time::Instant::now();
    let (expected, stats) = refpp::run(&files.0, entry, &[]);
    let t1 = std::time::Instant::now();
    // Step budget of the real run, derived from the work of the reference: linear in the tokens it examined plus
    // quadratic in the size of the result (rssl rescans the replaced region from its start after every replacement).
    // Capped so that an unbounded recursion runs into the budget long before it can exhaust the 256 MB worker stack.
    let out_len = match &expected {
        RefOut::Tokens(t) => t.len() as u64,
        _ => 0,
    };
    let budget = (PP_BUDGET_BASE + PP_BUDGET_PER_STEP * stats.steps + out_len * out_len).min(PP_BUDGET_CAP);
    if subsample && stats.painted_in_argument > 0 && files_hash(w, files, &[]) % FAMILY_SUBSAMPLE != 0 && std::env::var("VERIF_C12_NO_SUBSAMPLE").is_err() {
        // Family of KF-C12-2/3/4 (a blue-painted name inside a function-like macro's argument). About 7 % of the generated
        // programs are of this family and one unbounded expansion costs ~0.5 s before the step budget stops it, so only
        // every FAMILY_SUBSAMPLE-th of them (by content hash) is executed; the others are counted here. Not a tolerance:
        // the executed ones are judged like every other program.
        report.count(&format!("{}:skipped:painted-name-in-argument-family-subsampled", w));
        return;
    }
    let observed = run_rssl_pp(files, entry, &[], budget);
    if std::env::var("VERIF_C12_TIMES").is_ok() {
        report.count_n(&format!("time_us:{}:reference", w), (t1 - t0).as_micros() as u64);
        report.count_n(&format!("time_us:{}:rssl:{}", w, pp_class(&observed)), t1.elapsed().as_micros() as u64);
    }
    report.evaluations += 1;
    let witness = |exp: &str, obs: &str| {
        let mut j = Json::obj().set("workload", w).set("entry", entry).set("files", files.to_json()).set("expected", exp).set("observed", obs);
        if let Json::Obj(items) = extra() {
            for (k, v) in items {
                j.put(&k, v);
            }
        }
        j
    };
    let exp_text = match &expected {
        RefOut::Tokens(t) => render(t),
        RefOut::Reject(r) => format!("<C requires a diagnostic: {}>", r),
        RefOut::Undecided(r) => format!("<undecided: {}>", r),
    };
    // A panic or a blown step budget is a failed expansion whatever the reference thinks, unless the input is outside the subset
    match (&expected, &observed) {
        (RefOut::Undecided(class), _) => {
            report.count(&format!("{}:skipped:reference-undecided:{}", w, class));
            if let Ok(want) = std::env::var("VERIF_C12_SHOW_UNDECIDED") {
                if class.contains(&want) {
                    eprintln!("--- undecided {} (rssl: {})\n{}", class, pp_class(&observed), files.0.iter().map(|f| f.1.clone()).collect::<Vec<_>>().join("---\n"));
                }
            }
            report.count(&format!("{}:skipped:rssl-said:{}", w, pp_class(&observed)));
            return;
        }
        (RefOut::Reject(_), PpOut::Ok(_)) => {
            // C demands a diagnostic, the property does not: counted, no verdict
            report.count(&format!("{}:skipped:reference-rejects-rssl-accepts", w));
            return;
        }
        (RefOut::Reject(_), PpOut::Diag(v, _)) => {
            report.count(&format!("{}:agree:both-reject:{}", w, v));
            return;
        }
        (RefOut::Reject(_), _) => {
            report.count(&format!("{}:skipped:reference-rejects-rssl-{}", w, pp_class(&observed)));
            return;
        }
        (RefOut::Tokens(_), _) => {}
    }
    let RefOut::Tokens(exp) = &expected else { unreachable!() };
    let trivial = stats.object_expansions + stats.function_expansions + stats.includes == 0;
    count_stats(report, w, &stats);
    report.max(&format!("max:{}:output_tokens", w), exp.len() as u64);
    match &observed {
        PpOut::Ok(obs) => {
            let ticks = PP_TICKS.with(|t| t.get());
            report.max(&format!("max:{}:rssl_ticks", w), ticks);
            report.max(&format!("max:{}:rssl_ticks_per_100_reference_steps", w), ticks * 100 / stats.steps.max(1));
            report.max(&format!("max:{}:percent_of_step_budget_used", w), ticks * 100 / budget);
            if obs == exp {
                report.count(&format!("{}:agree:tokens-equal", w));
                if !trivial {
                    report.distinct(files_hash(w, files, &[]));
                    if report.want_sample() && (report.samples.len() as u64) < 2 + (hash_str(&exp_text) % 2) {
                        report.sample(witness(&exp_text, &render(obs)));
                    }
                } else {
                    report.count(&format!("{}:trivial", w));
                }
            } else {
                let class = classify_mismatch(&stats, exp, obs);
                report.violation(
                    &match family(&stats) {
                        Some(f) => format!("{}:{}:tokens-differ", w, f),
                        None => format!("{}:tokens-differ:{}", w, class),
                    },
                    &format!("{} program expands to `{}` in rssl, C99 6.10.3 gives `{}`", w, clip(&render(obs), 160), clip(&exp_text, 160)),
                    witness(&exp_text, &render(obs)),
                );
            }
        }
        PpOut::Diag(variant, text) => {
            report.violation(
                &match family(&stats) {
                    Some(f) => format!("{}:{}:rejected", w, f),
                    None => format!("{}:rejected:{}", w, variant),
                },
                &format!("{} program which C99 expands to `{}` is rejected: {}", w, clip(&exp_text, 120), clip(text.lines().next().unwrap_or(""), 120)),
                witness(&exp_text, &format!("<diagnostic {}: {}>", variant, text)),
            );
        }
        PpOut::Panic(c) => {
            report.violation(
                &format!("{}:panic:{}", w, c.signature()),
                &format!("{} program which C99 expands to `{}` panics at {}: {}", w, clip(&exp_text, 120), c.location, clip(&c.message, 120)),
                witness(&exp_text, &format!("<panic at {}: {}>", c.location, c.message)),
            );
        }
        PpOut::Budget(site, ticks) => {
            if exp.len() > 600 {
                report.count(&format!("{}:skipped:step-budget-on-large-expansion", w));
                return;
            }
            report.violation(
                &match family(&stats) {
                    Some(f) => format!("{}:{}:does-not-terminate", w, f),
                    None => format!("{}:does-not-terminate", w),
                },
                &format!(
                    "{} program which C99 expands to {} tokens exceeds the step budget of {} (site {}, {} ticks): expansion does not terminate in bounded work",
                    w,
                    exp.len(),
                    budget,
                    site,
                    ticks
                ),
                witness(&exp_text, &format!("<step budget exceeded at site {} after {} ticks>", site, ticks)),
            );
        }
    }
}

/// The construct (as seen by the reference) that names the known-finding families of workload 1. The signature of a
/// violation carries it, so that an open finding tolerates nothing but failures on programs containing its construct.
fn family(stats: &refpp::Stats) -> Option<&'static str> {
    if stats.includes_involving_directories > 0 {
        return Some("directories");
    }
    match (stats.painted_in_argument > 0, stats.placemarkers > 0) {
        (true, true) => Some("painted-name-in-argument+paste-with-empty-argument"),
        (true, false) => Some("painted-name-in-argument"),
        (false, true) => Some("paste-with-empty-argument"),
        (false, false) => None,
    }
}

fn pp_class(o: &PpOut) -> String {
    match o {
        PpOut::Ok(_) => "ok".into(),
        PpOut::Diag(v, _) => format!("diagnostic-{}", v),
        PpOut::Panic(_) => "panic".into(),
        PpOut::Budget(..) => "budget".into(),
    }
}

fn clip(s: &str, n: usize) -> String {
    if s.chars().count() <= n {
        s.to_string()
    } else {
        let mut t: String = s.chars().take(n).collect();
        t.push_str("...");
        t
    }
}

/// Coarse but stable class of a token mismatch, from what the reference did on that input
fn classify_mismatch(stats: &refpp::Stats, exp: &[(Kind, String)], obs: &[(Kind, String)]) -> &'static str {
    if stats.includes > 0 {
        if stats.includes_skipped_once > 0 {
            return "include-with-pragma-once";
        }
        return "include";
    }
    if stats.painted > 0 {
        return "self-or-mutual-reference";
    }
    if stats.pastes > 0 {
        return "paste";
    }
    if stats.funlike_name_without_parens > 0 {
        return "function-like-name-without-parens";
    }
    if stats.empty_args > 0 {
        return "empty-argument";
    }
    if obs.len() != exp.len() {
        return "substitution-length";
    }
    "substitution"
}

// ------------------------------------------------------------------------------------------------
// Workload 1: macro programs
// ------------------------------------------------------------------------------------------------

const NAMES: [&str; 6] = ["A1", "B2", "C3", "D4", "E5", "F6"];
/// paste fodder: LETTERS[i] ## digit(i+1) = NAMES[i]; the letters alone are never macro names
const LETTERS: [&str; 6] = ["A", "B", "C", "D", "E", "F"];
const PLAIN: [&str; 5] = ["u", "v", "w", "k", "t"];
const PARAMS: [&str; 3] = ["x", "y", "z"];
const PUNCT1: [&str; 9] = ["+", "-", "*", "=", ".", "!", ",", ";", "&"];

#[derive(Clone, Copy, PartialEq, Debug)]
enum Role {
    /// never next to ##
    Plain,
    /// pasted; the argument is one identifier that is no macro name
    PId,
    /// pasted on the right; the argument is one identifier or digit
    PAny,
    /// pasted inside an all-digit chain
    PInt,
}

#[derive(Clone, Debug)]
struct Shape {
    /// None = object-like
    params: Option<Vec<Role>>,
}

struct MacroGen<'r> {
    rng: &'r mut Rng,
    planned: Vec<Shape>,
}

fn digit(rng: &mut Rng) -> String {
    if rng.chance(1, 5) {
        format!("{}{}", rng.range(1, 9), rng.range(1, 9))
    } else {
        format!("{}", rng.range(1, 6))
    }
}

impl<'r> MacroGen<'r> {
    fn shape(rng: &mut Rng) -> Shape {
        if rng.chance(2, 5) {
            return Shape { params: None };
        }
        let k = [0usize, 1, 1, 2, 2, 3][rng.below(6)];
        let mut roles = Vec::new();
        for _ in 0..k {
            roles.push(match rng.below(10) {
                0..=5 => Role::Plain,
                6 => Role::PId,
                7 | 8 => Role::PAny,
                _ => Role::PInt,
            });
        }
        Shape { params: Some(roles) }
    }

    /// One argument for parameter `role` of some macro; `in_body` = parameters of the macro being defined (may be used)
    fn arg(&mut self, role: Role, in_body: Option<&Shape>, depth: usize) -> Vec<String> {
        let rng = &mut *self.rng;
        let body_param = |rng: &mut Rng, want: &[Role]| -> Option<String> {
            let ps = in_body?.params.as_ref()?;
            let c: Vec<usize> = (0..ps.len()).filter(|i| want.contains(&ps[*i])).collect();
            if c.is_empty() {
                None
            } else {
                Some(PARAMS[c[rng.below(c.len())]].to_string())
            }
        };
        // an empty argument for a pasted parameter (placemarker, 6.10.3.3p2) - kept rare, family of KF-C12-5/6
        if role != Role::Plain && rng.chance(1, 80) {
            return Vec::new();
        }
        match role {
            Role::PId => {
                // a pasted parameter of the inner macro receives the caller's argument *unexpanded*: only plain parameters'
                // (fully expanded) values or literal fragments are passed, and the reference refuses macro names in them
                if rng.chance(1, 4) {
                    if let Some(p) = body_param(rng, &[Role::PId]) {
                        return vec![p];
                    }
                }
                if rng.chance(4, 5) {
                    vec![rng.pick(&LETTERS).to_string()]
                } else {
                    vec![rng.pick(&PLAIN).to_string()]
                }
            }
            Role::PAny => {
                if rng.chance(1, 4) {
                    if let Some(p) = body_param(rng, &[Role::PId, Role::PAny, Role::PInt]) {
                        return vec![p];
                    }
                }
                if rng.chance(1, 2) {
                    vec![rng.pick(&LETTERS).to_string()]
                } else {
                    vec![digit(rng)]
                }
            }
            Role::PInt => {
                if rng.chance(1, 4) {
                    if let Some(p) = body_param(rng, &[Role::PInt]) {
                        return vec![p];
                    }
                }
                vec![digit(rng)]
            }
            Role::Plain => {
                let pick = rng.below(100);
                if pick < 20 {
                    if let Some(p) = body_param(rng, &[Role::Plain, Role::Plain, Role::PId, Role::PAny, Role::PInt]) {
                        return vec![p];
                    }
                }
                if pick < 35 {
                    return vec![rng.pick(&PLAIN).to_string()];
                }
                if pick < 45 {
                    return vec![digit(rng)];
                }
                if pick < 75 && depth < 2 {
                    let j = rng.below(NAMES.len());
                    return self.invocation(j, in_body, depth + 1);
                }
                if pick < 83 {
                    // parenthesised, with a protected comma
                    let a = self.arg(Role::Plain, in_body, depth + 2);
                    let b = self.arg(Role::Plain, in_body, depth + 2);
                    let mut v = vec!["(".to_string()];
                    v.extend(a);
                    if self.rng.chance(2, 3) {
                        v.push(",".into());
                        v.extend(b);
                    }
                    v.push(")".into());
                    return v;
                }
                if pick < 91 {
                    let a = self.arg(Role::Plain, in_body, depth + 2);
                    let mut v = a;
                    v.push(self.rng.pick(&["+", "-", "*", "="]).to_string());
                    v.push(digit(self.rng));
                    return v;
                }
                if pick < 95 {
                    return Vec::new(); // empty argument
                }
                if pick < 98 {
                    // a macro name alone (object-like is replaced; function-like without parentheses is not an invocation)
                    return vec![NAMES[self.rng.below(NAMES.len())].to_string()];
                }
                vec![self.rng.pick(&LETTERS).to_string()]
            }
        }
    }

    /// Tokens of an invocation of NAMES[j] according to its planned shape
    fn invocation(&mut self, j: usize, in_body: Option<&Shape>, depth: usize) -> Vec<String> {
        let shape = self.planned[j].clone();
        let mut v = vec![NAMES[j].to_string()];
        if let Some(roles) = &shape.params {
            v.push("(".into());
            for (i, r) in roles.iter().enumerate() {
                if i > 0 {
                    v.push(",".into());
                }
                v.extend(self.arg(*r, in_body, depth));
            }
            v.push(")".into());
        }
        v
    }

    fn paste_chain(&mut self, shape: &Shape) -> Vec<String> {
        let rng = &mut *self.rng;
        if rng.chance(1, 12) {
            // punctuator pastes, binary only (the result of a longer chain would depend on evaluation order)
            let (a, b) = *rng.pick(&[("+", "+"), ("-", "-"), ("=", "="), ("+", "="), ("-", "="), ("!", "="), ("&", "&"), ("*", "=")]);
            return vec![a.into(), "##".into(), b.into()];
        }
        let params: Vec<(usize, Role)> = match &shape.params {
            Some(ps) => ps.iter().cloned().enumerate().filter(|(_, r)| *r != Role::Plain).collect(),
            None => Vec::new(),
        };
        let n = if rng.chance(1, 4) { 3 } else { 2 };
        let all_int = rng.chance(1, 5);
        let mut v: Vec<String> = Vec::new();
        for pos in 0..n {
            if pos > 0 {
                v.push("##".into());
            }
            let ok_roles: &[Role] = if all_int {
                &[Role::PInt]
            } else if pos == 0 {
                &[Role::PId]
            } else {
                &[Role::PId, Role::PAny, Role::PInt]
            };
            let c: Vec<usize> = params.iter().filter(|(_, r)| ok_roles.contains(r)).map(|(i, _)| *i).collect();
            if !c.is_empty() && rng.chance(3, 5) {
                v.push(PARAMS[c[rng.below(c.len())]].to_string());
            } else if all_int {
                v.push(digit(rng));
            } else if pos == 0 {
                v.push(rng.pick(&LETTERS).to_string());
            } else if rng.chance(2, 3) {
                v.push(format!("{}", rng.range(1, 6)));
            } else {
                v.push(rng.pick(&LETTERS).to_string());
            }
        }
        v
    }

    fn body(&mut self, me: usize, shape: &Shape) -> Vec<String> {
        let target = 1 + self.rng.below(8);
        let mut body: Vec<String> = Vec::new();
        let nparams = shape.params.as_ref().map(|p| p.len()).unwrap_or(0);
        let has_pasted = shape.params.as_ref().map(|p| p.iter().any(|r| *r != Role::Plain)).unwrap_or(false);
        let mut tries = 0;
        while body.len() < target && tries < 20 {
            tries += 1;
            let pick = self.rng.below(100);
            let elem: Vec<String> = if pick < 22 && nparams > 0 {
                // a plain use of a parameter (pasted parameters may also appear un-pasted: they are then fully expanded)
                let i = self.rng.below(nparams);
                vec![PARAMS[i].to_string()]
            } else if pick < 50 {
                let j = if self.rng.chance(1, 5) { me } else { self.rng.below(NAMES.len()) };
                self.invocation(j, Some(shape), 1)
            } else if pick < 60 {
                vec![self.rng.pick(&PLAIN).to_string()]
            } else if pick < 66 {
                vec![digit(self.rng)]
            } else if pick < 76 {
                vec![self.rng.pick(&PUNCT1).to_string()]
            } else if pick < 82 {
                // balanced group
                let mut v = vec!["(".to_string()];
                if nparams > 0 && self.rng.chance(1, 2) {
                    v.push(PARAMS[self.rng.below(nparams)].to_string());
                } else {
                    v.push(self.rng.pick(&PLAIN).to_string());
                }
                v.push(")".into());
                v
            } else if pick < 97 || has_pasted {
                self.paste_chain(shape)
            } else {
                vec![self.rng.pick(&LETTERS).to_string()]
            };
            if body.len() + elem.len() <= 8 {
                body.extend(elem);
            }
        }
        body
    }

    fn define_line(&mut self, i: usize) -> String {
        let shape = self.planned[i].clone();
        let body = self.body(i, &shape);
        let mut s = format!("#define {}", NAMES[i]);
        if let Some(ps) = &shape.params {
            s.push('(');
            for p in 0..ps.len() {
                if p > 0 {
                    s.push_str(if self.rng.chance(1, 2) { ", " } else { "," });
                }
                s.push_str(PARAMS[p]);
            }
            s.push(')');
        }
        s.push(' ');
        s.push_str(&join_tokens(&body, self.rng));
        s
    }
}

/// Join tokens with blanks; omit the blank now and then where that cannot merge or split tokens
fn join_tokens(tokens: &[String], rng: &mut Rng) -> String {
    let wordy = |x: &str| x.chars().next().map(|c| c.is_ascii_alphanumeric() || c == '_').unwrap_or(false);
    let bracket = |x: &str| matches!(x, "(" | ")" | "," | ";");
    let mut s = String::new();
    for (i, t) in tokens.iter().enumerate() {
        if i > 0 {
            let prev = tokens[i - 1].as_str();
            let t = t.as_str();
            let may_glue = if wordy(prev) != wordy(t) { prev != "." && t != "." } else { !wordy(prev) && (bracket(prev) || bracket(t)) };
            if !(may_glue && rng.chance(1, 3)) {
                s.push(' ');
            }
        }
        s.push_str(t);
    }
    s
}

pub fn gen_macro_program(rng: &mut Rng) -> String {
    let planned: Vec<Shape> = (0..NAMES.len()).map(|_| MacroGen::shape(rng)).collect();
    let mut g = MacroGen { rng, planned };
    let total_defs = 2 + g.rng.below(5); // 2..=6 #define lines
    let total_sites = 3 + g.rng.below(8); // 3..=10 invocation sites
    let mut defined = [false; 6];
    let mut lines: Vec<String> = Vec::new();
    let (mut ndefs, mut nsites) = (0, 0);
    let first = 1 + g.rng.below(total_defs.min(3));
    while ndefs < total_defs || nsites < total_sites {
        let want_def = ndefs < total_defs && (ndefs < first || nsites >= total_sites || g.rng.chance(1, 3));
        if want_def {
            // mostly a new name, sometimes a redefinition (same or new shape)
            let undefined: Vec<usize> = (0..6).filter(|i| !defined[*i]).collect();
            let i = if !undefined.is_empty() && g.rng.chance(3, 4) { undefined[g.rng.below(undefined.len())] } else { g.rng.below(6) };
            if defined[i] && g.rng.chance(1, 6) {
                g.planned[i] = MacroGen::shape(g.rng);
            }
            let line = g.define_line(i);
            lines.push(line);
            defined[i] = true;
            ndefs += 1;
            continue;
        }
        if g.rng.chance(1, 9) {
            let i = g.rng.below(6);
            lines.push(format!("#undef {}", NAMES[i]));
            defined[i] = false;
            continue;
        }
        // an invocation site: one line, terminated by ';' so that nothing reaches into the next line
        let mut toks: Vec<String> = vec![format!("s{}", nsites), "=".into()];
        let terms = 1 + g.rng.below(3);
        for t in 0..terms {
            if t > 0 {
                toks.push(g.rng.pick(&["+", "*", "-", ","]).to_string());
            }
            let live: Vec<usize> = (0..6).filter(|i| defined[*i]).collect();
            let pick = g.rng.below(10);
            if pick < 8 && !live.is_empty() {
                let j = live[g.rng.below(live.len())];
                toks.extend(g.invocation(j, None, 0));
            } else if pick < 9 {
                let j = g.rng.below(6);
                toks.extend(g.invocation(j, None, 0));
            } else {
                toks.push(g.rng.pick(&PLAIN).to_string());
            }
        }
        toks.push(";".into());
        let mut site = join_tokens(&toks, g.rng);
        if g.rng.chance(1, 4) {
            // an invocation may be spread over several lines: a new-line is white space like any other (6.10.3p10),
            // also inside an empty argument and between the macro name and its parenthesis
            let mut spread = String::new();
            let chars: Vec<char> = site.chars().collect();
            for (i, c) in chars.iter().enumerate() {
                let next_is_hash = chars.get(i + 1) == Some(&'#');
                if *c == ' ' && !next_is_hash && g.rng.chance(1, 3) {
                    spread.push_str(if g.rng.chance(1, 2) { "\n" } else { "\n    " });
                } else {
                    spread.push(*c);
                    if (*c == '(' || *c == ',') && !next_is_hash && g.rng.chance(1, 8) {
                        spread.push('\n');
                    }
                }
            }
            site = spread;
        }
        lines.push(site);
        nsites += 1;
    }
    let mut s = lines.join("\n");
    s.push('\n');
    s
}

// ------------------------------------------------------------------------------------------------
// Workload 2: include graphs
// ------------------------------------------------------------------------------------------------

fn gen_include_graph(rng: &mut Rng) -> Files {
    let nheaders = 1 + rng.below(4);
    // one graph in six lives in directories: same base name in two directories, and one file reachable under two spellings
    // (relative to the includer / from the root) - family of KF-C12-11
    let dirs = rng.chance(1, 6);
    let shared_base = dirs && rng.chance(1, 2);
    let paths: Vec<String> = (0..=nheaders)
        .map(|i| {
            if i == 0 {
                "main.rssl".to_string()
            } else if !dirs {
                format!("h{}.h", i)
            } else {
                let dir = ["a", "b", ""][rng.below(3)];
                let base = if shared_base && rng.chance(1, 2) { "c.h".to_string() } else { format!("h{}.h", i) };
                if dir.is_empty() {
                    base
                } else {
                    format!("{}/{}", dir, base)
                }
            }
        })
        .collect();
    // two headers must not be the same file
    let paths: Vec<String> = paths.iter().enumerate().map(|(i, p)| if paths[..i].contains(p) { format!("h{}.h", i) } else { p.clone() }).collect();
    let dir_of = |p: &str| p.rfind('/').map(|k| p[..k].to_string()).unwrap_or_default();
    // How file i spells file j: relative to its own directory when they share one (two times in three), else from the root.
    // The spelling is checked against the handler's rule (relative to the includer first, then as given): when it would
    // denote another file (a sibling shadowing a root file) the edge is dropped, so the graph keeps its forward-only shape.
    let spellings: Vec<Vec<Option<String>>> = (0..=nheaders)
        .map(|i| {
            (0..=nheaders)
                .map(|j| {
                    let (di, dj) = (dir_of(&paths[i]), dir_of(&paths[j]));
                    let base = paths[j].rsplit('/').next().unwrap().to_string();
                    let s = if di == dj && !di.is_empty() && rng.chance(2, 3) { base } else { paths[j].clone() };
                    let relative = if di.is_empty() { s.clone() } else { format!("{}/{}", di, s) };
                    let resolved = if paths.contains(&relative) { relative } else { s.clone() };
                    if resolved == paths[j] {
                        Some(s)
                    } else {
                        None
                    }
                })
                .collect()
        })
        .collect();
    let name = |i: usize, j: usize| -> Option<String> { spellings[i][j].clone() };
    let once: Vec<bool> = (0..=nheaders).map(|i| i > 0 && rng.chance(1, 2)).collect();
    let once_first: Vec<bool> = (0..=nheaders).map(|i| once[i] && rng.chance(5, 6)).collect();
    let mut files = Vec::new();
    for i in 0..=nheaders {
        let mut lines: Vec<String> = Vec::new();
        let mut text_n = 0;
        let nlines = if i == 0 { 3 + rng.below(5) } else { 1 + rng.below(5) };
        let once_at = if once_first[i] {
            0
        } else if once[i] {
            1 + rng.below(nlines)
        } else {
            usize::MAX
        };
        for l in 0..nlines {
            if l == once_at {
                lines.push("#pragma once".into());
            }
            let pick = rng.below(100);
            if pick < 42 {
                // include: forward edge, or (rarely) self/back edge into a file whose #pragma once is on its first line
                let forward: Vec<usize> = ((i + 1)..=nheaders).collect();
                let back: Vec<usize> = if dirs { Vec::new() } else { (1..=i).filter(|j| once_first[*j]).collect() };
                let target = if !back.is_empty() && (forward.is_empty() || rng.chance(1, 6)) {
                    Some(back[rng.below(back.len())])
                } else if !forward.is_empty() {
                    Some(forward[rng.below(forward.len())])
                } else {
                    None
                };
                // (a back edge only terminates because its target is already marked when it is re-entered)
                if let Some(spelled) = target.and_then(|j| name(i, j)) {
                    if rng.chance(1, 6) {
                        lines.push(format!("#include <{}>", spelled));
                    } else if rng.chance(1, 5) {
                        lines.push(format!("#include\"{}\"", spelled));
                    } else {
                        lines.push(format!("#include \"{}\"", spelled));
                    }
                    continue;
                }
            }
            if pick >= 42 && pick < 48 {
                // a conditional group that is not processed (the name is never defined) with directives inside: they have no
                // effect; or the same group under #ifndef, which is processed
                let taken = rng.chance(1, 3);
                lines.push(format!("#{} NEVER_DEFINED_{}", if taken { "ifndef" } else { "ifdef" }, i));
                lines.push(if rng.chance(1, 2) { "#undef V".to_string() } else { format!("#define V skipped{}_{}", i, l) });
                if rng.chance(1, 2) {
                    lines.push(format!("s{}_{} V ;", i, l));
                }
                if rng.chance(1, 3) {
                    lines.push("#else".into());
                    lines.push(format!("#define W(x) e{} x", i));
                }
                lines.push("#endif".into());
                continue;
            }
            if pick < 60 {
                // visible text naming file and line
                lines.push(format!("t{}_{} ;", i, text_n));
                text_n += 1;
            } else if pick < 72 {
                // macro state crossing file boundaries
                lines.push(format!("#define V v{}_{}", i, l));
            } else if pick < 80 {
                lines.push("#undef V".into());
            } else if pick < 90 {
                lines.push(format!("V + W ( {} ) ;", i));
            } else {
                lines.push(format!("#define W(x) w{} x V", i));
            }
        }
        if once_at != usize::MAX && once_at >= nlines {
            lines.push("#pragma once".into());
        }
        // a header without #pragma once is sometimes protected by a classic include guard instead: its second inclusion is a group
        // that is not processed, whatever directives it contains
        if i > 0 && once_at == usize::MAX && rng.chance(1, 2) {
            lines.insert(0, format!("#define GUARD_H{}", i));
            lines.insert(0, format!("#ifndef GUARD_H{}", i));
            lines.push("#endif".into());
        }
        let mut s = lines.join("\n");
        s.push('\n');
        files.push((paths[i].clone(), s));
    }
    // back edges must hit files whose pragma once is first: files with a late pragma are only reached by forward edges
    // (checked above through `safe`); main always includes something
    if !files[0].1.contains("#include") {
        let j = 1 + rng.below(nheaders);
        files[0].1.push_str(&format!("#include \"{}\"\nV ;\n", paths[j]));
    }
    Files(files)
}

// ------------------------------------------------------------------------------------------------
// Workload 3: API defines versus #define lines
// ------------------------------------------------------------------------------------------------

#[derive(Clone, Debug)]
struct DefCase {
    text: String,
    defines: Vec<(String, String)>,
    target: Tgt,
    mode: Mode,
    /// the program pastes the *value* of a define (known finding KF-C12-1 lives here and nowhere else)
    pastes_define_value: bool,
    /// the value of a define contains ## itself (known finding KF-C12-7 lives here and nowhere else)
    value_has_paste: bool,
}

fn gen_define_case(rng: &mut Rng) -> DefCase {
    let n = 1 + rng.below(4);
    let mut defines: Vec<(String, String)> = Vec::new();
    // roles: what the program does with the define
    #[derive(Clone, Copy, PartialEq)]
    enum R {
        Int,
        Float,
        Type,
        Empty,
        Flag,
    }
    let mut roles = Vec::new();
    // value is a single integer literal (possibly through another define): usable in #if, whose parser has no arithmetic
    let mut simple: Vec<bool> = Vec::new();
    let names = ["N0", "N1", "N2", "N3"];
    for i in 0..n {
        let role = *rng.pick(&[R::Int, R::Int, R::Float, R::Type, R::Empty, R::Flag]);
        let earlier_int: Vec<usize> = (0..i).filter(|j| roles[*j] == R::Int).collect();
        let mut is_simple = false;
        let value = match role {
            R::Int => match rng.below(7) {
                0 | 1 => {
                    is_simple = true;
                    format!("{}", rng.range(1, 64))
                }
                2 => format!("({} + {})", rng.range(1, 9), rng.range(1, 9)),
                3 => format!("{} * {}", rng.range(1, 9), rng.range(1, 9)),
                4 if !earlier_int.is_empty() => format!("({} + {})", names[earlier_int[rng.below(earlier_int.len())]], rng.range(1, 5)),
                5 if !earlier_int.is_empty() => {
                    let j = earlier_int[rng.below(earlier_int.len())];
                    is_simple = simple[j];
                    names[j].to_string()
                }
                _ => {
                    is_simple = true;
                    format!("{}u", rng.range(1, 32))
                }
            },
            R::Float => rng.pick(&["1.5", "0.25f", "2.0", "(1.0 + 0.5)", "3"]).to_string(),
            R::Type => rng.pick(&["float", "uint", "int", "float2"]).to_string(),
            R::Empty => rng.pick(&["", "", " ", "static"]).to_string(),
            R::Flag => rng.pick(&["1", "0", "", "(1)"]).to_string(),
        };
        roles.push(role);
        simple.push(is_simple);
        defines.push((names[i].to_string(), value));
    }
    // only programs of this sub-family paste the tokens of a define's *value* (rssl macro-replaces an argument before
    // pasting it): KF-C12-1 lives here and nowhere else
    let pastes_define_value = rng.chance(1, 20) && roles.iter().zip(simple.iter()).any(|(r, s)| *r == R::Int && *s);
    // ... and of this one have a ## inside a define's value (`#define N0 1 ## 2` is 12)
    let mut value_has_paste = false;
    if !pastes_define_value && rng.chance(1, 25) {
        if let Some(i) = (0..n).find(|i| roles[*i] == R::Int) {
            defines[i].1 = format!("{} ## {}", rng.range(1, 9), rng.range(1, 9));
            simple[i] = false;
            value_has_paste = true;
        }
    }
    let mut t = String::new();
    t.push_str("#define MUL(a, b) ((a) * (b))\n#define CAT(a, b) a##b\n");
    t.push_str("struct S { float a; uint b; };\n");
    let mut body = String::new();
    for i in 0..n {
        let nm = names[i];
        match roles[i] {
            R::Int => {
                match rng.below(4) {
                    0 => body.push_str(&format!("    acc += (float)({});\n", nm)),
                    1 => body.push_str(&format!("    acc += (float)MUL({}, 3);\n", nm)),
                    // the paste *builds the name*; the define itself is only replaced afterwards
                    2 => body.push_str(&format!("    acc += (float)(CAT(N, {}));\n", i)),
                    _ => body.push_str(&format!("    uint l{} = {};\n    acc += (float)l{};\n", i, nm, i)),
                }
                if simple[i] && rng.chance(1, 2) {
                    t.push_str(&format!("#if {} > 4\nstatic const uint K{} = 1;\n#else\nstatic const uint K{} = 2;\n#endif\n", nm, i, i));
                    body.push_str(&format!("    acc += (float)K{};\n", i));
                }
                if pastes_define_value && simple[i] {
                    // macro-replaced argument: the tokens of the define's value are pasted
                    if defines[i].1.ends_with('u') {
                        body.push_str(&format!("    acc += (float)(CAT(1, {}));\n", nm));
                    } else {
                        body.push_str(&format!("    acc += (float)(CAT({}, 1));\n", nm));
                    }
                }
            }
            R::Float => body.push_str(&format!("    acc = acc * {} + MUL({}, 2.0);\n", nm, nm)),
            R::Type => body.push_str(&format!("    {} v{} = ({})1;\n    acc += (float)v{};\n", nm, i, nm, i)),
            R::Empty => t.push_str(&format!("{} float g{}(float p) {{ return p + 1.0; }}\n", nm, i)),
            R::Flag => {
                t.push_str(&format!("#ifdef {}\nstatic const uint F{} = 3;\n#else\nstatic const uint F{} = 4;\n#endif\n", nm, i, i));
                t.push_str(&format!("#if defined({}) && !defined(UNSET{})\nstatic const uint G{} = 5;\n#endif\n", nm, i, i));
                body.push_str(&format!("    acc += (float)(F{} + G{});\n", i, i));
            }
        }
    }
    let entry = rng.chance(2, 3);
    t.push_str("float f(float x) {\n    float acc = x;\n");
    t.push_str(&body);
    t.push_str("    return acc;\n}\n");
    if entry {
        t.push_str("RWByteAddressBuffer g_out;\nvoid CSMAIN(uint3 dtid : SV_DispatchThreadID) {\n    g_out.Store(0, asuint(f((float)dtid.x)));\n}\nPipeline P\n{\n    ComputeShader = CSMAIN;\n}\n");
    }
    DefCase {
        text: t,
        defines,
        target: *rng.pick(&[Tgt::Dx, Tgt::Vk, Tgt::Msl]),
        mode: if entry { Mode::All } else { Mode::NoPipeline },
        pastes_define_value,
        value_has_paste,
    }
}

fn defcase_json(c: &DefCase) -> Json {
    Json::obj()
        .set("workload", "defines")
        .set("text", &c.text)
        .set("defines", Json::Arr(c.defines.iter().map(|(a, b)| Json::Arr(vec![Json::str(a), Json::str(b)])).collect()))
        .set("target", c.target.name())
        .set("mode", c.mode.name())
        .set("pastes_define_value", c.pastes_define_value)
        .set("value_has_paste", c.value_has_paste)
}

fn defcase_from_json(j: &Json) -> DefCase {
    let mut defines = Vec::new();
    if let Some(d) = j.get("defines").and_then(|d| d.as_arr()) {
        for kv in d {
            if let Some(kv) = kv.as_arr() {
                if kv.len() == 2 {
                    defines.push((kv[0].as_str().unwrap_or("").to_string(), kv[1].as_str().unwrap_or("").to_string()));
                }
            }
        }
    }
    DefCase {
        text: j.get_str("text").unwrap_or("").to_string(),
        defines,
        target: Tgt::from_name(j.get_str("target").unwrap_or("")),
        mode: Mode::from_name(j.get_str("mode").unwrap_or("all")),
        pastes_define_value: j.get("pastes_define_value").and_then(|v| v.as_bool()).unwrap_or(false),
        value_has_paste: j.get("value_has_paste").and_then(|v| v.as_bool()).unwrap_or(false),
    }
}

/// Everything compile() returns for a successful run, as comparable text
fn payload(o: &Outcome) -> String {
    o.observable()
}

fn examine_defines(case: &DefCase, report: &mut Report) {
    let n = case.defines.len();
    // baseline = all defines as #define lines in front of the first line (the property's own reading)
    let compile_split = |mask: usize| -> (Outcome, String) {
        let mut text = String::new();
        let mut api = Vec::new();
        for (i, (name, value)) in case.defines.iter().enumerate() {
            if mask & (1 << i) != 0 {
                api.push((name.clone(), value.clone()));
            } else {
                text.push_str(&format!("#define {} {}\n", name, value));
            }
        }
        text.push_str(&case.text);
        let mut opts = Opts::new(case.target, case.mode.clone());
        opts.defines = api;
        opts.budget = 50_000_000;
        (rs::compile(&Files::single("main.rssl", &text), "main.rssl", &opts), text)
    };
    let (base, _) = compile_split(0);
    report.evaluations += 1;
    report.count(&format!("defines:baseline:{}", base.class()));
    if let Outcome::Diag(d) = &base {
        report.count(&format!("defines:baseline-diagnostic:{}", clip(d.lines().next().unwrap_or(""), 60)));
    }
    if matches!(base, Outcome::Panic(_) | Outcome::Budget { .. }) {
        // not this property's business when no API define is involved (C08)
        report.count("defines:skipped:baseline-panics");
        return;
    }
    let base_payload = payload(&base);
    let mut all_equal = true;
    for mask in 1..(1usize << n) {
        let (o, text) = compile_split(mask);
        report.evaluations += 1;
        report.count(&format!("defines:split:{}-of-{}-on-api", mask.count_ones(), n));
        let same_verdict = o.class() == base.class();
        let same = same_verdict && (base.ok().is_none() || payload(&o) == base_payload);
        if same {
            continue;
        }
        all_equal = false;
        let api: Vec<String> = case.defines.iter().enumerate().filter(|(i, _)| mask & (1 << i) != 0).map(|(_, d)| format!("{}={}", d.0, d.1)).collect();
        let witness = defcase_json(case)
            .set("api_mask", mask as u64)
            .set("api_defines", Json::Arr(api.iter().map(Json::str).collect()))
            .set("file_text_of_split", text)
            .set("all_in_file", clip(&base.observable(), 3000))
            .set("this_split", clip(&o.observable(), 3000));
        let sig = match &o {
            Outcome::Panic(c) if case.pastes_define_value && c.message.contains("unlex does not support unlocated tokens") => {
                "defines:panic:paste-of-api-define-value:unlex does not support unlocated tokens".to_string()
            }
            Outcome::Panic(c) => format!("defines:panic:{}", c.signature()),
            Outcome::Budget { .. } => "defines:step-budget".to_string(),
            _ if !same_verdict && case.value_has_paste => format!("defines:paste-inside-api-define-value:verdict:{}-in-file-{}-on-api", base.class(), o.class()),
            _ if !same_verdict => format!("defines:verdict:{}-in-file-{}-on-api", base.class(), o.class()),
            _ => "defines:payload-differs".to_string(),
        };
        report.violation(
            &sig,
            &format!("compile(defines=[{}]) gives {} but the same defines as #define lines give {}", api.join(", "), o.brief(), base.brief()),
            witness,
        );
    }
    if all_equal {
        report.count("defines:agree:all-splits-equal");
        report.distinct(files_hash("defines", &Files::single("main.rssl", &case.text), &case.defines));
        if report.want_sample() && report.samples.len() < 1 {
            report.sample(defcase_json(case).set("verdict_all_splits", base.brief()));
        }
    }
}

// ------------------------------------------------------------------------------------------------
// run / replay
// ------------------------------------------------------------------------------------------------

fn run(ctx: &Ctx) -> Report {
    let mut total = Report::new();
    // the three workloads share the deadline: 50 % / 20 % / 30 %
    let n1 = ctx.tier.pick(60_000, 1_500_000);
    let n2 = ctx.tier.pick(20_000, 300_000);
    let n3 = ctx.tier.pick(700, 20_000);
    let sub = |frac: f64| -> Ctx {
        let mut c = ctx.clone();
        c.deadline_s = ctx.start.elapsed().as_secs_f64() + ctx.deadline_s * frac;
        c.start = ctx.start;
        c
    };
    let seed = ctx.seed;
    let r1 = par::run_cases(&sub(0.5), n1, |index, report| {
        let mut rng = Rng::for_case(seed, 0xC12_1, index);
        let text = gen_macro_program(&mut rng);
        let files = Files::single("main.rssl", &text);
        examine_pp("macro", &files, "main.rssl", true, report, &|| Json::obj().set("index", index));
    });
    rename_counter(&mut total, r1, "macro");
    let r2 = par::run_cases(&sub(0.2), n2, |index, report| {
        let mut rng = Rng::for_case(seed, 0xC12_2, index);
        let files = gen_include_graph(&mut rng);
        examine_pp("include", &files, "main.rssl", true, report, &|| Json::obj().set("index", index));
    });
    rename_counter(&mut total, r2, "include");
    let r3 = par::run_cases(&sub(0.3), n3, |index, report| {
        let mut rng = Rng::for_case(seed, 0xC12_3, index);
        let case = gen_define_case(&mut rng);
        examine_defines(&case, report);
    });
    rename_counter(&mut total, r3, "defines");
    total
}

/// `cases_run` of each workload is kept under its own name
fn rename_counter(total: &mut Report, mut r: Report, w: &str) {
    if let Some(n) = r.counters.remove("cases_run") {
        r.counters.insert(format!("{}:cases_run", w), n);
    }
    let notes = std::mem::take(&mut r.notes);
    for n in notes {
        r.notes.push(format!("{}: {}", w, n));
    }
    total.merge(r);
}

fn replay(ctx: &Ctx, witness: &Json) -> Report {
    // on a worker-sized stack: the unbounded recursion of KF-C12-2 must run into the step budget, not into the
    // 8 MB stack of the main thread
    std::thread::scope(|scope| {
        std::thread::Builder::new()
            .stack_size(par::WORKER_STACK)
            .spawn_scoped(scope, || replay_here(ctx, witness))
            .expect("spawn replay thread")
            .join()
            .unwrap_or_else(|_| {
                let mut r = Report::new();
                r.inconclusive("replay thread died");
                r
            })
    })
}

fn replay_here(_ctx: &Ctx, witness: &Json) -> Report {
    let mut report = Report::new();
    match witness.get_str("workload").unwrap_or("") {
        "defines" => {
            let case = defcase_from_json(witness);
            examine_defines(&case, &mut report);
        }
        w @ ("macro" | "include") => {
            let files = Files::from_json(witness.get("files").unwrap_or(&Json::Null));
            let entry = witness.get_str("entry").unwrap_or("main.rssl").to_string();
            examine_pp(w, &files, &entry, false, &mut report, &|| Json::obj());
        }
        other => report.inconclusive(&format!("witness has unknown workload '{}'", other)),
    }
    report
}
