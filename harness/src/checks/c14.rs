//! C14 - not built yet
