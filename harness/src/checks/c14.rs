//! C14 - layout trivia never changes results, and diagnostics track source positions.
//!
//! Two differential monitors around the real `rssl::compile`:
//!
//! 1. trivia monitor: P' = P + layout trivia (spaces, tabs, `/* */`, `// ..`, blank lines, `\`-newline) at token
//!    boundaries found by the harness's OWN lexer (gen::c14_layout). compile(P') must have the verdict of
//!    compile(P) and, when accepted, the identical Ok payload (source bytes, stages, metadata, pipeline state).
//!    Never touched, as the property says: directly after `<`/`>`, between a macro's name and `(` in a #define;
//!    and, by the rules of the language, no real newline inside a directive line (a splice or a block comment may precede the `#`).
//! 2. position monitor: k physical lines of trivia inserted at a logical line start move every position the
//!    diagnostic mentions on or after that line (same file) by exactly k and leave everything else - message,
//!    file, column, echoed source line - unchanged. For generated programs with exactly one injected error the
//!    diagnostic must additionally name the file and line (and, for a unique spelling, the column) of the construct.
//!
//! Recorded findings (known_findings.d/C14.json) are avoided by the generator and replayed from their witnesses;
//! The macro invocation fix has been applied to the repository, so the two trivia avoidances are off; `C14_AVOID=1` switches them on again.

use crate::corpus;
use crate::gen::c14_layout::{self as lay, Injected, ProgGen};
use crate::json::Json;
use crate::report::{Ctx, Report, Tier};
use crate::rng::{hash_str, Rng};
use crate::rs::{self, Files, Mode, Opts, Outcome, Tgt};
use crate::CheckDef;

pub fn def() -> CheckDef {
    CheckDef {
        id: "C14",
        salt: 0xC14,
        rule: "bases: every RSSL snippet of the repository's unit tests (accepted and rejected, some re-encoded with CRLF), every tests/basic \
               entry (pipelines: Mode::All and no_pipeline, DirectX/Vulkan/Metal), capsaicin and ffx_fsr2 entries (macro heavy, with their \
               defines), generated programs with object-like/function-like/multi-line/pasting macros, conditionals, #undef, nested and \
               repeated #include of in-memory files, and generated programs with exactly one injected error (28 kinds: type, parse, lexer, \
               preprocessor, inside macro bodies/arguments; in the entry file or an included file; also on a last line without newline). \
               trivia variants: insertions at boundaries of the harness's own lexer, single-kind or mixed, sparse to every boundary; \
               never after `<`/`>`, never between name and `(` of a #define, no newline inside a directive line; blanks, block comments and splices before `#`. \
               Generator avoidances for recorded findings: no newline between a macro name and the `(` of its invocation (KF-C14-1), \
               none inside an empty macro argument list (KF-C14-2), no injected error on a token made by ## (KF-C14-3). \
               position variants: k in 0..=50 physical lines (blank, blank with spaces, //, /* */, multi-line comments, spliced \
               comment lines, CRLF) at a logical line start before / after the construct or in another file. \
               evaluations = compiles of variants observed; distinct_nontrivial = distinct (variant text, configuration) pairs that \
               differ from their base",
        assumptions: &[
            "token boundaries come from the harness lexer, which merges whenever unsure (numbers swallow letters, operator characters form one run); boundaries inside such runs are not exercised",
            "diagnostics without any position (end-of-input parse errors, unbalanced #if/#endif, macro argument count) are counted, not judged",
        ],
        min_distinct: (10_000, 200_000),
        deadline_s: (50.0, 540.0),
        run,
        replay,
    }
}

// ------------------------------------------------------------------------------------------------
// bases
// ------------------------------------------------------------------------------------------------

#[derive(Clone)]
struct Base {
    files: Files,
    entry: String,
    defines: Vec<(String, String)>,
    origin: String,
    configs: Vec<(Tgt, Mode)>,
    /// include the files in witnesses (false for the big corpus sets, which are named by origin)
    embed: bool,
}

impl Base {
    fn opts(&self, c: usize) -> Opts {
        let (t, m) = &self.configs[c % self.configs.len()];
        let mut o = Opts::new(*t, m.clone());
        o.defines = self.defines.clone();
        o
    }
    fn macros(&self) -> Vec<String> {
        let mut m: Vec<String> = self.defines.iter().map(|d| d.0.clone()).collect();
        for f in &self.files.0 {
            lay::defined_macros(&f.1, &mut m);
        }
        m
    }
    /// Indices of the files the entry file can reach through #include (over-approximation: conditionals are ignored)
    fn reachable(&self) -> Vec<usize> {
        let mut out: Vec<usize> = Vec::new();
        let Some(e) = self.files.0.iter().position(|f| f.0 == self.entry) else { return out };
        let mut todo = vec![e];
        while let Some(i) = todo.pop() {
            if out.contains(&i) {
                continue;
            }
            out.push(i);
            for name in lay::included_names(&self.files.0[i].1) {
                let rel = rs::minipath_join(&self.files.0[i].0, &name);
                let hit = self.files.0.iter().position(|f| Some(&f.0) == rel.as_ref()).or_else(|| self.files.0.iter().position(|f| f.0 == name));
                if let Some(h) = hit {
                    todo.push(h);
                }
            }
        }
        out.sort();
        out
    }
    fn witness(&self, opts: &Opts) -> Json {
        let mut w = Json::obj().set("origin", self.origin.as_str()).set("entry", self.entry.as_str()).set("opts", opts.to_json());
        if self.embed {
            w.put("files", self.files.to_json());
        }
        w
    }
}

#[derive(Clone, Debug)]
struct Ins {
    file: usize,
    offset: usize,
    text: String,
    label: String,
    ctx: String,
}

fn apply(files: &Files, ins: &[Ins]) -> Files {
    let mut out = files.clone();
    for (fi, f) in out.0.iter_mut().enumerate() {
        let mut mine: Vec<&Ins> = ins.iter().filter(|i| i.file == fi).collect();
        if mine.is_empty() {
            continue;
        }
        mine.sort_by_key(|i| i.offset);
        let mut s = String::with_capacity(f.1.len() + mine.iter().map(|i| i.text.len()).sum::<usize>());
        let mut at = 0;
        for i in mine {
            s.push_str(&f.1[at..i.offset]);
            s.push_str(&i.text);
            at = i.offset;
        }
        s.push_str(&f.1[at..]);
        f.1 = s;
    }
    out
}

fn ins_json(files: &Files, ins: &[Ins]) -> Json {
    Json::Arr(
        ins.iter()
            .map(|i| Json::obj().set("file", files.0[i.file].0.as_str()).set("offset", i.offset).set("text", i.text.as_str()).set("kind", i.label.as_str()).set("context", i.ctx.as_str()))
            .collect(),
    )
}

// ------------------------------------------------------------------------------------------------
// trivia monitor
// ------------------------------------------------------------------------------------------------

/// Does `text` consist only of trivia that `allow` permits? (self check of the generator, and of replayed witnesses)
fn fits(text: &str, allow: u8) -> bool {
    let pieces = lay::lex(text);
    let n = pieces.len();
    if allow & lay::A_LINES_THEN_SPACE != 0 {
        // whole lines of trivia, then blanks, block comments and splices (a `//` comment needs its newline)
        for (i, p) in pieces.iter().enumerate() {
            match p.kind {
                lay::PK::Tok | lay::PK::OpenBlockComment => return false,
                lay::PK::LineComment if i + 1 == n => return false,
                _ => {}
            }
        }
        return true;
    }
    for (i, p) in pieces.iter().enumerate() {
        let need = match p.kind {
            lay::PK::Tok | lay::PK::OpenBlockComment => return false,
            lay::PK::Space => lay::A_SPACE,
            lay::PK::BlockComment => lay::A_BLOCK,
            lay::PK::Splice => lay::A_SPLICE,
            lay::PK::Newline => lay::A_NL,
            lay::PK::LineComment => {
                if i + 1 == n {
                    lay::A_EOLC
                } else {
                    lay::A_NL
                }
            }
        };
        if allow & need == 0 {
            return false;
        }
    }
    true
}

/// How two outcomes differ, as far as the property is concerned
fn difference(base: &Outcome, var: &Outcome) -> Option<(String, String)> {
    match (base, var) {
        (Outcome::Panic(_), _) | (Outcome::Budget { .. }, _) | (_, Outcome::Budget { .. }) => None,
        (Outcome::Ok(_), Outcome::Ok(_)) => {
            let (a, b) = (base.observable(), var.observable());
            if a == b {
                None
            } else {
                let mut la = a.lines();
                let mut lb = b.lines();
                loop {
                    match (la.next(), lb.next()) {
                        (Some(x), Some(y)) if x == y => continue,
                        (x, y) => return Some(("payload".into(), format!("`{}` became `{}`", x.unwrap_or("<end>"), y.unwrap_or("<end>")))),
                    }
                }
            }
        }
        (Outcome::Ok(_), Outcome::Diag(d)) => Some(("accept->reject".into(), d.lines().next().unwrap_or("").to_string())),
        (Outcome::Diag(d), Outcome::Ok(_)) => Some(("reject->accept".into(), d.lines().next().unwrap_or("").to_string())),
        (Outcome::Diag(_), Outcome::Diag(_)) => None,
        (b, Outcome::Panic(c)) => Some((format!("{}->panic:{}", b.class(), c.signature()), c.location.clone())),
    }
}

fn build_insertions(rng: &mut Rng, base: &Base, all_points: &[Vec<lay::Point>], report: &mut Report) -> Vec<Ins> {
    for attempt in 0..3 {
        let out = build_insertions_once(rng, base, all_points, attempt > 0, report);
        if !out.is_empty() {
            return out;
        }
    }
    Vec::new()
}

fn build_insertions_once(rng: &mut Rng, _base: &Base, all_points: &[Vec<lay::Point>], dense: bool, report: &mut Report) -> Vec<Ins> {
    let mut out = Vec::new();
    let nl = if rng.chance(1, 6) { "\r\n" } else { "\n" };
    let style = if dense { 5 + rng.below(4) } else { rng.below(10) };
    // which files: all of them, or only one
    let with_points: Vec<usize> = (0..all_points.len()).filter(|i| !all_points[*i].is_empty()).collect();
    let only_file = if with_points.len() > 1 && rng.chance(1, 2) { Some(*rng.pick(&with_points)) } else { None };
    let single_kind = if style < 5 { Some(*rng.pick(&lay::ALL_TK)) } else { None };
    let (num, den) = match if dense { 3 } else { rng.below(4) } {
        0 => (1, 20),
        1 => (1, 4),
        2 => (3, 4),
        _ => (1, 1),
    };
    for (fi, pts) in all_points.iter().enumerate() {
        if let Some(o) = only_file {
            if o != fi {
                continue;
            }
        }
        let usable: Vec<usize> = (0..pts.len()).filter(|&i| pts[i].allow != 0).collect();
        if usable.is_empty() {
            continue;
        }
        let chosen: Vec<usize> = if style == 9 {
            // one to three places only
            (0..1 + rng.below(3)).map(|_| *rng.pick(&usable)).collect()
        } else {
            usable.iter().copied().filter(|_| rng.chance(num, den)).collect()
        };
        let mut seen: Vec<usize> = Vec::new();
        for pi in chosen {
            if seen.contains(&pi) && style == 9 {
                continue;
            }
            seen.push(pi);
            let p = &pts[pi];
            if let Some((text, label)) = lay::trivia_for(rng, p, single_kind, nl) {
                if !fits(&text, p.allow) {
                    report.inconclusive(&format!("generator produced trivia `{:?}` that does not fit its place ({})", text, p.allow));
                    continue;
                }
                let ctx = format!("{}:{}|{}", p.directive.as_ref().map(|d| format!("#{}", d)).unwrap_or_else(|| "code".into()), p.prev_class, p.next_class);
                out.push(Ins { file: fi, offset: p.offset, text, label: label.to_string(), ctx });
            }
        }
    }
    out
}

/// Shrink a failing insertion set (same kind of difference), with a bound on compiles
fn minimise(base: &Base, opts: &Opts, base_out: &Outcome, ins: Vec<Ins>, flip: &str, report: &mut Report) -> Vec<Ins> {
    let mut cur = ins;
    let mut budget = 160;
    let mut chunk = (cur.len() / 2).max(1);
    loop {
        let mut removed = false;
        let mut i = 0;
        while i < cur.len() && cur.len() > 1 && budget > 0 {
            let mut trial = cur.clone();
            let end = (i + chunk).min(trial.len());
            trial.drain(i..end);
            if trial.is_empty() {
                i += chunk;
                continue;
            }
            budget -= 1;
            let o = rs::compile(&apply(&base.files, &trial), &base.entry, opts);
            report.evaluations += 1;
            if matches!(difference(base_out, &o), Some((f, _)) if f == flip) {
                cur = trial;
                removed = true;
            } else {
                i += chunk;
            }
        }
        if budget == 0 || cur.len() <= 1 {
            break;
        }
        if chunk == 1 {
            if !removed {
                break;
            }
        } else {
            chunk = (chunk / 2).max(1);
        }
    }
    cur
}

fn judge_variant(base: &Base, opts: &Opts, base_out: &Outcome, ins: Vec<Ins>, report: &mut Report) {
    let variant = apply(&base.files, &ins);
    let var_out = rs::compile(&variant, &base.entry, opts);
    report.evaluations += 1;
    let mut h = hash_str(&opts.target.name()) ^ hash_str(&opts.mode.name()).rotate_left(7);
    for f in &variant.0 {
        h = h.rotate_left(13) ^ hash_str(&f.1);
    }
    report.distinct(h);
    match difference(base_out, &var_out) {
        None => {
            report.count(&format!("trivia:{}->{}", base_out.class(), var_out.class()));
            if let (Outcome::Diag(a), Outcome::Diag(b)) = (base_out, &var_out) {
                // not part of the property (only the verdict of a rejected program is); recorded for the reader
                if message_class(a) != message_class(b) {
                    report.count("trivia:diagnostic->diagnostic:other-message");
                }
            }
            if report.want_sample() && ins.len() <= 6 && h % 211 == 0 {
                report.sample(base.witness(opts).set("monitor", "trivia").set("insertions", ins_json(&base.files, &ins)).set("result", var_out.brief()));
            }
        }
        Some((flip, detail)) => {
            // a base that does not reproduce itself (C07's business) cannot be compared
            let again = rs::compile(&base.files, &base.entry, opts);
            if again.observable() != base_out.observable() {
                report.count("skipped:base-not-deterministic");
                return;
            }
            let small = minimise(base, opts, base_out, ins, &flip, report);
            let small_out = rs::compile(&apply(&base.files, &small), &base.entry, opts);
            let detail = difference(base_out, &small_out).map(|d| d.1).unwrap_or(detail);
            let signature = if small.len() == 1 {
                format!("trivia:{}:{}:{}", flip, small[0].label, small[0].ctx)
            } else {
                format!("trivia:{}:several({}):{}:{}", flip, small.len().min(9), small[0].label, small[0].ctx)
            };
            let first = &small[0];
            report.violation(
                &signature,
                &format!(
                    "{} [{} {}]: inserting {:?} at byte {} of {} ({}) changes the result: {} -> {} ({})",
                    base.origin,
                    opts.target.name(),
                    opts.mode.name(),
                    first.text,
                    first.offset,
                    base.files.0[first.file].0,
                    first.ctx,
                    base_out.brief(),
                    small_out.brief(),
                    detail
                ),
                base.witness(opts)
                    .set("monitor", "trivia")
                    .set("insertions", ins_json(&base.files, &small))
                    .set("observed", Json::obj().set("base", base_out.brief()).set("variant", small_out.brief()).set("difference", detail.as_str()).set("flip", flip.as_str())),
            );
        }
    }
}

fn trivia_case(base: &Base, rng: &mut Rng, variants: u64, report: &mut Report) -> Vec<Option<Outcome>> {
    let macros = base.macros();
    let reachable = base.reachable();
    let all_points: Vec<Vec<lay::Point>> = base.files.0.iter().enumerate().map(|(i, f)| if reachable.contains(&i) { lay::points(&f.1, &macros, std::env::var("C14_AVOID").is_ok()) } else { Vec::new() }).collect();
    report.max("max:files-reached", reachable.len() as u64);
    let mut base_outs: Vec<Option<Outcome>> = vec![None; base.configs.len()];
    let class = base.origin.split(':').next().unwrap_or("").to_string();
    for v in 0..variants {
        let c = (v as usize) % base.configs.len();
        let opts = base.opts(c);
        if base_outs[c].is_none() {
            let o = rs::compile(&base.files, &base.entry, &opts);
            report.count(&format!("base:{}:{}", class, o.class()));
            if let Outcome::Panic(p) = &o {
                report.count(&format!("skipped:base-panic:{}", p.signature()));
            }
            base_outs[c] = Some(o);
        }
        let base_out = base_outs[c].clone().unwrap();
        if matches!(base_out, Outcome::Panic(_) | Outcome::Budget { .. }) {
            continue;
        }
        let ins = build_insertions(rng, base, &all_points, report);
        if ins.is_empty() {
            report.count("skipped:no-insertion");
            continue;
        }
        for i in &ins {
            report.count(&format!("inserted:{}", i.label));
        }
        report.max("max:insertions-per-variant", ins.len() as u64);
        judge_variant(base, &opts, &base_out, ins, report);
    }
    base_outs
}

// ------------------------------------------------------------------------------------------------
// position monitor
// ------------------------------------------------------------------------------------------------

#[derive(Clone, Debug, PartialEq)]
struct Loc {
    file: String,
    line: usize,
    col: usize,
    severity: String,
    message: String,
}

/// `file:line:column: error: message`
fn parse_located(l: &str) -> Option<Loc> {
    let (idx, sev) = match (l.find(": error: "), l.find(": note: ")) {
        (Some(a), Some(b)) => {
            if a < b {
                (a, "error")
            } else {
                (b, "note")
            }
        }
        (Some(a), None) => (a, "error"),
        (None, Some(b)) => (b, "note"),
        (None, None) => return None,
    };
    let head = &l[..idx];
    let message = l[idx + sev.len() + 4..].to_string();
    let mut parts = head.rsplitn(3, ':');
    let col = parts.next()?.parse::<usize>().ok()?;
    let line = parts.next()?.parse::<usize>().ok()?;
    let file = parts.next()?.to_string();
    if file.is_empty() {
        return None;
    }
    Some(Loc { file, line, col, severity: sev.to_string(), message })
}

fn message_class(d: &str) -> String {
    // the message of the first line without quoted names and numbers
    let first = d.lines().next().unwrap_or("");
    let msg = first.split("error: ").nth(1).unwrap_or(first);
    let mut out = String::new();
    let mut quoted = false;
    for c in msg.chars() {
        if c == '\'' || c == '`' {
            quoted = !quoted;
            if quoted {
                out.push('_');
            }
            continue;
        }
        if quoted || c.is_ascii_digit() {
            continue;
        }
        if c == '(' {
            break;
        }
        out.push(c);
    }
    out.trim().chars().take(48).collect()
}

/// Every position in the diagnostic must follow the line map of "k lines inserted before line l0 of `file`"
fn check_shift(base: &str, var: &str, file: &str, l0: usize, k: usize) -> Result<u64, String> {
    let bl: Vec<&str> = base.lines().collect();
    let vl: Vec<&str> = var.lines().collect();
    if bl.len() != vl.len() {
        return Err(format!("diagnostic has {} lines instead of {}", vl.len(), bl.len()));
    }
    let mut moved = 0;
    for (b, v) in bl.iter().zip(&vl) {
        match parse_located(b) {
            Some(lb) => {
                let Some(lv) = parse_located(v) else {
                    return Err(format!("`{}` became `{}`", b, v));
                };
                let expect = if lb.file == file && lb.line >= l0 { lb.line + k } else { lb.line };
                if lv.file != lb.file {
                    return Err(format!("file name changed: `{}` became `{}`", b, v));
                }
                if lv.message != lb.message || lv.severity != lb.severity {
                    return Err(format!("message changed: `{}` became `{}`", b, v));
                }
                if lv.col != lb.col {
                    return Err(format!("column changed: `{}` became `{}`", b, v));
                }
                if lv.line != expect {
                    return Err(format!("line should be {} (was {}, {} lines inserted before line {} of {}): `{}`", expect, lb.line, k, l0, file, v));
                }
                if expect != lb.line {
                    moved += 1;
                }
            }
            None => {
                if b != v {
                    return Err(format!("`{}` became `{}`", b, v));
                }
            }
        }
    }
    Ok(moved)
}

fn pick_k(rng: &mut Rng) -> usize {
    match rng.below(10) {
        0 => 0,
        1 => 1,
        2 => 2,
        3 => 3 + rng.below(3),
        4 => 50,
        5 => 49,
        _ => rng.below(51),
    }
}

struct Expect {
    kind: String,
    acceptable: Vec<(String, usize)>,
    unique: Vec<String>,
    may_be_unlocated: bool,
}

impl Expect {
    fn to_json(&self) -> Json {
        Json::obj()
            .set("kind", self.kind.as_str())
            .set("acceptable", Json::Arr(self.acceptable.iter().map(|(f, l)| Json::obj().set("file", f.as_str()).set("line", *l)).collect()))
            .set("unique", Json::from(self.unique.clone()))
            .set("may_be_unlocated", self.may_be_unlocated)
    }
    fn from_json(j: &Json) -> Expect {
        Expect {
            kind: j.get_str("kind").unwrap_or("replay").to_string(),
            acceptable: j
                .get("acceptable")
                .and_then(|a| a.as_arr())
                .map(|a| a.iter().map(|e| (e.get_str("file").unwrap_or("").to_string(), e.get("line").and_then(|l| l.as_i64()).unwrap_or(0) as usize)).collect())
                .unwrap_or_default(),
            unique: j.get("unique").and_then(|a| a.as_arr()).map(|a| a.iter().filter_map(|s| s.as_str().map(|s| s.to_string())).collect()).unwrap_or_default(),
            may_be_unlocated: j.get("may_be_unlocated").and_then(|b| b.as_bool()).unwrap_or(false),
        }
    }
}

/// The diagnostic of a program with one injected error names the construct's file, line and (unique spelling) column.
/// Returns false when there is nothing located to continue with.
fn check_absolute(base: &Base, opts: &Opts, diag: &str, e: &Expect, report: &mut Report) -> bool {
    let first = diag.lines().next().unwrap_or("");
    let witness = |what: &str| base.witness(opts).set("monitor", "position").set("expect", e.to_json()).set("observed", Json::obj().set("diagnostic", diag).set("problem", what));
    let Some(loc) = parse_located(first) else {
        report.count(&format!("position:unlocated:{}:{}", e.kind, message_class(diag)));
        if !e.may_be_unlocated {
            report.violation(
                &format!("position:unlocated:{}", e.kind),
                &format!("{}: the diagnostic for the injected `{}` carries no position: {}", base.origin, e.kind, first),
                witness("no position"),
            );
        }
        return false;
    };
    report.count(&format!("position:located:{}", e.kind));
    if !e.acceptable.iter().any(|(f, _)| *f == loc.file) {
        report.violation(
            &format!("position:wrong-file:{}:{}", e.kind, loc.file),
            &format!("{}: the injected `{}` is in {} but the diagnostic names {}: {}", base.origin, e.kind, e.acceptable.last().map(|a| a.0.as_str()).unwrap_or(""), loc.file, first),
            witness("wrong file"),
        );
        return true;
    }
    if !e.acceptable.iter().any(|(f, l)| *f == loc.file && *l == loc.line) {
        report.violation(
            &format!("position:wrong-line:{}", e.kind),
            &format!("{}: the injected `{}` is on line {:?} but the diagnostic says {}:{}: {}", base.origin, e.kind, e.acceptable, loc.file, loc.line, first),
            witness("wrong line"),
        );
        return true;
    }
    // column of a spelling that is unique on its line
    if let Some(text) = base.files.0.iter().find(|f| f.0 == loc.file).map(|f| f.1.as_str()) {
        if let Some(src) = text.split('\n').nth(loc.line - 1) {
            let cols: Vec<usize> = e.unique.iter().filter_map(|u| src.find(u.as_str()).map(|p| p + 1)).collect();
            if !cols.is_empty() {
                if cols.contains(&loc.col) {
                    report.count("position:column-checked");
                    if src[..loc.col - 1].contains('\t') {
                        report.count("position:column-checked-after-tab");
                    }
                } else {
                    report.violation(
                        &format!("position:wrong-column:{}", e.kind),
                        &format!("{}: `{}` starts at column {:?} of line {} but the diagnostic says column {}: {}", base.origin, e.unique[0], cols, loc.line, loc.col, first),
                        witness("wrong column"),
                    );
                }
            }
        }
    }
    true
}

/// Insert k lines at a logical line start of one file and compare the diagnostics
fn shift_variant(base: &Base, opts: &Opts, base_diag: &str, fi: usize, offset: usize, text: &str, kind: &str, place: &str, report: &mut Report) {
    let ftext = &base.files.0[fi].1;
    let fname = &base.files.0[fi].0;
    let l0 = 1 + ftext[..offset].bytes().filter(|b| *b == b'\n').count();
    let k = text.bytes().filter(|b| *b == b'\n').count();
    let ins = vec![Ins { file: fi, offset, text: text.to_string(), label: "lines".into(), ctx: String::new() }];
    let variant = apply(&base.files, &ins);
    let out = rs::compile(&variant, &base.entry, opts);
    report.evaluations += 1;
    report.distinct(hash_str(&variant.0[fi].1) ^ hash_str(opts.target.name()) ^ 0x9051);
    let witness = |problem: &str, var: &str| {
        base.witness(opts)
            .set("monitor", "position")
            .set("kind", kind)
            .set("insertions", ins_json(&base.files, &ins))
            .set("observed", Json::obj().set("base_diagnostic", base_diag).set("variant", var).set("problem", problem).set("k", k).set("before_line", l0))
    };
    match &out {
        Outcome::Diag(d) => match check_shift(base_diag, d, fname, l0, k) {
            Ok(moved) => {
                report.count(&format!("position:shift-ok:{}", place));
                report.count(&format!("position:k:{}", if k == 0 { "0".to_string() } else if k < 10 { "1-9".into() } else if k < 50 { "10-49".into() } else { "50".into() }));
                if moved > 0 {
                    report.count("position:shift-ok:moved");
                }
            }
            Err(problem) => {
                let what = if problem.starts_with("line should") {
                    "line-shift"
                } else if problem.starts_with("column") {
                    "column"
                } else if problem.starts_with("file name") {
                    "file"
                } else {
                    "message"
                };
                report.violation(
                    &format!("position:{}:{}:{}", what, kind, message_class(base_diag)),
                    &format!("{} [{}]: {} lines inserted before line {} of {} ({}): {}", base.origin, opts.target.name(), k, l0, fname, place, problem),
                    witness(&problem, d),
                );
            }
        },
        Outcome::Ok(_) => report.violation(
            &format!("position:reject->accept:{}", kind),
            &format!("{}: {} lines of trivia inserted before line {} of {} make the rejected program accepted", base.origin, k, l0, fname),
            witness("accepted", "ok"),
        ),
        Outcome::Panic(c) => report.violation(
            &format!("position:panic:{}", c.signature()),
            &format!("{}: {} lines of trivia inserted before line {} of {} make the compiler panic at {}", base.origin, k, l0, fname, c.location),
            witness("panic", &c.message),
        ),
        Outcome::Budget { .. } => report.count("skipped:budget"),
    }
}

/// Generic part: any rejected program with a located diagnostic
fn position_generic(base: &Base, opts: &Opts, diag: &str, rng: &mut Rng, variants: u64, kind: &str, construct: Option<(usize, usize)>, report: &mut Report) {
    let first = parse_located(diag.lines().next().unwrap_or(""));
    for _ in 0..variants {
        // which file and where
        let named = first.as_ref().and_then(|l| base.files.0.iter().position(|f| f.0 == l.file));
        let (cfile, cline) = match construct {
            Some(c) => c,
            None => (named.unwrap_or(0), first.as_ref().map(|l| l.line).unwrap_or(1)),
        };
        let choice = rng.below(20);
        let (fi, place) = if choice < 3 && base.files.0.len() > 1 {
            let mut o = rng.below(base.files.0.len());
            if o == cfile {
                o = (o + 1) % base.files.0.len();
            }
            (o, "other-file")
        } else if choice < 6 {
            (cfile, "after")
        } else {
            (cfile, "before")
        };
        let text = &base.files.0[fi].1;
        let starts = lay::line_starts(text);
        let line_no = |off: usize| 1 + text[..off].bytes().filter(|b| *b == b'\n').count();
        let candidates: Vec<usize> = match place {
            "before" => starts.iter().copied().filter(|o| line_no(*o) <= cline).collect(),
            "after" => starts.iter().copied().filter(|o| line_no(*o) > cline).collect(),
            _ => starts.clone(),
        };
        let (candidates, place) = if candidates.is_empty() { (starts.iter().copied().filter(|o| line_no(*o) <= cline || fi != cfile).collect::<Vec<_>>(), "before") } else { (candidates, place) };
        if candidates.is_empty() {
            report.count("skipped:no-line-start");
            continue;
        }
        let offset = if place == "before" && rng.chance(1, 2) { *candidates.last().unwrap() } else { *rng.pick(&candidates) };
        let nl = if text.contains("\r\n") || rng.chance(1, 8) { "\r\n" } else { "\n" };
        let k = pick_k(rng);
        let lines = lay::k_lines(rng, k, nl);
        shift_variant(base, opts, diag, fi, offset, &lines, kind, place, report);
    }
}

fn position_injected(inj: &Injected, valid: &lay::GenProgram, rng: &mut Rng, variants: u64, report: &mut Report) {
    let tgt = if rng.chance(1, 3) { Tgt::Msl } else { Tgt::Dx };
    let opts = Opts::new(tgt, Mode::NoPipeline);
    // the filler alone must be accepted, so that the injected construct is the only error
    let v = rs::compile(&valid.to_files(), &valid.entry, &opts);
    if !matches!(v, Outcome::Ok(_)) {
        report.count(&format!("skipped:filler-not-accepted:{}", v.class()));
        if report.notes.len() < 5 {
            report.notes.push(format!("generated filler program not accepted: {}", v.brief()));
        }
        return;
    }
    let base = Base {
        files: inj.program.to_files(),
        entry: inj.program.entry.clone(),
        defines: Vec::new(),
        origin: format!("injected:{}", inj.kind),
        configs: vec![(tgt, Mode::NoPipeline)],
        embed: true,
    };
    let out = rs::compile(&base.files, &base.entry, &opts);
    report.evaluations += 1;
    let diag = match &out {
        Outcome::Diag(d) => d.clone(),
        other => {
            report.count(&format!("skipped:injected-{}:{}", other.class(), inj.kind));
            return;
        }
    };
    let e = Expect {
        kind: inj.kind.to_string(),
        acceptable: inj.acceptable.clone(),
        unique: inj.unique.clone(),
        may_be_unlocated: inj.may_be_unlocated,
    };
    check_absolute(&base, &opts, &diag, &e, report);
    let cfile = base.files.0.iter().position(|f| f.0 == inj.construct.0).unwrap_or(0);
    if !inj.program.files[cfile].final_newline {
        report.count("position:construct-file-without-final-newline");
    }
    if inj.program.files[cfile].crlf {
        report.count("position:construct-file-crlf");
    }
    if inj.construct.0 != inj.program.entry {
        report.count("position:construct-in-included-file");
    }
    position_generic(&base, &opts, &diag, rng, variants, inj.kind, Some((cfile, inj.construct.1)), report);
}

// ------------------------------------------------------------------------------------------------
// workload
// ------------------------------------------------------------------------------------------------

enum Case {
    Snippet(usize, bool),
    Corpus(usize, usize),
    Generated(u64),
    Injected(u64),
}

fn to_crlf(s: &str) -> String {
    s.replace("\r\n", "\n").replace('\n', "\r\n")
}

fn run(ctx: &Ctx) -> Report {
    let sets = corpus::load();
    let snippets = corpus::test_snippets();
    let quick = ctx.tier == Tier::Quick;
    let mut cases: Vec<Case> = Vec::new();
    // big macro-heavy corpus entries first: they are the slowest cases
    for (si, s) in sets.iter().enumerate() {
        for ei in 0..s.entries.len() {
            cases.push(Case::Corpus(si, ei));
        }
    }
    let n_gen = ctx.tier.pick(800, 8_000);
    let n_inj = ctx.tier.pick(1000, 10_000);
    // interleave so that a deadline cuts all classes evenly
    let mut s = 0usize;
    let mut g = 0u64;
    let mut j = 0u64;
    while s < snippets.len() || g < n_gen || j < n_inj {
        for _ in 0..3 {
            if s < snippets.len() {
                cases.push(Case::Snippet(s, false));
                if s % 6 == 0 {
                    cases.push(Case::Snippet(s, true));
                }
                s += 1;
            }
        }
        if g < n_gen {
            cases.push(Case::Generated(g));
            g += 1;
        }
        if j < n_inj {
            cases.push(Case::Injected(j));
            j += 1;
        }
        if quick && s >= snippets.len() && g >= n_gen && j >= n_inj {
            break;
        }
    }
    let seed = ctx.seed;
    let tier = ctx.tier;
    let mut report = crate::par::run_cases(ctx, cases.len() as u64, |index, report| {
        let mut rng = Rng::for_case(seed, 0x1401, index);
        match &cases[index as usize] {
            Case::Snippet(i, crlf) => {
                let text = if *crlf { to_crlf(&snippets[*i]) } else { snippets[*i].clone() };
                let mut configs = vec![(Tgt::Dx, Mode::NoPipeline), (Tgt::Msl, Mode::NoPipeline)];
                if tier == Tier::Thorough {
                    configs.push((Tgt::Vk, Mode::NoPipeline));
                }
                let base = Base {
                    files: Files::single("main.rssl", &text),
                    entry: "main.rssl".into(),
                    defines: Vec::new(),
                    origin: format!("unit-test-snippet{}:{}", if *crlf { "-crlf" } else { "" }, i),
                    configs,
                    embed: true,
                };
                let outs = trivia_case(&base, &mut rng, tier.pick(6, 30), report);
                if let Some(Some(Outcome::Diag(d))) = outs.first() {
                    if parse_located(d.lines().next().unwrap_or("")).is_some() {
                        report.count("position:generic-base:snippet");
                        position_generic(&base, &base.opts(0), d, &mut rng, tier.pick(2, 10), "snippet", None, report);
                    } else {
                        report.count(&format!("position:unlocated:snippet:{}", message_class(d)));
                    }
                }
            }
            Case::Corpus(si, ei) => {
                let s = &sets[*si];
                let configs = if s.has_pipelines {
                    vec![(Tgt::Dx, Mode::All), (Tgt::Msl, Mode::All), (Tgt::Dx, Mode::NoPipeline), (Tgt::Vk, Mode::All), (Tgt::VkBa, Mode::All)]
                } else {
                    vec![(Tgt::Dx, Mode::NoPipeline), (Tgt::Msl, Mode::NoPipeline)]
                };
                // only the entry file and what it can reach matters, but the whole set is the include universe
                let base = Base {
                    files: s.files.clone(),
                    entry: s.entries[*ei].clone(),
                    defines: s.defines.clone(),
                    origin: format!("corpus:{}:{}", s.name, s.entries[*ei]),
                    configs,
                    embed: s.files.total_len() <= 64 * 1024,
                };
                let variants = if s.has_pipelines { tier.pick(20, 200) } else { tier.pick(2, 12) };
                trivia_case(&base, &mut rng, variants, report);
            }
            Case::Generated(i) => {
                let mut prng = Rng::for_case(seed, 0x1402, *i);
                let p = ProgGen::generate(&mut prng);
                let base = Base {
                    files: p.to_files(),
                    entry: p.entry.clone(),
                    defines: Vec::new(),
                    origin: format!("generated:{}", i),
                    configs: vec![(Tgt::Dx, Mode::NoPipeline), (Tgt::Msl, Mode::NoPipeline), (Tgt::Vk, Mode::NoPipeline)],
                    embed: true,
                };
                let outs = trivia_case(&base, &mut rng, tier.pick(12, 40), report);
                if let Some(Some(o)) = outs.first() {
                    if matches!(o, Outcome::Ok(_)) {
                        for f in &p.features {
                            report.count(&format!("feature:{}", f));
                        }
                    } else {
                        report.count(&format!("generated-not-accepted:{}", o.class()));
                        if report.notes.len() < 5 {
                            report.notes.push(format!("generated program {} not accepted: {}", i, o.brief()));
                        }
                    }
                }
            }
            Case::Injected(i) => {
                let mut prng = Rng::for_case(seed, 0x1403, *i);
                let kind = lay::ERROR_KINDS[(*i as usize) % lay::ERROR_KINDS.len()];
                let valid = ProgGen::generate(&mut prng.clone());
                let inj = Injected::generate(&mut prng, kind);
                position_injected(&inj, &valid, &mut rng, tier.pick(6, 16), report);
                // rejected programs: the verdict must survive trivia
                let base = Base {
                    files: inj.program.to_files(),
                    entry: inj.program.entry.clone(),
                    defines: Vec::new(),
                    origin: format!("injected:{}:{}", kind, i),
                    configs: vec![(Tgt::Dx, Mode::NoPipeline)],
                    embed: true,
                };
                trivia_case(&base, &mut rng, tier.pick(3, 8), report);
            }
        }
    });
    if snippets.len() < 50 {
        report.inconclusive("could not read the unit-test snippets from /repo");
    }
    if sets.iter().all(|s| s.entries.is_empty()) {
        report.inconclusive("could not read the tests/ corpus from /repo");
    }
    report
}

// ------------------------------------------------------------------------------------------------
// replay
// ------------------------------------------------------------------------------------------------

fn replay(_ctx: &Ctx, witness: &Json) -> Report {
    let mut report = Report::new();
    let origin = witness.get_str("origin").unwrap_or("replay").to_string();
    let entry = witness.get_str("entry").unwrap_or("main.rssl").to_string();
    let opts = witness.get("opts").map(Opts::from_json).unwrap_or_else(|| Opts::new(Tgt::Dx, Mode::NoPipeline));
    let files = match witness.get("files") {
        Some(f) => Files::from_json(f),
        None => {
            let set = origin.split(':').nth(1).unwrap_or("");
            match corpus::load().into_iter().find(|s| s.name == set) {
                Some(s) => s.files,
                None => {
                    report.inconclusive("witness has no files and names no corpus set");
                    return report;
                }
            }
        }
    };
    let base = Base {
        files,
        entry,
        defines: opts.defines.clone(),
        origin,
        configs: vec![(opts.target, opts.mode.clone())],
        embed: true,
    };
    let mut ins: Vec<Ins> = Vec::new();
    if let Some(list) = witness.get("insertions").and_then(|i| i.as_arr()) {
        for i in list {
            let name = i.get_str("file").unwrap_or("");
            let Some(fi) = base.files.0.iter().position(|f| f.0 == name) else {
                report.inconclusive("witness insertion names an unknown file");
                return report;
            };
            ins.push(Ins {
                file: fi,
                offset: i.get("offset").and_then(|o| o.as_i64()).unwrap_or(0) as usize,
                text: i.get_str("text").unwrap_or("").to_string(),
                label: i.get_str("kind").unwrap_or("replayed").to_string(),
                ctx: String::new(),
            });
        }
    }
    let base_out = rs::compile(&base.files, &base.entry, &opts);
    report.evaluations += 1;
    match witness.get_str("monitor").unwrap_or("trivia") {
        "trivia" => {
            // the insertions must be legal under the rules of the property itself (generator avoidances switched off)
            let macros = base.macros();
            for i in ins.iter_mut() {
                let pts = lay::points(&base.files.0[i.file].1, &macros, false);
                let Some(p) = pts.iter().find(|p| p.offset == i.offset && fits(&i.text, p.allow)) else {
                    report.inconclusive("witness insertion is not layout trivia at a place the property allows");
                    return report;
                };
                i.ctx = format!("{}:{}|{}", p.directive.as_ref().map(|d| format!("#{}", d)).unwrap_or_else(|| "code".into()), p.prev_class, p.next_class);
            }
            if ins.is_empty() {
                report.inconclusive("witness has no insertions");
                return report;
            }
            judge_variant(&base, &opts, &base_out, ins, &mut report);
        }
        _ => {
            let Outcome::Diag(diag) = &base_out else {
                report.count("replay:base-not-rejected");
                return report;
            };
            let kind = witness.get_str("kind").or_else(|| witness.get("expect").and_then(|e| e.get_str("kind"))).unwrap_or("snippet").to_string();
            if let Some(e) = witness.get("expect") {
                check_absolute(&base, &opts, diag, &Expect::from_json(e), &mut report);
            }
            for i in &ins {
                // whole lines at a logical line start
                let text = &base.files.0[i.file].1;
                if !lay::line_starts(text).contains(&i.offset) || !fits(&i.text, lay::A_LINES_THEN_SPACE) || !(i.text.is_empty() || i.text.ends_with('\n')) {
                    report.inconclusive("witness insertion is not whole lines of trivia at a line start");
                    return report;
                }
                shift_variant(&base, &opts, diag, i.file, i.offset, &i.text, &kind, "replay", &mut report);
            }
        }
    }
    report
}
