pub mod c08;

use crate::CheckDef;

pub fn all() -> Vec<CheckDef> {
    vec![c08::def()]
}
