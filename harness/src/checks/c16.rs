//! C16 - not built yet
