//! C16 - overload resolution is order independent and prefers exact matches.
//!
//! Reference-model monitor. A case is a set of 2-5 overloads `R_i f(P1[, P2[, P3]])` (every overload
//! returns its own struct type, so the selected overload is observable) plus one argument tuple. For
//! each permutation of the declaration order the program is type checked by the real typer and the
//! selected `FunctionId` is read out of the `ir::Expression::Call` in `test()`'s body and mapped back
//! to the candidate (return struct name, cross-checked against the parameter types of the signature
//! and the source location order). `assert_type<R_k>(f(args))` is a second, independent observation.
//!
//! Monitors (all from the property text):
//!   1. order independence: same outcome (selected candidate | ambiguous | no match) for every
//!      permutation of the declarations;
//!   2. exact match: if exactly one candidate has parameter types equal to the argument types it is
//!      selected;
//!   3. non-domination: the selected candidate is not dominated by another viable candidate under the
//!      rank table below.
//!
//! Where the oracle's knowledge comes from
//!   * VIABILITY (which implicit conversions exist at all) was taken from reading
//!     typer/src/casting.rs `ImplicitConversion::find`, as allowed: scalar -> scalar of any numeric
//!     type; scalar -> vector (splat); vector N -> vector M < N and vector -> scalar (truncation) are
//!     implicit; vector N -> vector M > N does not exist; an `out` parameter takes only an lvalue of
//!     exactly the parameter type (no conversion, no rvalue, no literal).
//!   * RANKS were NOT taken from the implementation. They are written from the documented priority
//!     table (the "Overload priority" comment block that documents the language rule, DESIGN.md C16,
//!     and the cases spelled out in typer/tests/type_check_tests.rs):
//!       exact < promotion < (half -> double, the second promotion step) < int -> bool < conversion
//!       bool:   bool | everything else
//!       int:    int | uint | bool | half float double          (uint symmetrically)
//!       `1`:    int uint | bool | half float double
//!       half:   half | float | double | bool int uint
//!       float:  float | double | bool int uint half
//!       double: double | everything else
//!       `1.0`:  half float double | bool int uint               (from the tests: "equally float and double")
//!     and for the shape: exact < expand (scalar splat) < truncate. rssl documents these as a deviation
//!     from DXC/C++ (it follows FXC); the harness README says to follow rssl where it documents one.
//!     Ranks are only ever compared between two conversions of the SAME argument, and a conversion is
//!     "not worse" only when it is not worse in BOTH the numeric and the shape component (product
//!     order): how a numeric difference trades against a shape difference is not documented, so
//!     such pairs are incomparable and raise no alarm.

use crate::json::Json;
use crate::report::{Ctx, Report, Tier};
use crate::rng::{hash_str, Rng};
use crate::rs::{self, Front};
use crate::CheckDef;
use rssl::ir;

pub fn def() -> CheckDef {
    CheckDef {
        id: "C16",
        salt: 0xC16,
        rule: "a case = a set of 2-5 overloads of f with 1-3 parameters over {bool,int,uint,half,float,double} x {scalar,2,3,4} x {in,out} \
               (pairwise different signatures, each returning its own struct) + one argument tuple of lvalues / cast rvalues / typed literals / \
               untyped literals `1` `1.0`; candidates are mostly derived from the argument types by perturbing scalar type, dimension and in/out so \
               that several are viable; every case is type checked under all permutations of the declaration order (thorough) or all <= 6 / 6 \
               random ones (quick), plus assert_type programs. evaluations = type_check executions observed; distinct_nontrivial = distinct \
               (candidate set, argument tuple) pairs (content hash, order of declaration ignored) for which the reference model finds at least \
               two viable candidates, i.e. resolution really has to choose",
        assumptions: &[
            "which implicit conversions exist (viability) is taken from typer/src/casting.rs; the rank order is the documented priority table, not the implementation",
            "the selected overload is identified by the return struct type of the FunctionId in the IR call (cross-checked with its parameter types, its source location and assert_type)",
            "ambiguous / no-match rejections are told apart by the rendered diagnostic text",
        ],
        min_distinct: (8_000, 20_000),
        deadline_s: (50.0, 540.0),
        run,
        replay,
    }
}

// ------------------------------------------------------------------------------------------------
// Types, parameters, arguments
// ------------------------------------------------------------------------------------------------

#[derive(Clone, Copy, PartialEq, Eq, Debug, PartialOrd, Ord)]
enum Sc {
    Bool,
    Int,
    Uint,
    Half,
    Float,
    Double,
}

const SCALARS: [Sc; 6] = [Sc::Bool, Sc::Int, Sc::Uint, Sc::Half, Sc::Float, Sc::Double];

impl Sc {
    fn name(self) -> &'static str {
        match self {
            Sc::Bool => "bool",
            Sc::Int => "int",
            Sc::Uint => "uint",
            Sc::Half => "half",
            Sc::Float => "float",
            Sc::Double => "double",
        }
    }
    fn from_name(s: &str) -> Option<Sc> {
        SCALARS.iter().copied().find(|c| c.name() == s)
    }
}

/// dim 1 = scalar, 2..4 = vector
#[derive(Clone, Copy, PartialEq, Eq, Debug, PartialOrd, Ord)]
struct Ty {
    sc: Sc,
    dim: u8,
}

impl Ty {
    fn name(&self) -> String {
        if self.dim == 1 {
            self.sc.name().to_string()
        } else {
            format!("{}{}", self.sc.name(), self.dim)
        }
    }
    fn parse(s: &str) -> Option<Ty> {
        let (base, dim) = match s.chars().last() {
            Some(c @ '2'..='4') => (&s[..s.len() - 1], c as u8 - b'0'),
            _ => (s, 1),
        };
        Some(Ty { sc: Sc::from_name(base)?, dim })
    }
}

#[derive(Clone, Copy, PartialEq, Eq, Debug, PartialOrd, Ord)]
struct Param {
    ty: Ty,
    out: bool,
}

impl Param {
    fn text(&self) -> String {
        if self.out {
            format!("out {}", self.ty.name())
        } else {
            self.ty.name()
        }
    }
    fn parse(s: &str) -> Option<Param> {
        match s.strip_prefix("out ") {
            Some(rest) => Some(Param { ty: Ty::parse(rest)?, out: true }),
            None => Some(Param { ty: Ty::parse(s)?, out: false }),
        }
    }
}

#[derive(Clone, Copy, PartialEq, Eq, Debug)]
enum Arg {
    /// a local variable of the type
    Lvalue(Ty),
    /// rvalue `(T)0`
    Cast(Ty),
    /// rvalue typed literal `true` `1u` `1.0h` `1.0f` `1.0L`
    TypedLit(Sc),
    /// untyped `1`
    LitInt,
    /// untyped `1.0`
    LitFloat,
}

/// What a conversion starts from, as far as the rank table is concerned
#[derive(Clone, Copy, PartialEq, Eq, Debug)]
enum Src {
    Typed(Sc),
    LitInt,
    LitFloat,
}

impl Arg {
    fn ty(&self) -> Option<Ty> {
        match *self {
            Arg::Lvalue(t) | Arg::Cast(t) => Some(t),
            Arg::TypedLit(sc) => Some(Ty { sc, dim: 1 }),
            Arg::LitInt | Arg::LitFloat => None,
        }
    }
    fn dim(&self) -> u8 {
        self.ty().map(|t| t.dim).unwrap_or(1)
    }
    fn src(&self) -> Src {
        match *self {
            Arg::LitInt => Src::LitInt,
            Arg::LitFloat => Src::LitFloat,
            _ => Src::Typed(self.ty().unwrap().sc),
        }
    }
    fn is_lvalue(&self) -> bool {
        matches!(self, Arg::Lvalue(_))
    }
    fn decl(&self, i: usize) -> Option<String> {
        match self {
            Arg::Lvalue(t) => Some(format!("    {} a{} = ({})0;\n", t.name(), i, t.name())),
            _ => None,
        }
    }
    fn expr(&self, i: usize) -> String {
        match *self {
            Arg::Lvalue(_) => format!("a{}", i),
            Arg::Cast(t) => format!("({})0", t.name()),
            Arg::TypedLit(sc) => typed_literal(sc).unwrap_or("true").to_string(),
            Arg::LitInt => "1".to_string(),
            Arg::LitFloat => "1.0".to_string(),
        }
    }
    fn code(&self) -> String {
        match *self {
            Arg::Lvalue(t) => format!("lv:{}", t.name()),
            Arg::Cast(t) => format!("rv:{}", t.name()),
            Arg::TypedLit(sc) => format!("tl:{}", sc.name()),
            Arg::LitInt => "lit:1".to_string(),
            Arg::LitFloat => "lit:1.0".to_string(),
        }
    }
    fn parse(s: &str) -> Option<Arg> {
        if let Some(t) = s.strip_prefix("lv:") {
            Some(Arg::Lvalue(Ty::parse(t)?))
        } else if let Some(t) = s.strip_prefix("rv:") {
            Some(Arg::Cast(Ty::parse(t)?))
        } else if let Some(t) = s.strip_prefix("tl:") {
            let sc = Sc::from_name(t)?;
            typed_literal(sc)?;
            Some(Arg::TypedLit(sc))
        } else if s == "lit:1" {
            Some(Arg::LitInt)
        } else if s == "lit:1.0" {
            Some(Arg::LitFloat)
        } else {
            None
        }
    }
    fn kind(&self) -> &'static str {
        match self {
            Arg::Lvalue(_) => "lvalue",
            Arg::Cast(_) => "cast-rvalue",
            Arg::TypedLit(_) => "typed-literal",
            Arg::LitInt => "untyped-int-literal",
            Arg::LitFloat => "untyped-float-literal",
        }
    }
}

/// Typed literal spelling per scalar type (int has none: `1` is the untyped literal)
fn typed_literal(sc: Sc) -> Option<&'static str> {
    match sc {
        Sc::Bool => Some("true"),
        Sc::Int => None,
        Sc::Uint => Some("1u"),
        Sc::Half => Some("1.0h"),
        Sc::Float => Some("1.0f"),
        Sc::Double => Some("1.0L"),
    }
}

#[derive(Clone, Debug, PartialEq)]
struct Case {
    /// candidate k returns struct `R{k}`; the identity of a candidate is its index here, whatever the declaration order
    cands: Vec<Vec<Param>>,
    args: Vec<Arg>,
}

impl Case {
    fn sig_text(&self, k: usize) -> String {
        let ps: Vec<String> = self.cands[k].iter().map(|p| p.text()).collect();
        format!("R{} f({})", k, ps.join(", "))
    }
    fn args_text(&self) -> String {
        let a: Vec<String> = self.args.iter().map(|a| a.code()).collect();
        a.join(", ")
    }
    fn to_json(&self) -> Json {
        Json::obj()
            .set(
                "candidates",
                Json::Arr(self.cands.iter().map(|c| Json::Arr(c.iter().map(|p| Json::str(p.text())).collect())).collect()),
            )
            .set("args", Json::Arr(self.args.iter().map(|a| Json::str(a.code())).collect()))
    }
    fn from_json(j: &Json) -> Option<Case> {
        let mut cands = Vec::new();
        for c in j.get("candidates")?.as_arr()? {
            let mut ps = Vec::new();
            for p in c.as_arr()? {
                ps.push(Param::parse(p.as_str()?)?);
            }
            cands.push(ps);
        }
        let mut args = Vec::new();
        for a in j.get("args")?.as_arr()? {
            args.push(Arg::parse(a.as_str()?)?);
        }
        if cands.is_empty() || cands.len() > 6 {
            return None;
        }
        Some(Case { cands, args })
    }
    /// Content hash which ignores the declaration order
    fn content_hash(&self) -> u64 {
        let mut sigs: Vec<String> = self.cands.iter().map(|c| c.iter().map(|p| p.text()).collect::<Vec<_>>().join(",")).collect();
        sigs.sort();
        hash_str(&format!("{}|{}", sigs.join(";"), self.args_text()))
    }
}

/// A quarter of the cases (chosen by their content) declare the candidates as methods of one struct, with unrelated methods
/// between them, and call through an object: the overload set of a method name is every method of that name, wherever declared
fn method_mode(case: &Case) -> bool {
    (case.content_hash() >> 33) & 3 == 0
}

/// Candidates in the order of their first declaration in the rendered program (prototypes come first)
fn declaration_order(case: &Case, perm: &[usize]) -> Vec<usize> {
    if method_mode(case) {
        return perm.to_vec();
    }
    let h = case.content_hash();
    let mut order: Vec<usize> = perm.iter().copied().filter(|k| (h >> (2 * k)) & 3 == 0).collect();
    for &k in perm {
        if !order.contains(&k) {
            order.push(k);
        }
    }
    order
}

/// The program for one declaration order. `assert_ret = Some(k)` wraps the call in `assert_type<R{k}>`.
fn render(case: &Case, perm: &[usize], assert_ret: Option<usize>) -> String {
    let mut s = String::new();
    for k in 0..case.cands.len() {
        s.push_str(&format!("struct R{} {{ int v; }};\n", k));
    }
    // some candidates are declared ahead of their definition (a quarter of them, chosen by the content of the case so that every
    // declaration order of one case shows the same set); the prototype may carry a default value for its last parameter that the
    // definition does not repeat. Prototype and definition are one candidate: nothing observable may change.
    let h = case.content_hash();
    if method_mode(case) {
        s.push_str("struct Host\n{\n    int pad;\n");
        for (pos, &k) in perm.iter().enumerate() {
            let params: Vec<String> = case.cands[k].iter().enumerate().map(|(i, p)| format!("{} p{}", p.text(), i)).collect();
            s.push_str(&format!("    R{} f({}) {{ ", k, params.join(", ")));
            for (i, p) in case.cands[k].iter().enumerate() {
                if p.out {
                    s.push_str(&format!("p{} = ({})0; ", i, p.ty.name()));
                }
            }
            s.push_str(&format!("R{} r; r.v = {}; return r; }}\n", k, k));
            if (h >> (40 + pos)) & 1 == 0 {
                s.push_str(&format!("    int other{}() {{ return pad + {}; }}\n", pos, pos));
            }
        }
        s.push_str("};\nvoid test() {\n");
        for (i, a) in case.args.iter().enumerate() {
            if let Some(d) = a.decl(i) {
                s.push_str(&d);
            }
        }
        s.push_str("    Host h;\n    h.pad = 0;\n");
        let args: Vec<String> = case.args.iter().enumerate().map(|(i, a)| a.expr(i)).collect();
        match assert_ret {
            Some(k) => s.push_str(&format!("    assert_type<R{}>(h.f({}));\n", k, args.join(", "))),
            None => s.push_str(&format!("    h.f({});\n", args.join(", "))),
        }
        s.push_str("}\n");
        return s;
    }
    for &k in perm {
        if (h >> (2 * k)) & 3 != 0 {
            continue;
        }
        let n = case.cands[k].len();
        let params: Vec<String> = case.cands[k]
            .iter()
            .enumerate()
            .map(|(i, p)| {
                // (never where the default would make the candidate callable with the arguments of this case)
                let default = if i + 1 == n && !p.out && (h >> 20) & 1 == 0 && case.args.len() + 1 != n { format!(" = ({})1", p.ty.name()) } else { String::new() };
                format!("{} p{}{}", p.text(), i, default)
            })
            .collect();
        s.push_str(&format!("R{} f({});\n", k, params.join(", ")));
    }
    for &k in perm {
        let params: Vec<String> = case.cands[k].iter().enumerate().map(|(i, p)| format!("{} p{}", p.text(), i)).collect();
        s.push_str(&format!("R{} f({}) {{ ", k, params.join(", ")));
        for (i, p) in case.cands[k].iter().enumerate() {
            if p.out {
                s.push_str(&format!("p{} = ({})0; ", i, p.ty.name()));
            }
        }
        s.push_str(&format!("R{} r; r.v = {}; return r; }}\n", k, k));
    }
    s.push_str("void test() {\n");
    for (i, a) in case.args.iter().enumerate() {
        if let Some(d) = a.decl(i) {
            s.push_str(&d);
        }
    }
    let args: Vec<String> = case.args.iter().enumerate().map(|(i, a)| a.expr(i)).collect();
    match assert_ret {
        Some(k) => s.push_str(&format!("    assert_type<R{}>(f({}));\n", k, args.join(", "))),
        None => s.push_str(&format!("    f({});\n", args.join(", "))),
    }
    s.push_str("}\n");
    s
}

// ------------------------------------------------------------------------------------------------
// Reference model: viability and the rank table (see the module comment for the sources)
// ------------------------------------------------------------------------------------------------

#[derive(Clone, Copy, PartialEq, Eq, PartialOrd, Ord, Debug)]
enum Shape {
    Exact,
    Expand,
    Truncate,
}

#[derive(Clone, Copy, PartialEq, Eq, Debug)]
struct Conv {
    /// 0 exact, 1 promotion, 2 second promotion step (half->double), 3 int->bool, 4 conversion
    level: u8,
    shape: Shape,
}

impl Conv {
    fn level_name(&self) -> &'static str {
        match self.level {
            0 => "exact",
            1 => "promotion",
            2 => "promotion2",
            3 => "int-to-bool",
            _ => "conversion",
        }
    }
    fn shape_name(&self) -> &'static str {
        match self.shape {
            Shape::Exact => "same-dim",
            Shape::Expand => "expand",
            Shape::Truncate => "truncate",
        }
    }
    fn text(&self) -> String {
        format!("{}/{}", self.level_name(), self.shape_name())
    }
    /// self is not worse than other in both components
    fn not_worse(&self, other: &Conv) -> bool {
        self.level <= other.level && self.shape <= other.shape
    }
    fn better(&self, other: &Conv) -> bool {
        self.not_worse(other) && (self.level < other.level || self.shape < other.shape)
    }
    /// The compiler's own order of conversions: the numeric rank decides, the shape only between conversions of equal rank
    fn lex_not_worse(&self, other: &Conv) -> bool {
        self.level < other.level || (self.level == other.level && self.shape <= other.shape)
    }
    fn lex_better(&self, other: &Conv) -> bool {
        self.level < other.level || (self.level == other.level && self.shape < other.shape)
    }
}

fn numeric_level(src: Src, dst: Sc) -> u8 {
    use Sc::*;
    match src {
        Src::Typed(s) if s == dst => 0,
        Src::Typed(Bool) => 4,
        Src::Typed(Int) => match dst {
            Uint => 1,
            Bool => 3,
            _ => 4,
        },
        Src::Typed(Uint) => match dst {
            Int => 1,
            Bool => 3,
            _ => 4,
        },
        Src::LitInt => match dst {
            Int | Uint => 1,
            Bool => 3,
            _ => 4,
        },
        Src::Typed(Half) => match dst {
            Float => 1,
            Double => 2,
            _ => 4,
        },
        Src::Typed(Float) => match dst {
            Double => 1,
            _ => 4,
        },
        Src::Typed(Double) => 4,
        Src::LitFloat => match dst {
            Half | Float | Double => 1,
            _ => 4,
        },
    }
}

/// The implicit conversion of an argument to a parameter, None when there is none
fn convert(arg: &Arg, p: &Param) -> Option<Conv> {
    if p.out {
        // an out parameter binds only an lvalue of exactly its type
        return match arg {
            Arg::Lvalue(t) if *t == p.ty => Some(Conv { level: 0, shape: Shape::Exact }),
            _ => None,
        };
    }
    let adim = arg.dim();
    let shape = if adim == p.ty.dim {
        Shape::Exact
    } else if adim == 1 {
        Shape::Expand
    } else if adim > p.ty.dim {
        Shape::Truncate
    } else {
        return None;
    };
    Some(Conv { level: numeric_level(arg.src(), p.ty.sc), shape })
}

fn conversions(case: &Case, k: usize) -> Option<Vec<Conv>> {
    let c = &case.cands[k];
    if c.len() != case.args.len() {
        return None;
    }
    c.iter().zip(&case.args).map(|(p, a)| convert(a, p)).collect()
}

/// Parameter types equal the argument types exactly (typed arguments only; out needs an lvalue)
fn is_exact(case: &Case, k: usize) -> bool {
    let c = &case.cands[k];
    c.len() == case.args.len()
        && c.iter().zip(&case.args).all(|(p, a)| match a.ty() {
            Some(t) => t == p.ty && (!p.out || a.is_lvalue()),
            None => false,
        })
}

// ------------------------------------------------------------------------------------------------
// Observation of the real typer
// ------------------------------------------------------------------------------------------------

#[derive(Clone, Debug, PartialEq)]
enum Outcome {
    Chosen(usize),
    Ambiguous,
    NoMatch,
    /// rejected with another diagnostic (message without the location)
    Other(String),
    Panic(String),
    /// the harness could not identify the callee
    Broken(String),
}

impl Outcome {
    fn kind(&self) -> &'static str {
        match self {
            Outcome::Chosen(_) => "chosen",
            Outcome::Ambiguous => "ambiguous",
            Outcome::NoMatch => "no-match",
            Outcome::Other(_) => "other-diagnostic",
            Outcome::Panic(_) => "panic",
            Outcome::Broken(_) => "unidentified",
        }
    }
    fn text(&self, case: &Case) -> String {
        match self {
            Outcome::Chosen(k) => format!("selected {}", case.sig_text(*k)),
            Outcome::Ambiguous => "rejected: ambiguous call".into(),
            Outcome::NoMatch => "rejected: no matching function".into(),
            Outcome::Other(m) => format!("rejected: {}", m),
            Outcome::Panic(m) => format!("panic: {}", m),
            Outcome::Broken(m) => format!("callee not identified: {}", m),
        }
    }
}

fn first_error_message(diag: &str) -> String {
    for line in diag.lines() {
        if let Some(pos) = line.find("error: ") {
            return line[pos + 7..].trim().to_string();
        }
    }
    diag.lines().next().unwrap_or("").to_string()
}

fn find_call(e: &ir::Expression, module: &ir::Module) -> Option<ir::FunctionId> {
    match e {
        ir::Expression::Call(id, _, args) => {
            if module.function_registry.get_function_name(*id) == "f" {
                Some(*id)
            } else {
                args.iter().find_map(|a| find_call(a, module))
            }
        }
        ir::Expression::Cast(_, inner) => find_call(inner, module),
        ir::Expression::Sequence(list) => list.iter().find_map(|a| find_call(a, module)),
        _ => None,
    }
}

fn decode_type(module: &ir::Module, id: ir::TypeId) -> Option<Ty> {
    let id = module.type_registry.remove_modifier(id);
    let sc_of = |l: ir::TypeLayer| match l {
        ir::TypeLayer::Scalar(s) => match s {
            ir::ScalarType::Bool => Some(Sc::Bool),
            ir::ScalarType::Int32 => Some(Sc::Int),
            ir::ScalarType::UInt32 => Some(Sc::Uint),
            ir::ScalarType::Float16 => Some(Sc::Half),
            ir::ScalarType::Float32 => Some(Sc::Float),
            ir::ScalarType::Float64 => Some(Sc::Double),
            _ => None,
        },
        _ => None,
    };
    match module.type_registry.get_type_layer(id) {
        ir::TypeLayer::Vector(inner, n) if (2..=4).contains(&n) => {
            let inner = module.type_registry.remove_modifier(inner);
            Some(Ty { sc: sc_of(module.type_registry.get_type_layer(inner))?, dim: n as u8 })
        }
        l => Some(Ty { sc: sc_of(l)?, dim: 1 }),
    }
}

/// Map the FunctionId of the call in test() back to a candidate of the case
fn identify(module: &ir::Module, case: &Case, perm: &[usize]) -> Outcome {
    let reg = &module.function_registry;
    let mut test_id = None;
    let mut f_ids = Vec::new();
    for id in reg.iter() {
        if reg.get_intrinsic_data(id).is_some() {
            continue;
        }
        match reg.get_function_name(id) {
            "test" => test_id = Some(id),
            "f" => f_ids.push(id),
            _ => {}
        }
    }
    let Some(test_id) = test_id else { return Outcome::Broken("no function test in the IR".into()) };
    let Some(imp) = reg.get_function_implementation(test_id) else { return Outcome::Broken("test has no body".into()) };
    let mut callee = None;
    for st in &imp.scope_block.0 {
        if let ir::StatementKind::Expression(e) = &st.kind {
            if let Some(id) = find_call(e, module) {
                if callee.is_some() {
                    return Outcome::Broken("more than one call to f in test".into());
                }
                callee = Some(id);
            }
        }
    }
    let Some(id) = callee else { return Outcome::Broken("no call to f in test".into()) };
    // (a) by the return type: every candidate returns its own struct
    let sig = reg.get_function_signature(id);
    let ret = module.type_registry.remove_modifier(sig.return_type.return_type);
    let k = match module.type_registry.get_type_layer(ret) {
        ir::TypeLayer::Struct(sid) => {
            let name = &module.struct_registry[sid.0 as usize].name.node;
            match name.strip_prefix('R').and_then(|n| n.parse::<usize>().ok()) {
                Some(k) if k < case.cands.len() => k,
                _ => return Outcome::Broken(format!("callee returns struct {}", name)),
            }
        }
        other => return Outcome::Broken(format!("callee returns {:?}", other)),
    };
    // (b) by the signature: parameter types of the callee are those of candidate k
    let mut params = Vec::new();
    for p in &sig.param_types {
        let Some(ty) = decode_type(module, p.type_id) else { return Outcome::Broken("callee has a parameter type outside the generated space".into()) };
        let out = match p.input_modifier {
            ir::InputModifier::In => false,
            ir::InputModifier::Out => true,
            ir::InputModifier::InOut => return Outcome::Broken("callee has an inout parameter".into()),
        };
        params.push(Param { ty, out });
    }
    if params != case.cands[k] {
        return Outcome::Broken(format!("callee returning R{} has parameters {:?}", k, params.iter().map(|p| p.text()).collect::<Vec<_>>()));
    }
    // (c) by the location: the callee is the position(k)-th declaration of f in source order
    if f_ids.len() != case.cands.len() {
        return Outcome::Broken(format!("{} functions named f in the IR for {} candidates", f_ids.len(), case.cands.len()));
    }
    let mut locs: Vec<u32> = f_ids.iter().map(|i| reg.get_function_location(*i).get_raw()).collect();
    locs.sort();
    let my = reg.get_function_location(id).get_raw();
    let pos = locs.iter().position(|l| *l == my);
    if pos != declaration_order(case, perm).iter().position(|c| *c == k) {
        return Outcome::Broken(format!("callee returning R{} is declaration #{:?} in source order", k, pos));
    }
    Outcome::Chosen(k)
}

fn observe(text: &str, case: &Case, perm: &[usize], report: &mut Report) -> Outcome {
    report.evaluations += 1;
    match rs::typecheck_text(text) {
        Front::Ok(module) => identify(&module, case, perm),
        Front::Diag(d) => {
            let m = first_error_message(&d);
            if m.starts_with("ambiguous call to f(") {
                Outcome::Ambiguous
            } else if m.starts_with("no matching function for call to f(") {
                Outcome::NoMatch
            } else {
                Outcome::Other(m)
            }
        }
        Front::Panic(c) => Outcome::Panic(c.signature()),
    }
}

// ------------------------------------------------------------------------------------------------
// Permutations
// ------------------------------------------------------------------------------------------------

fn all_permutations(n: usize) -> Vec<Vec<usize>> {
    fn rec(cur: &mut Vec<usize>, used: &mut Vec<bool>, n: usize, out: &mut Vec<Vec<usize>>) {
        if cur.len() == n {
            out.push(cur.clone());
            return;
        }
        for i in 0..n {
            if !used[i] {
                used[i] = true;
                cur.push(i);
                rec(cur, used, n, out);
                cur.pop();
                used[i] = false;
            }
        }
    }
    let mut out = Vec::new();
    rec(&mut Vec::new(), &mut vec![false; n], n, &mut out);
    out
}

/// All permutations when `all` or there are at most 6; otherwise identity, reverse and 4 random ones
fn permutations_for(n: usize, all: bool, rng: &mut Rng) -> Vec<Vec<usize>> {
    let count: usize = (1..=n).product();
    if all || count <= 6 {
        return all_permutations(n);
    }
    let mut out: Vec<Vec<usize>> = vec![(0..n).collect(), (0..n).rev().collect()];
    let mut tries = 0;
    while out.len() < 6 && tries < 100 {
        tries += 1;
        let mut p: Vec<usize> = (0..n).collect();
        rng.shuffle(&mut p);
        if !out.contains(&p) {
            out.push(p);
        }
    }
    out
}

// ------------------------------------------------------------------------------------------------
// The monitors
// ------------------------------------------------------------------------------------------------

fn perm_text(p: &[usize]) -> String {
    let v: Vec<String> = p.iter().map(|k| format!("R{}", k)).collect();
    v.join(",")
}

fn examine(case: &Case, perms: &[Vec<usize>], second_observation: bool, report: &mut Report) {
    let n = case.cands.len();
    let convs: Vec<Option<Vec<Conv>>> = (0..n).map(|k| conversions(case, k)).collect();
    let viable: Vec<usize> = (0..n).filter(|k| convs[*k].is_some()).collect();
    let exact: Vec<usize> = (0..n).filter(|k| is_exact(case, *k)).collect();

    let mut outcomes: Vec<Outcome> = Vec::with_capacity(perms.len());
    for p in perms {
        outcomes.push(observe(&render(case, p, None), case, p, report));
    }
    let witness = |extra: Json| -> Json {
        let mut per = Vec::new();
        for (p, o) in perms.iter().zip(&outcomes) {
            per.push(Json::obj().set("declaration_order", perm_text(p)).set("outcome", o.text(case)));
        }
        let mut w = case.to_json();
        w.put("signatures", Json::Arr((0..n).map(|k| Json::str(case.sig_text(k))).collect()));
        w.put("model_viable", Json::Arr(viable.iter().map(|k| Json::str(format!("R{}", k))).collect()));
        w.put("model_exact", Json::Arr(exact.iter().map(|k| Json::str(format!("R{}", k))).collect()));
        w.put("observed", Json::Arr(per));
        w.put("program_first_order", render(case, &perms[0], None));
        if let Json::Obj(items) = extra {
            for (k, v) in items {
                w.put(&k, v);
            }
        }
        w
    };

    // panics are C08's business; an unidentified callee is a harness problem
    if let Some(Outcome::Panic(m)) = outcomes.iter().find(|o| matches!(o, Outcome::Panic(_))) {
        report.count(&format!("skipped:panic:{}", m));
        return;
    }
    if let Some(Outcome::Broken(m)) = outcomes.iter().find(|o| matches!(o, Outcome::Broken(_))) {
        report.inconclusive(&format!("could not identify the selected overload: {} (case {} ; args {})", m, case.to_json().to_string_compact(), case.args_text()));
        return;
    }

    // the viability model is the trusted base of monitor 3: check it against what the typer does
    // (a disagreement is a problem of the model, not a violation of C16)
    for o in &outcomes {
        let model_ok = match o {
            Outcome::Chosen(k) => convs[*k].is_some(),
            Outcome::Ambiguous => viable.len() >= 2,
            Outcome::NoMatch | Outcome::Other(_) => true,
            _ => true,
        };
        if !model_ok {
            report.inconclusive(&format!(
                "the viability model (taken from casting.rs) no longer matches the typer: f({}) gives [{}] but the model finds {} viable candidates; case {}",
                case.args_text(),
                o.text(case),
                viable.len(),
                case.to_json().to_string_compact()
            ));
            break;
        }
    }
    if viable.is_empty() {
        report.count(&format!("model-says-no-viable-candidate:typer-{}", outcomes[0].kind()));
    }

    // ---- monitor 1: order independence ------------------------------------------------------
    let first = &outcomes[0];
    if let Some(i) = outcomes.iter().position(|o| o != first) {
        let sig = format!("order-dependence:{}-vs-{}", first.kind(), outcomes[i].kind());
        let summary = format!(
            "call f({}) gives [{}] when the candidates are declared in the order {} but [{}] in the order {}",
            case.args_text(),
            first.text(case),
            perm_text(&perms[0]),
            outcomes[i].text(case),
            perm_text(&perms[i])
        );
        report.violation(&sig, &summary, witness(Json::obj().set("program_other_order", render(case, &perms[i], None))));
        report.count("monitor-fired:order-dependence");
    }
    report.count_n("monitor:order-independence-comparisons", perms.len() as u64 - 1);

    // ---- monitor 2: a unique exact match is selected ----------------------------------------
    match exact.len() {
        0 => report.count("exact:none"),
        1 => {
            report.count("exact:unique");
            let e = exact[0];
            if let Some(i) = outcomes.iter().position(|o| *o != Outcome::Chosen(e)) {
                let sig = format!("exact-match-not-selected:{}", outcomes[i].kind());
                let summary = format!(
                    "call f({}): candidate {} matches the argument types exactly but the outcome is [{}] (declaration order {})",
                    case.args_text(),
                    case.sig_text(e),
                    outcomes[i].text(case),
                    perm_text(&perms[i])
                );
                report.violation(&sig, &summary, witness(Json::obj().set("program_failing_order", render(case, &perms[i], None))));
                report.count("monitor-fired:exact-match");
            }
        }
        _ => report.count("exact:several(in/out twins, no claim)"),
    }

    // ---- monitor 3: the selected candidate is not dominated by a viable one -----------------
    let mut reported = Vec::new();
    for (i, o) in outcomes.iter().enumerate() {
        let Outcome::Chosen(k) = *o else { continue };
        if reported.contains(&k) {
            continue;
        }
        reported.push(k);
        let Some(ck) = &convs[k] else { continue };
        for c in ck {
            report.count(&format!("selected-conversion:{}", c.text()));
        }
        for &j in &viable {
            if j == k {
                continue;
            }
            let cj = convs[j].as_ref().unwrap();
            report.count("monitor:domination-pairs-compared");
            let no_worse = cj.iter().zip(ck).all(|(a, b)| a.not_worse(b));
            let better_at = cj.iter().zip(ck).position(|(a, b)| a.better(b));
            // the same claim under the order in which a numerically better conversion is better whatever its shape (int -> int2 over
            // int -> float): reported only where the component-wise comparison above is silent
            if !(no_worse && better_at.is_some()) && cj.iter().zip(ck).all(|(a, b)| a.lex_not_worse(b)) {
                if let Some(at) = cj.iter().zip(ck).position(|(a, b)| a.lex_better(b) && a.level < b.level) {
                    let conv_json = |c: &Vec<Conv>| Json::Arr(c.iter().map(|x| Json::str(x.text())).collect());
                    report.violation(
                        &format!("selected-dominated:numeric-before-shape:{}-over-{}", ck[at].level_name(), cj[at].level_name()),
                        &format!(
                            "call f({}) selects {} although {} converts no argument with a worse numeric rank (shape compared only at equal rank) and argument {} with a better one ({} instead of {}) (declaration order {})",
                            case.args_text(),
                            case.sig_text(k),
                            case.sig_text(j),
                            at + 1,
                            cj[at].text(),
                            ck[at].text(),
                            perm_text(&perms[i])
                        ),
                        witness(Json::obj().set("selected_conversions", conv_json(ck)).set("dominating", case.sig_text(j)).set("dominating_conversions", conv_json(cj))),
                    );
                    report.count("monitor-fired:domination-numeric-before-shape");
                }
            }
            if no_worse {
                if let Some(at) = better_at {
                    // class of the failure: the rank component in which the selected candidate loses
                    let sig = if cj[at].level < ck[at].level {
                        format!("selected-dominated:numeric:{}-over-{}", ck[at].level_name(), cj[at].level_name())
                    } else {
                        format!("selected-dominated:shape:{}-over-{}", ck[at].shape_name(), cj[at].shape_name())
                    };
                    let summary = format!(
                        "call f({}) selects {} although {} converts no argument worse and argument {} better ({} instead of {}) (declaration order {})",
                        case.args_text(),
                        case.sig_text(k),
                        case.sig_text(j),
                        at + 1,
                        cj[at].text(),
                        ck[at].text(),
                        perm_text(&perms[i])
                    );
                    let conv_json = |c: &Vec<Conv>| Json::Arr(c.iter().map(|x| Json::str(x.text())).collect());
                    report.violation(
                        &sig,
                        &summary,
                        witness(Json::obj().set("selected_conversions", conv_json(ck)).set("dominating", case.sig_text(j)).set("dominating_conversions", conv_json(cj))),
                    );
                    report.count("monitor-fired:domination");
                }
            }
        }
    }

    // ---- monitor 4: a call is not "ambiguous" when one viable candidate dominates every other one -------------
    // (the contrapositive of monitor 3 for rejected calls: if selecting anything else would select a dominated candidate, and the
    // outcome may only depend on the candidates and the argument types, the dominating candidate is the only possible selection)
    if outcomes.iter().any(|o| matches!(o, Outcome::Ambiguous)) && viable.len() >= 2 {
        let dominating: Vec<usize> = viable
            .iter()
            .copied()
            .filter(|&d| {
                let cd = convs[d].as_ref().unwrap();
                viable.iter().all(|&j| {
                    if j == d {
                        return true;
                    }
                    let cj = convs[j].as_ref().unwrap();
                    cd.iter().zip(cj).all(|(a, b)| a.not_worse(b)) && cd.iter().zip(cj).any(|(a, b)| a.better(b))
                })
            })
            .collect();
        report.count("monitor:ambiguous-calls-examined");
        if let [d] = dominating[..] {
            let cd = convs[d].as_ref().unwrap();
            // class: the best rank the dominating candidate uses where some other candidate is worse
            let mut class = "shape".to_string();
            for &j in &viable {
                if j == d {
                    continue;
                }
                let cj = convs[j].as_ref().unwrap();
                if let Some(at) = cd.iter().zip(cj).position(|(a, b)| a.level < b.level) {
                    class = format!("{}-over-{}", cd[at].level_name(), cj[at].level_name());
                    break;
                }
            }
            let conv_json = |c: &Vec<Conv>| Json::Arr(c.iter().map(|x| Json::str(x.text())).collect());
            report.violation(
                &format!("ambiguous-despite-dominating-candidate:{}", class),
                &format!("call f({}) is rejected as ambiguous although {} converts every argument at least as well as each other viable candidate and one strictly better", case.args_text(), case.sig_text(d)),
                witness(Json::obj().set("dominating", case.sig_text(d)).set("dominating_conversions", conv_json(cd))),
            );
            report.count("monitor-fired:ambiguous-despite-dominating");
        }
    }

    // ---- monitor 5: a call made earlier in the file, while only some of the candidates were declared, changes nothing -------------
    // (the outcome depends on the candidates visible at the call and the argument types: the same call in front of the last
    // definitions is another call, with its own candidates; whatever it resolved to, the call in test() sees the full set)
    if !method_mode(case) && n >= 2 {
        let p = &perms[0];
        let text = render(case, p, None);
        let args: Vec<String> = case.args.iter().enumerate().map(|(i, a)| a.expr(i)).collect();
        let mut early = String::from("void early() {\n");
        for (i, a) in case.args.iter().enumerate() {
            if let Some(d) = a.decl(i) {
                early.push_str(&d);
            }
        }
        early.push_str(&format!("    f({});\n}}\n", args.join(", ")));
        let mut positions = vec![n - 1];
        if n >= 3 {
            positions.push(1 + (case.content_hash() % (n as u64 - 1)) as usize);
        }
        positions.dedup();
        for j in positions {
            let marker = format!("R{} f(", p[j]);
            // the definition (not a prototype) of the j-th candidate in declaration order
            let Some(at) = text.lines().scan(0usize, |pos, l| { let start = *pos; *pos += l.len() + 1; Some((start, l)) }).find(|(_, l)| l.starts_with(&marker) && l.contains('{')).map(|(start, _)| start) else { continue };
            let variant = format!("{}{}{}", &text[..at], early, &text[at..]);
            let o = observe(&variant, case, p, report);
            report.count("monitor:earlier-call-variants");
            let base = &outcomes[0];
            let differs = match (base, &o) {
                (Outcome::Chosen(a), Outcome::Chosen(b)) => a != b,
                (Outcome::Ambiguous | Outcome::NoMatch, Outcome::Chosen(_)) => true,
                // the earlier call itself may be unmatched or ambiguous among the candidates declared so far: then the program is
                // rejected for that call, which says nothing about the later one
                _ => false,
            };
            if differs {
                report.violation(
                    "outcome-depends-on-an-earlier-call",
                    &format!("call f({}) gives [{}]; with the same call also made earlier in the file, in front of the definition of {}, it gives [{}]", case.args_text(), base.text(case), case.sig_text(p[j]), o.text(case)),
                    witness(Json::obj().set("program_with_earlier_call", variant.as_str()).set("outcome_with_earlier_call", o.text(case))),
                );
                report.count("monitor-fired:earlier-call");
            }
        }
    }

    // ---- second observation: assert_type agrees with the callee read from the IR -------------
    if second_observation {
        let p = &perms[perms.len() - 1];
        let o = &outcomes[perms.len() - 1];
        match o {
            Outcome::Chosen(k) => {
                let good = observe(&render(case, p, Some(*k)), case, p, report);
                let other = (*k + 1) % n;
                let bad = observe(&render(case, p, Some(other)), case, p, report);
                let expect_bad = Outcome::Other(format!("expected type 'R{}' but received type 'R{}'", other, k));
                if good != *o || bad != expect_bad {
                    report.inconclusive(&format!(
                        "assert_type observation disagrees with the IR observation: IR says [{}], assert_type<R{}> gives [{}], assert_type<R{}> gives [{}]; case {}",
                        o.text(case),
                        k,
                        good.text(case),
                        other,
                        bad.text(case),
                        case.to_json().to_string_compact()
                    ));
                }
                report.count("second-observation:assert_type-accepts-selected-and-rejects-other");
            }
            Outcome::Ambiguous | Outcome::NoMatch => {
                let again = observe(&render(case, p, Some(0)), case, p, report);
                if again != *o {
                    report.inconclusive(&format!(
                        "assert_type observation disagrees: plain call gives [{}], inside assert_type [{}]; case {}",
                        o.text(case),
                        again.text(case),
                        case.to_json().to_string_compact()
                    ));
                }
                report.count("second-observation:assert_type-same-rejection");
            }
            _ => {}
        }
    }

    // ---- what was seen -------------------------------------------------------------------------
    report.count(&format!("outcome:{}", first.kind()));
    if let Outcome::Other(m) = first {
        report.count(&format!("other-diagnostic:{}", m.chars().take(60).collect::<String>()));
    }
    report.count(&format!("candidates:{}", n));
    report.count(&format!("arity:{}", case.args.len()));
    report.count(&format!("model-viable-candidates:{}", viable.len().min(5)));
    report.count(&format!("permutations-per-case:{}", perms.len()));
    match (first, viable.len()) {
        (Outcome::NoMatch, v) if v > 0 => report.count("rejected-as-no-match-although-viable-candidates-exist(pareto tie)"),
        (Outcome::Ambiguous, _) => report.count(&format!("ambiguous-with-viable:{}", viable.len())),
        (Outcome::Chosen(_), 1) => report.count("selected-the-only-viable-candidate"),
        (Outcome::Chosen(_), _) => report.count("selected-among-several-viable-candidates"),
        _ => {}
    }
    for a in &case.args {
        report.count(&format!("arg:{}", a.kind()));
        report.count(&format!("arg-dim:{}", a.dim()));
    }
    for c in &case.cands {
        for p in c {
            report.count(if p.out { "param:out" } else { "param:in" });
        }
        if c.len() != case.args.len() {
            report.count("candidate:other-arity");
        }
    }
    if viable.len() >= 2 {
        report.distinct(case.content_hash());
        if report.want_sample() {
            report.sample(witness(Json::obj()));
        }
    } else {
        report.count("trivial(fewer than two viable candidates, not counted as distinct)");
    }
}

// ------------------------------------------------------------------------------------------------
// Generator
// ------------------------------------------------------------------------------------------------

fn random_ty(rng: &mut Rng) -> Ty {
    let sc = *rng.pick(&SCALARS);
    let dim = if rng.chance(45, 100) { 1 } else { rng.range(2, 4) as u8 };
    Ty { sc, dim }
}

fn random_arg(rng: &mut Rng) -> Arg {
    let t = random_ty(rng);
    match rng.below(100) {
        0..=34 => Arg::Lvalue(t),
        35..=59 => Arg::Cast(t),
        60..=69 => {
            if typed_literal(t.sc).is_some() {
                Arg::TypedLit(t.sc)
            } else {
                Arg::Cast(Ty { sc: t.sc, dim: 1 })
            }
        }
        70..=84 => Arg::LitInt,
        _ => Arg::LitFloat,
    }
}

/// A variation of an argument: other value category, literal instead of a value, other scalar type or dimension
fn vary_arg(a: Arg, rng: &mut Rng) -> Arg {
    let t = a.ty().unwrap_or(Ty { sc: if a == Arg::LitInt { Sc::Int } else { Sc::Float }, dim: 1 });
    match rng.below(6) {
        0 => match a {
            Arg::Lvalue(t) => Arg::Cast(t),
            _ => Arg::Lvalue(t),
        },
        1 => Arg::LitInt,
        2 => Arg::LitFloat,
        3 => Arg::Lvalue(Ty { sc: *rng.pick(&SCALARS), dim: t.dim }),
        4 => Arg::Cast(Ty { sc: t.sc, dim: rng.range(1, 4) as u8 }),
        _ => random_arg(rng),
    }
}

fn derived_param(a: &Arg, rng: &mut Rng) -> Param {
    let base = match a {
        Arg::LitInt => Ty { sc: *rng.pick(&[Sc::Int, Sc::Uint]), dim: 1 },
        Arg::LitFloat => Ty { sc: *rng.pick(&[Sc::Half, Sc::Float, Sc::Double]), dim: 1 },
        _ => a.ty().unwrap(),
    };
    let mut ty = base;
    if !rng.chance(35, 100) {
        if rng.chance(60, 100) {
            ty.sc = *rng.pick(&SCALARS);
        }
        if rng.chance(50, 100) {
            ty.dim = if base.dim == 1 {
                rng.range(1, 4) as u8
            } else if rng.chance(85, 100) {
                rng.range(1, base.dim as i64) as u8
            } else {
                rng.range(1, 4) as u8
            };
        }
    }
    let out = if a.is_lvalue() { rng.chance(18, 100) } else { rng.chance(3, 100) };
    Param { ty, out }
}

fn gen_set(rng: &mut Rng) -> Case {
    let arity = match rng.below(10) {
        0..=2 => 1,
        3..=6 => 2,
        _ => 3,
    };
    let args: Vec<Arg> = (0..arity).map(|_| random_arg(rng)).collect();
    let ncand = rng.range(2, 5) as usize;
    let mut cands: Vec<Vec<Param>> = Vec::new();
    while cands.len() < ncand {
        let mut tries = 0;
        loop {
            tries += 1;
            let c: Vec<Param> = if rng.chance(8, 100) || tries > 20 {
                // unrelated candidate, possibly of another arity
                let n = if rng.chance(50, 100) { arity } else { rng.range(1, 3) as usize };
                (0..n).map(|_| Param { ty: random_ty(rng), out: rng.chance(10, 100) }).collect()
            } else {
                args.iter().map(|a| derived_param(a, rng)).collect()
            };
            if !cands.contains(&c) {
                cands.push(c);
                break;
            }
        }
    }
    Case { cands, args }
}

const SALT_SET: u64 = 0x16_01;
const SALT_ARGS: u64 = 0x16_02;
const SALT_PERM: u64 = 0x16_03;
/// Argument tuples tried per candidate set
const TUPLES_PER_SET: u64 = 4;

/// Case `index` is a pure function of (seed, index): the set comes from index / 4, the argument tuple from index
fn make_case(seed: u64, index: u64) -> Case {
    let mut rng = Rng::for_case(seed, SALT_SET, index / TUPLES_PER_SET);
    let mut case = gen_set(&mut rng);
    if index % TUPLES_PER_SET != 0 {
        let mut r = Rng::for_case(seed, SALT_ARGS, index);
        let which = r.below(case.args.len());
        for i in 0..case.args.len() {
            if i == which || r.chance(30, 100) {
                case.args[i] = vary_arg(case.args[i], &mut r);
            }
        }
    }
    case
}

// ------------------------------------------------------------------------------------------------
// Self test of the argument forms (their type and value category is what the oracle assumes)
// ------------------------------------------------------------------------------------------------

fn self_test(report: &mut Report) {
    let mut bad = Vec::new();
    let mut accept = |text: String, expect_ok: bool, what: String, report: &mut Report| {
        report.evaluations += 1;
        report.count("self-test:argument-form-programs");
        let ok = matches!(rs::typecheck_text(&text), Front::Ok(_));
        if ok != expect_ok {
            bad.push(what);
        }
    };
    for sc in SCALARS {
        for dim in 1..=4u8 {
            let t = Ty { sc, dim }.name();
            accept(format!("void test() {{ {t} a0 = ({t})0; assert_type<{t}>(a0); assert_type<{t}>(({t})0); }}"), true, format!("lvalue / cast of {t} has type {t}"), report);
            accept(format!("void g(out {t} p) {{ p = ({t})0; }} void test() {{ {t} a0 = ({t})0; g(a0); }}"), true, format!("variable of {t} binds to out {t}"), report);
            accept(format!("void g(out {t} p) {{ p = ({t})0; }} void test() {{ g(({t})0); }}"), false, format!("({t})0 does not bind to out {t}"), report);
        }
        if let Some(l) = typed_literal(sc) {
            let t = sc.name();
            accept(format!("void test() {{ assert_type<{t}>({l}); }}"), true, format!("{l} has type {t}"), report);
        }
    }
    // the untyped literals have none of the six types
    for sc in SCALARS {
        let t = sc.name();
        if sc != Sc::Bool {
            accept(format!("void test() {{ assert_type<{t}>(1); }}"), false, format!("1 is not of type {t}"), report);
            accept(format!("void test() {{ assert_type<{t}>(1.0); }}"), false, format!("1.0 is not of type {t}"), report);
        }
    }
    if !bad.is_empty() {
        report.inconclusive(&format!("argument forms do not have the assumed types: {}", bad.join("; ")));
    }
}

// ------------------------------------------------------------------------------------------------
// Directed cases: the situations the property text names, always part of the workload
// ------------------------------------------------------------------------------------------------

fn directed_cases() -> Vec<Case> {
    let mut out = Vec::new();
    let p = |s: &str| Param::parse(s).unwrap();
    // every scalar argument type against every pair / the complete set of scalar parameter types
    let srcs: Vec<Arg> = SCALARS
        .iter()
        .flat_map(|sc| {
            let t = Ty { sc: *sc, dim: 1 };
            let mut v = vec![Arg::Lvalue(t), Arg::Cast(t)];
            if typed_literal(*sc).is_some() {
                v.push(Arg::TypedLit(*sc));
            }
            v
        })
        .chain([Arg::LitInt, Arg::LitFloat])
        .collect();
    for a in &srcs {
        for i in 0..SCALARS.len() {
            for j in (i + 1)..SCALARS.len() {
                out.push(Case {
                    cands: vec![vec![Param { ty: Ty { sc: SCALARS[i], dim: 1 }, out: false }], vec![Param { ty: Ty { sc: SCALARS[j], dim: 1 }, out: false }]],
                    args: vec![*a],
                });
            }
        }
        for skip in 0..=SCALARS.len() {
            // five of the six scalar types (or, for skip == 6, the first five)
            let cands: Vec<Vec<Param>> = SCALARS.iter().enumerate().filter(|(i, _)| *i != skip).take(5).map(|(_, sc)| vec![Param { ty: Ty { sc: *sc, dim: 1 }, out: false }]).collect();
            out.push(Case { cands, args: vec![*a] });
        }
    }
    // dimensions: every argument dimension against all pairs of parameter dimensions
    for sc in [Sc::Float, Sc::Int] {
        for adim in 1..=4u8 {
            for d1 in 1..=4u8 {
                for d2 in (d1 + 1)..=4u8 {
                    for a in [Arg::Lvalue(Ty { sc, dim: adim }), Arg::Cast(Ty { sc, dim: adim })] {
                        out.push(Case {
                            cands: vec![vec![Param { ty: Ty { sc, dim: d1 }, out: false }], vec![Param { ty: Ty { sc, dim: d2 }, out: false }]],
                            args: vec![a],
                        });
                        // numeric rank against shape rank
                        out.push(Case {
                            cands: vec![vec![Param { ty: Ty { sc: Sc::Double, dim: d1 }, out: false }], vec![Param { ty: Ty { sc, dim: d2 }, out: false }]],
                            args: vec![a],
                        });
                    }
                }
            }
        }
    }
    // in / out twins and out parameters with lvalues, rvalues, literals
    for a in [Arg::Lvalue(Ty { sc: Sc::Int, dim: 1 }), Arg::Cast(Ty { sc: Sc::Int, dim: 1 }), Arg::LitInt, Arg::Lvalue(Ty { sc: Sc::Uint, dim: 1 })] {
        out.push(Case { cands: vec![vec![p("int")], vec![p("out int")]], args: vec![a] });
        out.push(Case { cands: vec![vec![p("out int")], vec![p("float")], vec![p("out uint")]], args: vec![a] });
        out.push(Case { cands: vec![vec![p("out int"), p("int")], vec![p("int"), p("out int")], vec![p("int"), p("int")]], args: vec![a, Arg::Lvalue(Ty { sc: Sc::Int, dim: 1 })] });
    }
    // pareto situations with two and three arguments
    for (a0, a1) in [(Arg::Cast(Ty { sc: Sc::Int, dim: 1 }), Arg::Cast(Ty { sc: Sc::Float, dim: 1 })), (Arg::LitInt, Arg::LitFloat), (Arg::Lvalue(Ty { sc: Sc::Half, dim: 1 }), Arg::Lvalue(Ty { sc: Sc::Half, dim: 3 }))] {
        out.push(Case { cands: vec![vec![p("int"), p("double")], vec![p("uint"), p("float")], vec![p("float"), p("float")], vec![p("int"), p("float")]], args: vec![a0, a1] });
        out.push(Case { cands: vec![vec![p("float"), p("double")], vec![p("double"), p("float")], vec![p("half"), p("half3")], vec![p("float3"), p("float3")], vec![p("half"), p("float2")]], args: vec![a0, a1] });
        out.push(Case {
            cands: vec![vec![p("int"), p("float"), p("bool")], vec![p("uint"), p("float"), p("int")], vec![p("int"), p("double"), p("uint")], vec![p("bool"), p("half"), p("int")]],
            args: vec![a0, a1, Arg::LitInt],
        });
    }
    out
}

// ------------------------------------------------------------------------------------------------
// run / replay
// ------------------------------------------------------------------------------------------------

fn run(ctx: &Ctx) -> Report {
    let mut report = Report::new();
    self_test(&mut report);
    if !report.inconclusive.is_empty() {
        return report;
    }
    let thorough = ctx.tier == Tier::Thorough;
    let seed = ctx.seed;

    // directed cases: always all permutations
    let directed = directed_cases();
    let r = crate::par::run_cases(ctx, directed.len() as u64, |index, report| {
        let case = &directed[index as usize];
        let perms = all_permutations(case.cands.len());
        examine(case, &perms, true, report);
        report.count("cases:directed");
    });
    report.merge(r);

    // generated cases
    let n = ctx.tier.pick(24_000, 120_000);
    let r = crate::par::run_cases(ctx, n, |index, report| {
        let case = make_case(seed, index);
        let mut prng = Rng::for_case(seed, SALT_PERM, index);
        let perms = permutations_for(case.cands.len(), thorough, &mut prng);
        examine(&case, &perms, true, report);
        report.count("cases:generated");
        report.count(if method_mode(&case) { "cases:generated:candidates-are-struct-methods" } else { "cases:generated:candidates-are-free-functions" });
    });
    report.merge(r);
    if thorough {
        report.notes.push("thorough tier: every case is checked under all permutations of the declaration order (up to 120)".into());
    } else {
        report.notes.push("quick tier: all permutations for <= 3 candidates, identity + reverse + 4 random ones for 4-5 candidates".into());
    }
    report
}

fn replay(_ctx: &Ctx, witness: &Json) -> Report {
    let mut report = Report::new();
    let Some(case) = Case::from_json(witness) else {
        report.inconclusive("witness does not contain a candidates/args description");
        return report;
    };
    let perms = all_permutations(case.cands.len());
    examine(&case, &perms, true, &mut report);
    report
}
