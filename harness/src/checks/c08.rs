//! C08 - compilation is total.
//!
//! Process monitor: inputs are compiled in supervised child processes (main thread, default 8 MB
//! stack, address space limit) for every target x pipeline mode x layout validation, under
//! catch_unwind with the logical step budget armed. The parent classifies each execution as
//! ok | diagnostic | panic(site) | step budget | abort(signal) | watchdog.

use crate::corpus;
use crate::gen::soup;
use crate::json::{self, Json};
use crate::par::Caught;
use crate::report::{Ctx, Report, Tier};
use crate::rng::{hash_str, Rng};
use crate::rs::{self, Files, Mode, Opts, Outcome, Tgt, ALL_TARGETS};
use crate::CheckDef;
use std::io::{BufRead, BufReader, Write};
use std::process::{Child, Command, Stdio};
use std::sync::atomic::{AtomicU64, Ordering};
use std::sync::mpsc;
use std::time::Duration;

pub fn def() -> CheckDef {
    CheckDef {
        id: "C08",
        salt: 0xC08,
        rule: "inputs: byte soups, token soups, structured soups (<= 4 KB), token-level mutations of the unit-test snippets and of the \
               tests/ corpus entry files, unsupported-construct snippets, and directed stress families (nesting / chains / macro fan-out) at \
               sizes within the property's bounds; each input is compiled for 4 targets x {all pipelines, named pipeline, no-pipeline} x layout \
               validation on/off in a supervised child process. evaluations = compile() executions observed; distinct_nontrivial = distinct \
               input texts (by content hash) that got past the lexer on at least one configuration (i.e. reached the parser or later stages)",
        assumptions: &[
            "the instrumented build (overflow checks + debug assertions on) reaches the same code as a release build",
            "logical step counter sites (hook) are placed on every loop that can grow with input size; loops without a site are only covered by the wall-clock watchdog",
            "a worker process killed by the address-space limit or a signal is attributed to the input it had announced",
        ],
        min_distinct: (500, 5000),
        deadline_s: (100.0, 1500.0),
        run,
        replay,
    }
}

// ------------------------------------------------------------------------------------------------
// Cases
// ------------------------------------------------------------------------------------------------

#[derive(Clone, Debug)]
pub struct Case {
    pub kind: String,
    pub files: Files,
    pub entry: String,
    pub defines: Vec<(String, String)>,
    /// run only the first k configurations (witnesses of expensive findings)
    pub max_configs: Option<usize>,
}

impl Case {
    fn text(&self) -> &str {
        self.files.0.iter().find(|f| f.0 == self.entry).map(|f| f.1.as_str()).unwrap_or("")
    }
    fn to_json(&self) -> Json {
        // only the files that matter: entry + everything if the set is small
        let files = if self.files.total_len() <= 64 * 1024 {
            self.files.to_json()
        } else {
            Files(vec![(self.entry.clone(), self.text().to_string())]).to_json()
        };
        Json::obj()
            .set("kind", &self.kind)
            .set("entry", &self.entry)
            .set("files", files)
            .set("corpus_set", if self.files.total_len() > 64 * 1024 { self.kind.split(':').nth(1).unwrap_or("").to_string() } else { String::new() })
            .set("defines", Json::Arr(self.defines.iter().map(|(a, b)| Json::Arr(vec![Json::str(a), Json::str(b)])).collect()))
            .set("configs", match self.max_configs {
                Some(k) => Json::from(k),
                None => Json::Null,
            })
    }
    fn from_json(j: &Json, corpus: &Corpus) -> Case {
        let mut files = Files::from_json(j.get("files").unwrap_or(&Json::Null));
        let set = j.get_str("corpus_set").unwrap_or("");
        if !set.is_empty() {
            if let Some(cs) = corpus.sets.iter().find(|s| s.name == set) {
                let mut all = cs.files.clone();
                for f in files.0 {
                    all.0.retain(|x| x.0 != f.0);
                    all.0.push(f);
                }
                files = all;
            }
        }
        let mut defines = Vec::new();
        if let Some(d) = j.get("defines").and_then(|d| d.as_arr()) {
            for kv in d {
                if let Some(kv) = kv.as_arr() {
                    if kv.len() == 2 {
                        defines.push((kv[0].as_str().unwrap_or("").to_string(), kv[1].as_str().unwrap_or("").to_string()));
                    }
                }
            }
        }
        Case {
            kind: j.get_str("kind").unwrap_or("replay").to_string(),
            files,
            entry: j.get_str("entry").unwrap_or("main.rssl").to_string(),
            defines,
            max_configs: j.get("configs").and_then(|c| c.as_i64()).map(|c| c as usize),
        }
    }
}

pub struct Corpus {
    pub sets: Vec<corpus::CorpusSet>,
    pub snippets: Vec<String>,
}

impl Corpus {
    pub fn load() -> Corpus {
        Corpus {
            sets: corpus::load(),
            snippets: corpus::test_snippets(),
        }
    }
}

/// Bounds of the property's quantifier for soups (see DESIGN.md, C08): deeper nesting than this and more cast-like
/// prefixes are known findings KF-C08-deep-nesting / KF-C08-cast-ambiguity and are only probed by their own witnesses.
pub const NEST_CAP: usize = 48;
pub const CAST_CAP: usize = 6;
/// nesting bound of the property's quantifier for grammar inputs
pub const GRAMMAR_NEST: usize = 12;

fn single(kind: &str, text: String) -> Case {
    Case {
        kind: kind.to_string(),
        files: Files::single("main.rssl", &text),
        entry: "main.rssl".to_string(),
        defines: Vec::new(),
        max_configs: None,
    }
}

/// The case for (seed, index): a pure function, so parent and worker agree
pub fn make_case(seed: u64, index: u64, corpus: &Corpus) -> Case {
    let mut rng = Rng::for_case(seed, 0xC08, index);
    let pick = rng.below(100);
    let mut case = if index % 6 == 5 {
        grammar_case(&mut rng)
    } else if pick < 12 {
        single("byte_soup", soup::byte_soup(&mut rng, 4096))
    } else if pick < 30 {
        single("token_soup", soup::token_soup(&mut rng, 4096))
    } else if pick < 50 {
        single("structured_soup", soup::structured_soup(&mut rng, 4096))
    } else if pick < 72 && !corpus.snippets.is_empty() {
        let base = rng.pick(&corpus.snippets).clone();
        let n = 1 + rng.below(3);
        single("snippet_mutation", soup::mutate(&mut rng, &base, n))
    } else if pick < 80 && !corpus.snippets.is_empty() {
        // two snippets glued together plus an unsupported construct
        let a = rng.pick(&corpus.snippets).clone();
        let b = rng.pick(soup::UNSUPPORTED).to_string();
        let c = rng.pick(&corpus.snippets).clone();
        let text = if rng.chance(1, 2) { format!("{}\n{}\n", a, b) } else { format!("{}\n{}\n{}\n", b, a, c) };
        single("snippet_plus_unsupported", text)
    } else if pick < 90 {
        let family = rng.below(soup::STRESS_FAMILIES);
        let k = *rng.pick(&[1usize, 2, 3, 5, 8, 12, 12, 16, 24, 32, 48]);
        // families whose *output* legitimately grows as 2^k stay small
        let k = if matches!(family, 12 | 13) { k.min(10) } else { k };
        let (name, text) = soup::stress_family(family, k);
        single(&format!("stress:{}:{}", name, k), text)
    } else {
        // mutation of a corpus entry file (the rest of the set is available for #include)
        let set = &corpus.sets[rng.below(corpus.sets.len())];
        if set.entries.is_empty() {
            single("token_soup", soup::token_soup(&mut rng, 1024))
        } else {
            let entry = rng.pick(&set.entries).clone();
            let text = set.files.0.iter().find(|f| f.0 == entry).map(|f| f.1.clone()).unwrap_or_default();
            let n = rng.below(3);
            let mutated = soup::mutate(&mut rng, &text, n);
            let mut files = set.files.clone();
            for f in files.0.iter_mut() {
                if f.0 == entry {
                    f.1 = mutated.clone();
                }
            }
            Case {
                kind: format!("corpus:{}:{}", set.name, entry),
                files,
                entry,
                defines: set.defines.clone(),
                max_configs: None,
            }
        }
    };
    // keep soups inside the bounds of the quantifier; the excess is covered by the known-finding witnesses
    if !case.kind.starts_with("corpus:") {
        let text = case.text().to_string();
        if soup::nesting_depth(&text) > NEST_CAP || soup::castlike_prefixes(&text) > CAST_CAP {
            let mut capped = soup::cap_nesting(&text, NEST_CAP);
            if soup::castlike_prefixes(&capped) > CAST_CAP {
                capped = capped.replace(")(", ") + (").replace(") (", ") + (");
            }
            case.files = Files::single("main.rssl", &capped);
        }
    }
    case
}

/// Grammar-generated programs - valid, and invalid by exactly one structural or token mutation
/// (typed executable programs, resource / pipeline declaration programs, multi-pipeline files)
/// Constant expressions over boundary operands in every constant-evaluated position (the "extreme literals" of the property)
fn const_boundary_program(rng: &mut Rng) -> String {
    const OPERANDS: &[&str] = &[
        "0", "1", "2", "7", "31", "32", "33", "63", "64", "65", "127", "128", "129", "200", "255", "256", "65535", "65536", "2147483647", "2147483648", "4294967295",
        "4294967296", "9223372036854775807", "9223372036854775808", "18446744073709551615", "0x7FFFFFFF", "0x80000000", "0xFFFFFFFF", "1u", "31u", "32u", "128u", "4294967295u",
        "(int)-1", "(int)-2147483647 - 1", "(uint)-1", "(int)2147483647", "(int)0x7FFFFFFF", "(uint)0xFFFFFFFF", "-1", "-128", "-2147483648", "1.0f", "0.0f", "-0.0f", "1e38f", "1e39", "1.#INF", "0.5h", "65504.0h", "1.0L", "true", "false",
    ];
    const BINARY: &[&str] = &["+", "-", "*", "/", "%", "<<", ">>", "&", "|", "^", "&&", "||", "<", "<=", ">", ">=", "==", "!="];
    const UNARY: &[&str] = &["", "", "", "-", "~", "!", "+"];
    let mut e = format!("{}{}", rng.pick(UNARY), rng.pick(OPERANDS));
    // (a single operand in one case out of four: a boundary value reaches the position unchanged)
    let operators = if rng.chance(1, 4) { 0 } else { 1 + rng.below(2) };
    for _ in 0..operators {
        let rhs = format!("{}{}", rng.pick(UNARY), rng.pick(OPERANDS));
        e = if rng.chance(1, 2) { format!("({} {} {})", e, rng.pick(BINARY), rhs) } else { format!("({} {} {})", rhs, rng.pick(BINARY), e) };
    }
    if rng.chance(1, 6) {
        e = format!("({} ? {} : {})", e, rng.pick(OPERANDS), rng.pick(OPERANDS));
    }
    let ty = *rng.pick(&["int", "uint", "float", "half", "bool", "double"]);
    let position = rng.below(11);
    if position >= 9 && rng.chance(1, 2) {
        // enumerations that start at the edge of a type and continue implicitly
        const EDGES: &[&str] = &["4294967295u", "0xFFFFFFFFu", "(uint)-1", "(int)2147483647", "(int)0x7FFFFFFF", "2147483647", "4294967295", "4294967294u", "(int)2147483646", "true", "-2147483648", "(int)-2147483647 - 1"];
        e = rng.pick(EDGES).to_string();
    }
    match position {
        0 => format!("static const {} k = {};\nfloat a[k];\n", ty, e),
        1 => format!("static float a[{}];\n", e),
        9 | 10 => match rng.below(4) {
            0 => format!("enum E {{ A = {}, B, C }};\nstatic const int n = (int)C;\n", e),
            1 => format!("enum E {{ A = {}, B, C = B, D }};\nstatic const uint n = (uint)D;\n", e),
            2 => format!("enum E0 {{ X = {} }};\nenum E {{ A = X, B, C, D = B }};\nfloat a[D == B ? 2 : 1];\n", e),
            _ => format!("enum class E {{ A = {}, B, C, D }};\nvoid f(E v) {{ switch (v) {{ case E::D: break; default: break; }} }}\n", e),
        },
        3 => format!("[numthreads({}, 1, 1)]\nvoid main() {{}}\nPipeline P {{ ComputeShader = main; }}\n", e),
        4 => format!("void f(int v) {{ switch (v) {{ case {}: break; default: break; }} }}\n", e),
        5 => format!("void f() {{ assert_eval<{}>({}, ({})0); }}\n", ty, e, ty),
        6 => format!("void f() {{ const {} k = {}; {} a[2]; a[k] = ({})1; }}\n", ty, e, ty, ty),
        7 => format!("template<typename T> T g(T v) {{ return v; }}\nvoid f() {{ [unroll({})] for (int i = 0; i < 2; ++i) {{ g(i); }} }}\n", e),
        8 => format!("static const {}2 k = {}2({}, {});\nstatic const {} m = k.y;\nfloat a[(int)m + 1];\n", ty, ty, e, rng.pick(OPERANDS), ty),
        2 => {
            if rng.chance(1, 2) {
                format!("struct S {{ {} v[{}]; }};\nstatic const uint n = sizeof(S);\n", ty, e)
            } else {
                // the same struct as the element of a buffer: with layout validation on, its size is computed for both packings
                let buffer = *rng.pick(&["StructuredBuffer<S> b;", "RWStructuredBuffer<S> b;", "ConstantBuffer<S> b;", "ByteAddressBuffer b;\nvoid f() { b.Load<S>(0); }"]);
                format!("struct S {{ {} v[{}]; {}3 w[2]; }};\n{}\n", ty, e, ty, buffer)
            }
        }
        _ => unreachable!(),
    }
}

/// Every kind of global (cbuffer member, ConstantBuffer, static, groupshared, texture, raw / structured buffers, a helper call)
/// read in every statement position of an entry point: conditions of if / while / do-while / for, for initialiser and step, switch
/// selector and bodies, ternaries, initialiser lists, subscripts, call arguments, nested blocks, compound assignments, stores
fn resource_positions_program(rng: &mut Rng) -> String {
    const READS: &[&str] = &["cb_n", "(uint)cb_v.x", "s_n", "gs_n[1]", "sb[0]", "rw.Load(0)", "(uint)tex.Load(int3(0, 0, 0)).x", "cbo.m", "helper(r)", "NS::ns_k", "(uint)NS::cb_w"];
    const POSITIONS: &[&str] = &[
        "if (@ > 1u) { r += @; } else { r -= 1u; }",
        "while (r < @ && r < 64u) { r += 1u + @; }",
        "do { r += 1u; } while (r < @ && r < 64u);",
        "for (uint i = @ & 3u; i < (@ & 7u); i += 1u + (@ & 1u)) { r += i; }",
        "switch (@ & 3u) { case 0: r += @; break; case 1: case 2: r ^= @; break; default: r -= @; }",
        "r = @ > 2u ? @ : r;",
        "{ uint arr[4] = { @, 1u, 2u, 3u }; r += arr[@ & 3u]; }",
        "r += helper(@);",
        "{ uint q = @; { r += q + @; } }",
        "r <<= (@ & 3u);",
        "rw.Store(4, @);",
        "gs_n[@ & 3u] = @;",
        "s_n += @;",
        "if (@ == 0u) return;",
        "r += (@, @);",
    ];
    let mut body = String::new();
    let n = 2 + rng.below(7);
    for _ in 0..n {
        let mut stmt = rng.pick(POSITIONS).to_string();
        while let Some(i) = stmt.find('@') {
            let read: &str = *rng.pick(READS);
            stmt.replace_range(i..i + 1, read);
        }
        body.push_str("    ");
        body.push_str(&stmt);
        body.push('\n');
    }
    let threads = *rng.pick(&["4, 1, 1", "8, 8, 1", "64, 1, 1"]);
    format!(
        "struct Elem {{ uint m; float w; }};\ncbuffer CB {{ float4 cb_v; uint cb_n; }}\nnamespace NS {{ cbuffer CB2 {{ float cb_w; }} static const uint ns_k = 2u; }}\nstatic uint s_n = 3u;\ngroupshared uint gs_n[4];\nTexture2D<float4> tex;\nRWByteAddressBuffer rw;\nStructuredBuffer<uint> sb;\nConstantBuffer<Elem> cbo;\nuint helper(uint x) {{ return x + cb_n + s_n; }}\n[numthreads({})]\nvoid CSMain(uint3 id : SV_DispatchThreadID)\n{{\n    uint r = id.x;\n{}    rw.Store(0, r);\n}}\nPipeline P {{ ComputeShader = CSMain; }}\n",
        threads, body
    )
}

/// Brace initialisers of every shape (empty, nested, surplus, elided) against every kind of target (scalar, vector, matrix, array,
/// struct, array of structs), as local, static global and default argument
fn initialiser_program(rng: &mut Rng) -> String {
    const TARGETS: &[&str] = &["float x", "int x", "uint x", "bool x", "float2 x", "float3 x", "int4 x", "float2x2 x", "float x[2]", "float x[2][2]", "int x[3]", "S x", "S x[2]", "T x", "E x"];
    const ATOMS: &[&str] = &["1", "2.0f", "true", "k", "{}", "{ }", "{{}}", "{ 1 }", "{{ 1 }}", "{ 1, 2 }", "{ {}, 1 }", "{ 1, {} }", "{ {1}, {2} }", "{ 1, 2, 3 }", "{{{ 1 }}}", "{ k, { k, k } }", "{ { 1, 2 }, { 3, 4 } }", "{ 1, { 2, { 3 } } }", "(S)0", "{ E::A }"];
    let mut init = rng.pick(ATOMS).to_string();
    // sometimes one more level around or next to it
    match rng.below(5) {
        0 => init = format!("{{ {} }}", init),
        1 => init = format!("{{ {}, {} }}", init, rng.pick(ATOMS)),
        2 => init = format!("{{ {}, {}, {} }}", rng.pick(ATOMS), init, rng.pick(ATOMS)),
        _ => {}
    }
    let target = *rng.pick(TARGETS);
    let pre = "struct S { float a; int b; };\nstruct T { S s; float2 v; float w[2]; };\nenum E { A, B };\nstatic const int k = 3;\n";
    match rng.below(5) {
        0 => format!("{}static {} = {};\n", pre, target, init),
        1 => format!("{}static const {} = {};\nvoid f() {{ x; }}\n", pre, target, init),
        2 => format!("{}void f() {{ {} = {}; x; }}\n", pre, target, init),
        3 => format!("{}void f() {{ for ({} = {}; false; ) {{ }} }}\n", pre, target, init),
        _ => format!("{}struct U {{ {}; }};\nvoid f() {{ U u = {{ {} }}; u; }}\n", pre, target, init),
    }
}

/// Structs with base types whose members, methods and inherited members share names, and every way of naming them afterwards
fn struct_members_program(rng: &mut Rng) -> String {
    const NAMES: &[&str] = &["x", "y", "m", "get", "x", "m"];
    let member = |rng: &mut Rng, methods: bool| -> String {
        let n = *rng.pick(NAMES);
        // base types mostly hold variables, derived types mostly methods
        let kind = if rng.chance(3, 4) { if methods { 2 + rng.below(2) } else { rng.below(2) } } else { rng.below(5) };
        match kind {
            0 => format!("    int {};\n", n),
            1 => format!("    float {};\n", n),
            2 => format!("    int {}() {{ return 1; }}\n", n),
            3 => format!("    int {}(int a) {{ return a; }}\n", n),
            _ => format!("    static const int {} = 2;\n", n),
        }
    };
    let mut text = String::from("struct B\n{\n");
    for _ in 0..1 + rng.below(3) {
        text.push_str(&member(rng, false));
    }
    text.push_str("};\nstruct C\n{\n");
    for _ in 0..rng.below(3) {
        text.push_str(&member(rng, false));
    }
    let bases = *rng.pick(&[" : B", " : B", " : B", " : B, C", " : C", "", " : B, B", " : D"]);
    text.push_str(&format!("}};\nstruct D{}\n{{\n", bases));
    for _ in 0..rng.below(4) {
        text.push_str(&member(rng, true));
    }
    text.push_str("};\nvoid f()\n{\n    D d;\n");
    for _ in 0..1 + rng.below(4) {
        let n = *rng.pick(NAMES);
        text.push_str(&match rng.below(6) {
            0 => format!("    d.{};\n", n),
            1 => format!("    d.{}();\n", n),
            2 => format!("    d.{}(1);\n", n),
            3 => format!("    d.{} = 1;\n", n),
            4 => format!("    D::{};\n", n),
            _ => format!("    int v_{} = d.{} + d.{}();\n", n, n, n),
        });
    }
    text.push_str("}\n");
    text
}

fn grammar_case(rng: &mut Rng) -> Case {
    if rng.chance(1, 8) {
        return single("grammar:initialisers", initialiser_program(rng));
    }
    if rng.chance(1, 8) {
        return single("grammar:struct-members", struct_members_program(rng));
    }
    if rng.chance(1, 6) {
        return single("grammar:resource-positions", resource_positions_program(rng));
    }
    if rng.chance(1, 4) {
        return single("grammar:constant-boundary", const_boundary_program(rng));
    }
    if rng.chance(1, 5) {
        // macro systems (object-like and function-like, pasting, empty arguments, names that reach themselves through bodies and
        // arguments): whatever they expand to, the preprocessor must terminate
        return single("grammar:macro-program", crate::checks::c12::gen_macro_program(rng));
    }
    let (family, text) = match rng.below(4) {
        0 => {
            let cfg = crate::gen::prog::Config {
                max_functions: 4,
                max_statements: 5,
                max_expr_depth: 3,
                ..Default::default()
            };
            ("prog", crate::gen::prog::generate(rng, cfg).render())
        }
        3 => {
            // the same programs under the hostile namings of C15: reserved and built-in spellings, and locals / parameters /
            // enumerators spelled like the names the exporters generate (`name_0`, `name_1`, `name_0_0`)
            let cfg = crate::gen::prog::Config {
                max_functions: 5,
                max_statements: 4,
                max_expr_depth: 2,
                ..Default::default()
            };
            let p = crate::gen::prog::generate(rng, cfg);
            let naming = crate::checks::c15::naming(&p, rng, true);
            ("prog-hostile-names", p.render_with(&|i, _| naming.names[i].clone()))
        }
        1 => ("decl", crate::gen::decl::generate(rng, 6, 2).text),
        _ => ("pipelines", crate::checks::c17::gen::generate(rng, true).text),
    };
    if rng.chance(1, 4) {
        single(&format!("grammar:{}:valid", family), text)
    } else {
        let (mutated, how) = soup::mutate_structure(rng, &text);
        single(&format!("grammar:{}:{}", family, how), mutated)
    }
}

fn first_pipeline_name(text: &str) -> String {
    if let Some(i) = text.find("Pipeline") {
        let rest = &text[i + 8..];
        let name: String = rest.trim_start().chars().take_while(|c| c.is_alphanumeric() || *c == '_').collect();
        if !name.is_empty() {
            return name;
        }
    }
    "Main".to_string()
}

pub fn configurations(text: &str) -> Vec<Opts> {
    let named = first_pipeline_name(text);
    let mut out = Vec::new();
    for t in ALL_TARGETS {
        for mode in [Mode::All, Mode::Named(named.clone()), Mode::NoPipeline] {
            for validate in [false, true] {
                let mut o = Opts::new(t, mode.clone());
                o.validate_layout = validate;
                out.push(o);
            }
        }
    }
    out
}

// Step budget: ticks <= C0 + C1 * n + C2 * n^2 where n = bytes of all files the compile loaded.
// Calibrated at > 30x the worst ratio observed on the repository corpus and all generators (see evidence "max:ticks_per_..." counters).
pub const BUDGET_C0: u64 = 200_000;
pub const BUDGET_C1: u64 = 4_000;
pub const BUDGET_C2: u64 = 8;

pub fn budget_for(n: u64) -> u64 {
    BUDGET_C0.saturating_add(BUDGET_C1.saturating_mul(n)).saturating_add(BUDGET_C2.saturating_mul(n).saturating_mul(n))
}

// ------------------------------------------------------------------------------------------------
// Worker (child process)
// ------------------------------------------------------------------------------------------------

struct CfgResult {
    cfg: usize,
    class: &'static str,
    detail: String,
    location: String,
    ticks: u64,
    loaded: usize,
    lexed: u64,
    /// tokens that left the preprocessor (site 6)
    pp_tokens: u64,
}

fn run_case_in_worker(case: &Case) -> Vec<CfgResult> {
    let mut out = Vec::new();
    let mut cfgs = configurations(case.text());
    if let Some(k) = case.max_configs {
        cfgs.truncate(k.max(1));
    }
    // upper bound for arming: all bytes that could possibly be loaded
    let arm = budget_for(case.files.total_len() as u64 + 64);
    for (i, cfg) in cfgs.iter().enumerate() {
        let mut opts = cfg.clone();
        opts.defines = case.defines.clone();
        opts.budget = arm;
        let (outcome, steps) = rs::compile_steps(&case.files, &case.entry, &opts);
        let (class, detail, location) = match &outcome {
            Outcome::Ok(p) => ("ok", format!("{}", p.len()), String::new()),
            Outcome::Diag(d) => {
                if d.is_empty() {
                    ("empty_diagnostic", String::new(), String::new())
                } else {
                    ("diagnostic", d.lines().next().unwrap_or("").chars().take(100).collect(), String::new())
                }
            }
            Outcome::Panic(c) => ("panic", c.signature(), c.location.clone()),
            Outcome::Budget { site, .. } => ("budget", format!("site{}", site), String::new()),
        };
        let front_end_budget = matches!(&outcome, Outcome::Budget { site, .. } if *site <= 17);
        out.push(CfgResult {
            cfg: i,
            class,
            detail,
            location,
            ticks: steps.ticks,
            loaded: steps.loaded_bytes,
            lexed: steps.sites.get(1).copied().unwrap_or(0),
            pp_tokens: steps.sites.get(6).copied().unwrap_or(0),
        });
        // the front end is shared by all configurations: once it has exhausted the step budget the other 23 runs would only
        // burn the same (large) number of steps again
        if front_end_budget {
            break;
        }
    }
    out
}

fn results_to_json(results: &[CfgResult]) -> Json {
    Json::Arr(
        results
            .iter()
            .map(|r| {
                Json::Arr(vec![
                    Json::from(r.cfg),
                    Json::str(r.class),
                    Json::str(&r.detail),
                    Json::str(&r.location),
                    Json::from(r.ticks),
                    Json::from(r.loaded),
                    Json::from(r.lexed),
                    Json::from(r.pp_tokens),
                ])
            })
            .collect(),
    )
}

pub fn worker_main(args: &[String]) {
    // args: c08 <seed>
    crate::par::install_panic_hook();
    let seed: u64 = args.get(1).and_then(|s| s.parse().ok()).unwrap_or(1);
    let corpus = Corpus::load();
    let stdin = std::io::stdin();
    let stdout = std::io::stdout();
    for line in stdin.lock().lines() {
        let Ok(line) = line else { break };
        let mut parts = line.splitn(2, ' ');
        let cmd = parts.next().unwrap_or("");
        let arg = parts.next().unwrap_or("");
        let case = match cmd {
            "RUN" => {
                let idx: u64 = arg.parse().unwrap_or(0);
                make_case(seed, idx, &corpus)
            }
            "FILE" => {
                let text = std::fs::read_to_string(arg).unwrap_or_default();
                match json::parse(&text) {
                    Ok(j) => Case::from_json(&j, &corpus),
                    Err(_) => continue,
                }
            }
            "QUIT" => break,
            _ => continue,
        };
        {
            let mut o = stdout.lock();
            let _ = writeln!(o, "BEGIN {}", arg);
            let _ = o.flush();
        }
        let results = run_case_in_worker(&case);
        let mut o = stdout.lock();
        let _ = writeln!(o, "END {}", results_to_json(&results).to_string_compact());
        let _ = o.flush();
    }
}

// ------------------------------------------------------------------------------------------------
// Parent: supervised worker
// ------------------------------------------------------------------------------------------------

struct Worker {
    child: Child,
    rx: mpsc::Receiver<String>,
    stderr_rx: mpsc::Receiver<String>,
}

enum Verdict {
    Done(Vec<CfgResult>),
    /// child died: (signal / exit description, stderr tail)
    Died(String, String),
    Watchdog,
    SpawnFailed(String),
}

const ADDRESS_SPACE_KB: u64 = 4 * 1024 * 1024;

impl Worker {
    fn spawn(seed: u64) -> Result<Worker, String> {
        let exe = std::env::current_exe().map_err(|e| e.to_string())?;
        // ulimit -v bounds memory blow-up; the worker's main thread keeps the default 8 MB stack
        let script = format!("ulimit -v {} 2>/dev/null; ulimit -s 8192 2>/dev/null; exec \"$0\" worker c08 {}", ADDRESS_SPACE_KB, seed);
        let mut child = Command::new("sh")
            .arg("-c")
            .arg(script)
            .arg(exe)
            .stdin(Stdio::piped())
            .stdout(Stdio::piped())
            .stderr(Stdio::piped())
            .spawn()
            .map_err(|e| e.to_string())?;
        let stdout = child.stdout.take().ok_or("no stdout")?;
        let stderr = child.stderr.take().ok_or("no stderr")?;
        let (tx, rx) = mpsc::channel();
        std::thread::spawn(move || {
            let reader = BufReader::new(stdout);
            for line in reader.lines() {
                match line {
                    Ok(l) => {
                        if tx.send(l).is_err() {
                            break;
                        }
                    }
                    Err(_) => break,
                }
            }
        });
        let (etx, stderr_rx) = mpsc::channel();
        std::thread::spawn(move || {
            let reader = BufReader::new(stderr);
            for line in reader.lines().map_while(Result::ok) {
                if etx.send(line).is_err() {
                    break;
                }
            }
        });
        Ok(Worker { child, rx, stderr_rx })
    }

    fn submit(&mut self, command: &str, timeout: Duration) -> Verdict {
        let Some(stdin) = self.child.stdin.as_mut() else { return Verdict::Died("no stdin".into(), String::new()) };
        if writeln!(stdin, "{}", command).is_err() || stdin.flush().is_err() {
            return self.died();
        }
        let deadline = std::time::Instant::now() + timeout;
        loop {
            let now = std::time::Instant::now();
            if now >= deadline {
                let _ = self.child.kill();
                let _ = self.child.wait();
                return Verdict::Watchdog;
            }
            match self.rx.recv_timeout(deadline - now) {
                Ok(line) => {
                    if let Some(rest) = line.strip_prefix("END ") {
                        return match json::parse(rest) {
                            Ok(j) => Verdict::Done(parse_results(&j)),
                            Err(e) => Verdict::Died(format!("bad worker output: {}", e), String::new()),
                        };
                    }
                }
                Err(mpsc::RecvTimeoutError::Timeout) => {}
                Err(mpsc::RecvTimeoutError::Disconnected) => return self.died(),
            }
        }
    }

    fn died(&mut self) -> Verdict {
        let status = self.child.wait();
        std::thread::sleep(Duration::from_millis(20));
        let mut tail = Vec::new();
        while let Ok(l) = self.stderr_rx.try_recv() {
            tail.push(l);
        }
        let tail = tail.join("\n");
        let desc = match status {
            Ok(s) => {
                use std::os::unix::process::ExitStatusExt;
                if let Some(sig) = s.signal() {
                    format!("signal {}", sig)
                } else {
                    format!("exit {}", s.code().unwrap_or(-1))
                }
            }
            Err(e) => format!("wait failed: {}", e),
        };
        Verdict::Died(desc, tail)
    }

    fn shutdown(mut self) {
        if let Some(stdin) = self.child.stdin.as_mut() {
            let _ = writeln!(stdin, "QUIT");
        }
        drop(self.child.stdin.take());
        let _ = self.child.wait();
    }
}

fn parse_results(j: &Json) -> Vec<CfgResult> {
    let mut out = Vec::new();
    if let Some(a) = j.as_arr() {
        for r in a {
            if let Some(r) = r.as_arr() {
                if r.len() >= 8 {
                    let class: &'static str = match r[1].as_str().unwrap_or("") {
                        "ok" => "ok",
                        "diagnostic" => "diagnostic",
                        "empty_diagnostic" => "empty_diagnostic",
                        "panic" => "panic",
                        "budget" => "budget",
                        _ => "unknown",
                    };
                    out.push(CfgResult {
                        cfg: r[0].as_i64().unwrap_or(0) as usize,
                        class,
                        detail: r[2].as_str().unwrap_or("").to_string(),
                        location: r[3].as_str().unwrap_or("").to_string(),
                        ticks: r[4].as_i64().unwrap_or(0) as u64,
                        loaded: r[5].as_i64().unwrap_or(0) as usize,
                        lexed: r[6].as_i64().unwrap_or(0) as u64,
                        pp_tokens: r[7].as_i64().unwrap_or(0) as u64,
                    });
                }
            }
        }
    }
    out
}

/// Classify an abort by what the input looks like, so that "stack overflow on absurdly deep nesting"
/// (a recorded finding) is told apart from a stack overflow on an ordinary input (a new violation).
fn abort_signature(desc: &str, stderr: &str, text: &str, include_cycle: bool) -> String {
    let what = if stderr.contains("overflowed its stack") {
        "stack-overflow".to_string()
    } else if stderr.contains("memory allocation") || stderr.contains("out of memory") || stderr.contains("capacity overflow") {
        "allocation-failure".to_string()
    } else {
        desc.to_string()
    };
    let depth = soup::nesting_depth(text);
    let shape = if huge_bind_group(text) {
        "huge-bind-group-index"
    } else if self_containing_struct(text) {
        "self-containing-struct"
    } else if include_cycle {
        "include-cycle"
    } else if depth > 400 {
        "nesting>400"
    } else {
        "ordinary-input"
    };
    // under the memory limit of the workers the abort of a failed allocation may not even get its message out
    let what = if shape == "huge-bind-group-index" && what == "signal 6" { "allocation-failure".to_string() } else { what };
    format!("abort:{}:{}", what, shape)
}

/// A bind group / register space index of six or more digits: bind groups are kept in vectors indexed by the group, so such
/// an input costs time and memory proportional to the *value* written (recorded finding)
fn huge_bind_group(text: &str) -> bool {
    for key in ["space", "bind_group(", "DefaultBindGroup"] {
        let mut rest = text;
        while let Some(i) = rest.find(key) {
            rest = &rest[i + key.len()..];
            let lit: String = rest.trim_start_matches(|c: char| c == ' ' || c == '=' || c == '(').chars().take_while(|c| c.is_ascii_alphanumeric()).collect();
            let lower = lit.to_ascii_lowercase();
            let huge = match lower.strip_prefix("0x") {
                Some(hex) => hex.chars().take_while(|c| c.is_ascii_hexdigit()).count() >= 5,
                None => lower.chars().take_while(|c| c.is_ascii_digit()).count() >= 6,
            };
            if huge {
                return true;
            }
        }
    }
    false
}

/// `struct S { ... S ... }`: a struct whose body mentions its own name as a member type (infinitely large; recorded finding)
fn self_containing_struct(text: &str) -> bool {
    let mut rest = text;
    while let Some(i) = rest.find("struct ") {
        rest = &rest[i + 7..];
        let name: String = rest.trim_start().chars().take_while(|c| c.is_alphanumeric() || *c == '_').collect();
        if name.is_empty() {
            continue;
        }
        let Some(open) = rest.find('{') else { break };
        // body up to the matching brace
        let mut depth = 0i32;
        let mut end = rest.len();
        for (k, c) in rest[open..].char_indices() {
            match c {
                '{' => depth += 1,
                '}' => {
                    depth -= 1;
                    if depth == 0 {
                        end = open + k;
                        break;
                    }
                }
                _ => {}
            }
        }
        let body = &rest[open + 1..end];
        let mut search = body;
        while let Some(j) = search.find(&name) {
            let before = search[..j].chars().last();
            let after = search[j + name.len()..].chars().next();
            let word = |c: Option<char>| c.map(|c| c.is_alphanumeric() || c == '_').unwrap_or(false);
            if !word(before) && !word(after) {
                return true;
            }
            search = &search[j + name.len()..];
        }
    }
    false
}

fn budget_signature(detail: &str, text: &str) -> String {
    if soup::castlike_prefixes(text) > CAST_CAP {
        format!("budget:{}:castlike>{}", detail, CAST_CAP)
    } else if soup::nesting_depth(text) > GRAMMAR_NEST {
        format!("budget:{}:nesting>{}", detail, GRAMMAR_NEST)
    } else {
        format!("budget:{}", detail)
    }
}

/// `#include` cycle among the files of the case (the include graph is read with a plain text scan)
fn has_include_cycle(case: &Case) -> bool {
    fn includes(text: &str) -> Vec<String> {
        let mut out = Vec::new();
        for line in text.lines() {
            let l = line.trim_start();
            if let Some(rest) = l.strip_prefix('#') {
                let rest = rest.trim_start();
                if let Some(rest) = rest.strip_prefix("include") {
                    let rest = rest.trim();
                    if rest.len() >= 2 {
                        let name: String = rest[1..].chars().take_while(|c| *c != '"' && *c != '>').collect();
                        out.push(name);
                    }
                }
            }
        }
        out
    }
    fn visit(case: &Case, name: &str, stack: &mut Vec<String>, depth: usize) -> bool {
        if stack.iter().any(|s| s == name) {
            return true;
        }
        if depth > 64 {
            return false;
        }
        let Some(text) = case.files.0.iter().find(|f| f.0 == name).map(|f| f.1.as_str()) else { return false };
        if text.contains("#pragma once") {
            return false;
        }
        stack.push(name.to_string());
        for inc in includes(text) {
            let resolved = rs::minipath_join(name, &inc).unwrap_or(inc.clone());
            let target = if case.files.0.iter().any(|f| f.0 == resolved) { resolved } else { inc };
            if visit(case, &target, stack, depth + 1) {
                return true;
            }
        }
        stack.pop();
        false
    }
    visit(case, &case.entry, &mut Vec::new(), 0)
}

fn examine(case: &Case, verdict: Verdict, report: &mut Report, case_json: &dyn Fn() -> Json) {
    let text = case.text();
    let cfgs = configurations(text);
    let kind_class = case.kind.split(':').next().unwrap_or("").to_string();
    report.count(&format!("input:{}", kind_class));
    match verdict {
        Verdict::Done(results) => {
            let mut past_lexer = false;
            for r in &results {
                report.evaluations += 1;
                report.count(&format!("outcome:{}", r.class));
                let cfg = cfgs.get(r.cfg);
                // input size: bytes loaded plus tokens that left the preprocessor (legal macro fan-out is charged to the input)
                let n = r.loaded as u64 + r.pp_tokens + 64;
                // ratios for calibration / evidence
                report.max("max:ticks", r.ticks);
                if r.loaded > 0 {
                    report.max("max:ticks_per_loaded_byte_x100", r.ticks * 100 / n);
                    report.max("max:ticks_per_loaded_byte_squared_x1000", r.ticks * 1000 / (n * n));
                }
                match r.class {
                    "ok" => {
                        past_lexer = true;
                        report.count(&format!("ok:{}", cfg.map(|c| c.target.name()).unwrap_or("?")));
                    }
                    "diagnostic" => {
                        let stage = diag_stage(&r.detail);
                        report.count(&format!("diag:{}", stage));
                        if stage != "lex" && stage != "preprocess" {
                            past_lexer = true;
                        }
                    }
                    "empty_diagnostic" => {
                        let w = case_json().set("opts", cfg.map(|c| c.to_json()).unwrap_or(Json::Null));
                        report.violation("empty-diagnostic", "compile returned an error that renders as an empty string", w);
                    }
                    "panic" => {
                        past_lexer = true;
                        let sig = format!("panic:{}", r.detail);
                        let w = case_json().set("opts", cfg.map(|c| c.to_json()).unwrap_or(Json::Null)).set("panic_location", &r.location).set("panic", &r.detail);
                        report.violation(&sig, &format!("compile panicked at {} ({}) on a {} input", r.location, r.detail, case.kind), w);
                    }
                    "budget" => {
                        let sig = budget_signature(&r.detail, text);
                        let w = case_json().set("opts", cfg.map(|c| c.to_json()).unwrap_or(Json::Null)).set("ticks", r.ticks).set("loaded_bytes", r.loaded);
                        report.violation(&sig, &format!("step budget exceeded ({} ticks, {} bytes loaded) on a {} input", r.ticks, r.loaded, case.kind), w);
                    }
                    _ => report.inconclusive("worker reported an unknown outcome class"),
                }
                // polynomial bound on the steps actually used (the armed budget is only an upper bound)
                if r.class != "budget" && r.ticks > budget_for(n) {
                    let sig = budget_signature("poly", text);
                    let w = case_json().set("opts", cfg.map(|c| c.to_json()).unwrap_or(Json::Null)).set("ticks", r.ticks).set("loaded_bytes", r.loaded);
                    report.violation(&sig, &format!("{} logical steps for {} loaded bytes exceeds the budget {}", r.ticks, r.loaded, budget_for(n)), w);
                }
            }
            if past_lexer {
                report.distinct(hash_str(text) ^ hash_str(&case.entry));
            }
            if report.want_sample() && past_lexer {
                let classes: Vec<String> = results.iter().map(|r| r.class.to_string()).collect();
                let shown: String = text.chars().take(400).collect();
                report.sample(Json::obj().set("kind", &case.kind).set("input_prefix", shown).set("input_bytes", text.len()).set("outcomes_per_configuration", Json::from(classes)));
            }
        }
        Verdict::Died(desc, stderr) => {
            report.evaluations += 1;
            report.count("outcome:abort");
            let sig = abort_signature(&desc, &stderr, text, has_include_cycle(case));
            let tail: String = stderr.lines().rev().take(3).collect::<Vec<_>>().join(" | ");
            report.violation(&sig, &format!("worker process died ({}) while compiling a {} input: {}", desc, case.kind, tail), case_json().set("died", desc).set("stderr", tail));
        }
        Verdict::Watchdog => {
            report.evaluations += 1;
            report.count("outcome:watchdog");
            let sig = if huge_bind_group(text) { "watchdog:huge-bind-group-index" } else { "watchdog" };
            report.violation(sig, &format!("no result within the wall-clock limit for a {} input ({} bytes)", case.kind, text.len()), case_json());
        }
        Verdict::SpawnFailed(e) => report.inconclusive(&format!("cannot start worker: {}", e)),
    }
}

fn diag_stage(first_line: &str) -> &'static str {
    let l = first_line;
    if l.contains("metal generate") || l.contains("hlsl generate") || l.contains("format:") {
        "export"
    } else if l.contains("Shader does not contain") {
        "pipeline-selection"
    } else if l.contains("failed to parse") || l.contains("Unexpected") || l.contains("unexpected") || l.contains("Expected") || l.contains("expected") {
        "parse"
    } else if l.contains("preprocess") || l.contains("macro") || l.contains("#") || l.contains("include") || l.contains("Failed to load") {
        "preprocess"
    } else if l.contains("lex") || l.contains("Lex") || l.contains("token") {
        "lex"
    } else {
        "typer-or-other"
    }
}

const WATCHDOG: Duration = Duration::from_secs(60);
const WATCHDOG_RETRY: Duration = Duration::from_secs(120);

fn run_supervised<F>(ctx: &Ctx, seed: u64, n: u64, corpus: &Corpus, command_for: F) -> Report
where
    F: Fn(u64) -> (String, Case) + Sync,
{
    let next = AtomicU64::new(0);
    let mut total = Report::new();
    std::thread::scope(|scope| {
        let mut handles = Vec::new();
        for _ in 0..ctx.threads.max(1) {
            let next = &next;
            let command_for = &command_for;
            handles.push(scope.spawn(move || {
                let mut report = Report::new();
                let mut worker: Option<Worker> = None;
                loop {
                    if ctx.expired() {
                        break;
                    }
                    let idx = next.fetch_add(1, Ordering::Relaxed);
                    if idx >= n {
                        break;
                    }
                    let (command, case) = command_for(idx);
                    if worker.is_none() {
                        match Worker::spawn(seed) {
                            Ok(w) => worker = Some(w),
                            Err(e) => {
                                report.inconclusive(&format!("cannot start worker: {}", e));
                                break;
                            }
                        }
                    }
                    let mut verdict = worker.as_mut().unwrap().submit(&command, WATCHDOG);
                    if matches!(verdict, Verdict::Watchdog) {
                        // one firing is not a verdict: re-run alone with a longer limit
                        report.count("watchdog_first_firing");
                        match Worker::spawn(seed) {
                            Ok(mut w2) => {
                                verdict = w2.submit(&command, WATCHDOG_RETRY);
                                if !matches!(verdict, Verdict::Watchdog | Verdict::Died(..)) {
                                    w2.shutdown();
                                }
                            }
                            Err(e) => verdict = Verdict::SpawnFailed(e),
                        }
                        worker = None;
                    }
                    if matches!(verdict, Verdict::Died(..)) {
                        worker = None;
                    }
                    let cj = || case.to_json();
                    examine(&case, verdict, &mut report, &cj);
                    report.count("cases_run");
                }
                if let Some(w) = worker {
                    w.shutdown();
                }
                report
            }));
        }
        for h in handles {
            match h.join() {
                Ok(r) => total.merge(r),
                Err(_) => total.inconclusive("supervisor thread died"),
            }
        }
    });
    let _ = corpus;
    let run = total.counters.get("cases_run").copied().unwrap_or(0);
    if run < n {
        total.notes.push(format!("deadline reached: ran {} of {} planned inputs", run, n));
    }
    total
}

fn run(ctx: &Ctx) -> Report {
    let corpus = Corpus::load();
    let n = ctx.tier.pick(20_000, 600_000);
    let seed = ctx.seed;
    let mut report = run_supervised(ctx, seed, n, &corpus, |idx| (format!("RUN {}", idx), make_case(seed, idx, &corpus)));
    report.count_n("corpus_snippets_available", corpus.snippets.len() as u64);
    report.count_n("corpus_entry_files_available", corpus.sets.iter().map(|s| s.entries.len() as u64).sum());
    if corpus.snippets.len() < 50 {
        report.inconclusive("could not read the unit-test snippets from /repo");
    }
    if ctx.tier == Tier::Thorough {
        report.notes.push("thorough tier: same generators, 30x more inputs".into());
    }
    report
}

fn replay(ctx: &Ctx, witness: &Json) -> Report {
    let corpus = Corpus::load();
    let case = Case::from_json(witness, &corpus);
    let dir = crate::verif_dir().join("replays");
    let _ = std::fs::create_dir_all(&dir);
    let path = dir.join(format!("c08-replay-{}-{}.tmp", std::process::id(), hash_str(case.text())));
    if std::fs::write(&path, case.to_json().to_string_compact()).is_err() {
        let mut r = Report::new();
        r.inconclusive("cannot write replay scratch file");
        return r;
    }
    let mut one = ctx.clone();
    one.threads = 1;
    let cmd = format!("FILE {}", path.display());
    let report = run_supervised(&one, ctx.seed, 1, &corpus, |_| (cmd.clone(), case.clone()));
    let _ = std::fs::remove_file(&path);
    report
}

#[allow(dead_code)]

// ------------------------------------------------------------------------------------------------
// Witness minimiser (developer tool): `verif-harness c08min <replay.json>` prints a witness whose entry file is
// reduced by line and token deletion while one configuration still panics with the same signature.
// ------------------------------------------------------------------------------------------------

pub fn minimize_main(args: &[String]) {
    crate::par::install_panic_hook();
    let text = std::fs::read_to_string(&args[0]).expect("replay file");
    let j = crate::json::parse(&text).expect("json");
    let target = j.get_str("signature").unwrap_or("").to_string();
    let witness = j.get("witness").cloned().unwrap_or(Json::Null);
    let corpus = Corpus::load();
    let mut case = Case::from_json(&witness, &corpus);
    let want = target.strip_prefix("panic:").unwrap_or("").to_string();
    if want.is_empty() {
        eprintln!("only panic signatures can be minimised in process");
        std::process::exit(2);
    }
    let child = std::thread::Builder::new().stack_size(512 << 20).spawn(move || {
        let cfgs = configurations(case.text());
        let probe = |case: &Case, cfg: &Opts| -> bool {
            let mut opts = cfg.clone();
            opts.defines = case.defines.clone();
            opts.budget = budget_for(case.files.total_len() as u64 + 64);
            matches!(rs::compile_steps(&case.files, &case.entry, &opts).0, Outcome::Panic(c) if c.signature() == want)
        };
        let Some(ci) = cfgs.iter().position(|c| probe(&case, c)) else {
            eprintln!("the witness does not reproduce {}", want);
            std::process::exit(1);
        };
        let cfg = cfgs[ci].clone();
        let entry = case.entry.clone();
        let set_text = |case: &mut Case, t: &str| {
            for f in case.files.0.iter_mut() {
                if f.0 == entry {
                    f.1 = t.to_string();
                }
            }
        };
        // drop the other files when they are not needed
        let mut alone = case.clone();
        alone.files = Files::single(&case.entry, case.text());
        if probe(&alone, &cfg) {
            case = alone;
        }
        for pass in 0..2 {
            let mut units: Vec<String> = if pass == 0 { case.text().split_inclusive('\n').map(|l| l.to_string()).collect() } else { soup::coarse_tokens(case.text()) };
            let mut chunk = (units.len() / 2).max(1);
            loop {
                let mut i = 0;
                let mut removed_any = false;
                while i < units.len() {
                    let end = (i + chunk).min(units.len());
                    let mut candidate = units.clone();
                    candidate.drain(i..end);
                    let mut c2 = case.clone();
                    set_text(&mut c2, &candidate.concat());
                    if probe(&c2, &cfg) {
                        units = candidate;
                        case = c2;
                        removed_any = true;
                    } else {
                        i = end;
                    }
                }
                if chunk == 1 && !removed_any {
                    break;
                }
                if !removed_any {
                    chunk = (chunk / 2).max(1);
                }
            }
        }
        case.max_configs = Some(ci + 1);
        let mut j = case.to_json();
        j = j.set("kind", format!("minimised:{}", case.kind));
        println!("{}", Json::obj().set("signature", format!("panic:{}", want)).set("config", format!("{:?}", cfg.target)).set("config_index", ci).set("witness", j).to_string_compact());
    });
    child.expect("spawn").join().ok();
}

fn unused(_: Caught) {}
