//! C18 - targets agree on everything that is target independent.
//!
//! Differential monitor: the same input (one that does not mention the RSSL_TARGET_* macros) is compiled for
//! HlslForDirectX, HlslForVulkan, HlslForVulkan + buffer addresses and Msl, and the front end is run on its own
//! through the public stage APIs. The oracle is written from the property text:
//!
//!  (1) front end rejects  => all four configurations return exactly the front end's diagnostic text;
//!  (2) DirectX and Vulkan succeed or fail together (Vulkan + buffer addresses too, unless buffer addresses are involved);
//!  (3) DirectX and Vulkan sources are the same token sequence once binding annotations (`: register(..)`,
//!      `[[vk::binding(..)]]`) and `[[vk::...]]` attribute annotations are deleted; the Vulkan source with buffer addresses
//!      equals the Vulkan source once the buffer address lowering (inline descriptor block, `uint64_t` addresses,
//!      `vk::RawBufferLoad/Store`) is undone;
//!  (4) all targets report the same pipelines, stages (kind, thread group size), pipeline state and the same set of
//!      (binding name, descriptor kind, descriptor count) - static samplers and buffer addresses aside.
//!
//! Backend diagnostics (`metal generate: ...`, `hlsl generate: ...`) are target specific by nature: the target is left out
//! of the comparison and counted.
//!
//! The emitted texts are compared as token sequences produced by a small lexer of this file (not by rssl's parser), so
//! no location erasure is needed and a parser defect cannot mask a difference. Token equality is stronger than tree
//! equality: a Vulkan-only pair of parentheses would be reported too, which is what the property text demands
//! ("differ only in binding and attribute annotations and in how buffer addresses are lowered").

use crate::corpus;
use crate::gen::c18_gen;
use crate::json::Json;
use crate::par::{guard, Caught};
use crate::report::{Ctx, Report};
use crate::rng::{hash_str, Rng};
use crate::rs::{self, Files, FilesHandler, Mode, Opts, Outcome, Pipe, Tgt, ALL_TARGETS};
use crate::CheckDef;
use std::collections::BTreeSet;

pub fn def() -> CheckDef {
    CheckDef {
        id: "C18",
        salt: 0xC18,
        rule: "inputs that do not contain the text RSSL_TARGET_ (others are filtered out and counted): every RSSL snippet of the repository's unit \
               tests (no_pipeline mode), the entry files of tests/basic (all pipelines) and of tests/capsaicin + tests/ffx_fsr2 (no_pipeline), the stand-alone .rssl files of hlsl/tests and msl/tests, and \
               generated programs (gen::c18_gen: resources of every object kind that are really loaded/stored/sampled, buffer addresses through \
               parameters and locals, cbuffers, static samplers, bind groups, bindless arrays, helpers, conversion-heavy expression code, 0-4 \
               pipelines of kinds compute / vertex+pixel / mesh+pixel with per-primitive attributes / task+mesh with graphics state; modes all / \
               named / unknown name / no_pipeline; layout validation on or off; ~25 % broken on purpose: type, parse, preprocessor, pipeline and \
               static sampler errors, layout-inconsistent structs; one in five with the declarations in an included file). The generator never \
               names a global with a word the exporters have to rename (Buffer, vector, float16_t, ...): that family trips the recorded finding \
               KF-C18-1 (HLSL reports the renamed binding name, Metal the source name), whose witness is replayed on every run. Each input is compiled for DirectX, Vulkan, Vulkan+buffer_address and Msl and \
               the front end (preprocess, parse, type check, optional layout check) is run separately through the stage APIs with the HLSL and \
               the MSL predefined macros. Compared: front-end diagnostic == diagnostic of every target; DirectX/Vulkan verdicts; DirectX vs Vulkan \
               token sequences after deleting `: register(...)` and `[[vk::...]]` annotations (nothing else is stripped); Vulkan vs \
               Vulkan+buffer_address after undoing the documented lowering (InlineDescriptorN struct and g_inlineDescriptorN global removed, \
               `static [const] uint64_t X = g_inlineDescriptorN.X` == `(RW)ByteAddressBuffer X`, `vk::RawBufferLoad<T>(A + uint64_t(o), ..)` == \
               `A.Load<T>(o, ..)`, `uint64_t` may stand where the other side has `(RW)ByteAddressBuffer`); pipeline count, stage kinds and thread \
               group sizes (entry names among the HLSL flavours only), pipeline state, and the set of (binding name, descriptor kind, count) with \
               static samplers and (RW)BufferAddress bindings left out as the property says (slots and groups are target specific and not \
               compared). Backend diagnostics and panics exclude that target (counted). evaluations = compile() and front-end executions \
               observed; distinct_nontrivial = distinct (input, mode, layout flag) by content hash that reached a comparison",
        assumptions: &[
            "the token lexer of the check splits the emitted HLSL the way a C-family lexer does (identifiers, numbers, strings, single punctuation characters)",
            "which annotations count as `binding and attribute annotations` and what the buffer address lowering looks like is taken from the property text and the tests/basic/*.vk.hlsl golden files",
            "the front end verdict is computed through the public stage APIs with the predefined macros compile() documents (__HLSL_VERSION, RSSL_TARGET_HLSL, RSSL_TARGET_MSL)",
        ],
        min_distinct: (1500, 20000),
        deadline_s: (50.0, 540.0),
        run,
        replay,
    }
}

// ------------------------------------------------------------------------------------------------------------
// the front end on its own
// ------------------------------------------------------------------------------------------------------------

enum FrontVerdict {
    Accept,
    Reject(String),
    Panic(Caught),
}

/// preprocess + parse + type check (+ layout check) through the public stage APIs
fn front(files: &Files, entry: &str, defines: &[(String, String)], msl: bool, validate_layout: bool) -> FrontVerdict {
    let r = guard(|| {
        use rssl::text::CompileErrorExt;
        let mut sm = rssl::text::SourceManager::new();
        let mut handler = FilesHandler::new(files);
        let mut d: Vec<(&str, &str)> = vec![("__HLSL_VERSION", "2021"), ("RSSL_TARGET_HLSL", if msl { "0" } else { "1" }), ("RSSL_TARGET_MSL", if msl { "1" } else { "0" })];
        for (a, b) in defines {
            d.push((a.as_str(), b.as_str()));
        }
        let tokens = match rssl::preprocess::preprocess(entry, &mut sm, &mut handler, &d) {
            Ok(t) => t,
            Err(e) => return Err(format!("{}", e.display(&sm))),
        };
        let tokens = rssl::preprocess::prepare_tokens(&tokens);
        let ast = match rssl::parser::parse(&tokens) {
            Ok(m) => m,
            Err(e) => return Err(format!("{}", e.display(&sm))),
        };
        let ir = match rssl::typer::type_check(&ast) {
            Ok(m) => m,
            Err(e) => return Err(format!("{}", e.display(&sm))),
        };
        if validate_layout {
            if let Err(e) = rssl::ir::layout_checker::check_layout(&ir) {
                return Err(format!("{}", e.display(&sm)));
            }
        }
        Ok(())
    });
    match r {
        Ok(Ok(())) => FrontVerdict::Accept,
        Ok(Err(d)) => FrontVerdict::Reject(d),
        Err(c) => FrontVerdict::Panic(c),
    }
}

// ------------------------------------------------------------------------------------------------------------
// tokens of the emitted text
// ------------------------------------------------------------------------------------------------------------

pub fn lex(text: &str) -> Vec<String> {
    let b: Vec<char> = text.chars().collect();
    let mut out = Vec::new();
    let mut i = 0;
    while i < b.len() {
        let c = b[i];
        if c.is_whitespace() {
            i += 1;
        } else if c == '"' {
            let start = i;
            i += 1;
            while i < b.len() && b[i] != '"' {
                if b[i] == '\\' {
                    i += 1;
                }
                i += 1;
            }
            i = (i + 1).min(b.len());
            out.push(b[start..i].iter().collect());
        } else if c.is_ascii_digit() {
            // number: digits, letters, '.', and a sign directly after an exponent letter of a decimal literal
            let start = i;
            let hex = c == '0' && i + 1 < b.len() && (b[i + 1] == 'x' || b[i + 1] == 'X');
            while i < b.len() {
                let d = b[i];
                if d.is_ascii_alphanumeric() || d == '.' || d == '_' {
                    i += 1;
                } else if (d == '+' || d == '-') && !hex && i > start && (b[i - 1] == 'e' || b[i - 1] == 'E') && i + 1 < b.len() && b[i + 1].is_ascii_digit() {
                    i += 1;
                } else {
                    break;
                }
            }
            out.push(b[start..i].iter().collect());
        } else if c.is_alphabetic() || c == '_' {
            let start = i;
            while i < b.len() && (b[i].is_alphanumeric() || b[i] == '_') {
                i += 1;
            }
            out.push(b[start..i].iter().collect());
        } else {
            out.push(c.to_string());
            i += 1;
        }
    }
    out
}

fn is(t: &[String], i: usize, s: &str) -> bool {
    t.get(i).map(|x| x == s).unwrap_or(false)
}

/// index just after the bracket that closes the one at `open` (which must be `(`, `[`, `{` ); None when unbalanced
fn skip_group(t: &[String], open: usize) -> Option<usize> {
    let mut depth = 0i32;
    let mut i = open;
    while i < t.len() {
        match t[i].as_str() {
            "(" | "[" | "{" => depth += 1,
            ")" | "]" | "}" => {
                depth -= 1;
                if depth == 0 {
                    return Some(i + 1);
                }
            }
            _ => {}
        }
        i += 1;
    }
    None
}

/// index just after the `>` that closes the `<` at `open`
fn skip_angles(t: &[String], open: usize) -> Option<usize> {
    let mut depth = 0i32;
    let mut i = open;
    while i < t.len() {
        match t[i].as_str() {
            "<" => depth += 1,
            ">" => {
                depth -= 1;
                if depth == 0 {
                    return Some(i + 1);
                }
            }
            "(" | "[" | "{" => {
                i = skip_group(t, i)?;
                continue;
            }
            ";" | ")" | "}" => return None,
            _ => {}
        }
        i += 1;
    }
    None
}

#[derive(Default)]
struct Stripped {
    registers: u64,
    vk_bindings: u64,
    vk_offsets: u64,
    vk_other: Vec<String>,
}

/// Delete `: register ( ... )` and `[[ vk :: name ( ... ) ]]` - the binding and attribute annotations the property names. Nothing else.
fn strip_annotations(t: &[String], seen: &mut Stripped) -> Vec<String> {
    let mut out = Vec::with_capacity(t.len());
    let mut i = 0;
    while i < t.len() {
        if is(t, i, ":") && is(t, i + 1, "register") && is(t, i + 2, "(") {
            if let Some(end) = skip_group(t, i + 2) {
                seen.registers += 1;
                i = end;
                continue;
            }
        }
        if is(t, i, "[") && is(t, i + 1, "[") && is(t, i + 2, "vk") && is(t, i + 3, ":") && is(t, i + 4, ":") {
            // [[vk::name]] or [[vk::name(args)]]
            let name = t.get(i + 5).cloned().unwrap_or_default();
            let mut j = i + 6;
            if is(t, j, "(") {
                match skip_group(t, j) {
                    Some(end) => j = end,
                    None => {
                        out.push(t[i].clone());
                        i += 1;
                        continue;
                    }
                }
            }
            if is(t, j, "]") && is(t, j + 1, "]") {
                match name.as_str() {
                    "binding" => seen.vk_bindings += 1,
                    "offset" => seen.vk_offsets += 1,
                    _ => seen.vk_other.push(name),
                }
                i = j + 2;
                continue;
            }
        }
        out.push(t[i].clone());
        i += 1;
    }
    out
}

fn is_inline_descriptor_name(s: &str, prefix: &str) -> bool {
    s.strip_prefix(prefix).map(|d| !d.is_empty() && d.chars().all(|c| c.is_ascii_digit())).unwrap_or(false)
}

#[derive(Default)]
struct Lowering {
    inline_structs: u64,
    inline_globals: u64,
    address_globals: u64,
    raw_loads: u64,
    raw_stores: u64,
}

/// Undo the buffer address lowering of the Vulkan flavour (input: tokens with the annotations already stripped)
fn undo_buffer_address_lowering(t: &[String], seen: &mut Lowering) -> Result<Vec<String>, String> {
    let mut out: Vec<String> = Vec::with_capacity(t.len());
    let mut i = 0;
    while i < t.len() {
        // struct InlineDescriptorN { ... } ;
        if is(t, i, "struct") && t.get(i + 1).map(|n| is_inline_descriptor_name(n, "InlineDescriptor")).unwrap_or(false) && is(t, i + 2, "{") {
            let end = skip_group(t, i + 2).ok_or("unbalanced inline descriptor struct")?;
            if !is(t, end, ";") {
                return Err("inline descriptor struct is not followed by `;`".into());
            }
            seen.inline_structs += 1;
            i = end + 1;
            continue;
        }
        // ConstantBuffer < InlineDescriptorN > g_inlineDescriptorN ;
        if is(t, i, "ConstantBuffer")
            && is(t, i + 1, "<")
            && t.get(i + 2).map(|n| is_inline_descriptor_name(n, "InlineDescriptor")).unwrap_or(false)
            && is(t, i + 3, ">")
            && t.get(i + 4).map(|n| is_inline_descriptor_name(n, "g_inlineDescriptor")).unwrap_or(false)
            && is(t, i + 5, ";")
        {
            seen.inline_globals += 1;
            i += 6;
            continue;
        }
        // static [const] uint64_t X = g_inlineDescriptorN . X ;   ==>   uint64_t X ;
        if is(t, i, "static") {
            let mut j = i + 1;
            if is(t, j, "const") {
                j += 1;
            }
            if is(t, j, "uint64_t")
                && is(t, j + 2, "=")
                && t.get(j + 3).map(|n| is_inline_descriptor_name(n, "g_inlineDescriptor")).unwrap_or(false)
                && is(t, j + 4, ".")
                && t.get(j + 5) == t.get(j + 1)
                && is(t, j + 6, ";")
            {
                seen.address_globals += 1;
                out.push("uint64_t".into());
                out.push(t[j + 1].clone());
                out.push(";".into());
                i = j + 7;
                continue;
            }
        }
        // vk :: RawBufferLoad|RawBufferStore [< T >] ( A + uint64_t ( off ) [, rest] )   ==>   A . Load|Store [< T >] ( off [, rest] )
        if is(t, i, "vk") && is(t, i + 1, ":") && is(t, i + 2, ":") && (is(t, i + 3, "RawBufferLoad") || is(t, i + 3, "RawBufferStore")) {
            let method = if is(t, i + 3, "RawBufferLoad") { "Load" } else { "Store" };
            let mut j = i + 4;
            let mut targs: Vec<String> = Vec::new();
            if is(t, j, "<") {
                let end = skip_angles(t, j).ok_or("unbalanced template arguments of a raw buffer access")?;
                targs = t[j..end].to_vec();
                j = end;
            }
            if !is(t, j, "(") {
                return Err("raw buffer access without argument list".into());
            }
            let close = skip_group(t, j).ok_or("unbalanced argument list of a raw buffer access")?;
            // arguments (recursively lowered back)
            let inner = undo_buffer_address_lowering(&t[j + 1..close - 1], seen)?;
            // first argument = up to the first comma at depth 0
            let mut depth = 0i32;
            let mut first_end = inner.len();
            for (k, tok) in inner.iter().enumerate() {
                match tok.as_str() {
                    "(" | "[" | "{" => depth += 1,
                    ")" | "]" | "}" => depth -= 1,
                    "," if depth == 0 => {
                        first_end = k;
                        break;
                    }
                    _ => {}
                }
            }
            let first = &inner[..first_end];
            // the address argument ends with `+ uint64_t ( off )`: find the last depth-0 `+ uint64_t (` whose group closes the argument
            let mut split: Option<usize> = None;
            let mut depth = 0i32;
            for k in 0..first.len() {
                match first[k].as_str() {
                    "(" | "[" | "{" => depth += 1,
                    ")" | "]" | "}" => depth -= 1,
                    "+" if depth == 0 && is(first, k + 1, "uint64_t") && is(first, k + 2, "(") => {
                        if skip_group(first, k + 2) == Some(first.len()) {
                            split = Some(k);
                        }
                    }
                    _ => {}
                }
            }
            let split = split.ok_or("address argument of a raw buffer access is not of the form `A + uint64_t(offset)`")?;
            let address = &first[..split];
            let offset = &first[split + 3..first.len() - 1];
            if address.is_empty() {
                return Err("empty address in a raw buffer access".into());
            }
            if method == "Load" {
                seen.raw_loads += 1;
            } else {
                seen.raw_stores += 1;
            }
            // `.Load` binds tighter than the `+` of the lowered form: an address that is not a postfix expression (a cast, a
            // unary or binary operation) needs parentheses in the method form
            if is_postfix_expression(address) {
                out.extend_from_slice(address);
            } else {
                out.push("(".into());
                out.extend_from_slice(address);
                out.push(")".into());
            }
            out.push(".".into());
            out.push(method.into());
            out.extend(targs);
            out.push("(".into());
            out.extend_from_slice(offset);
            out.extend_from_slice(&inner[first_end..]);
            out.push(")".into());
            i = close;
            continue;
        }
        out.push(t[i].clone());
        i += 1;
    }
    Ok(out)
}

/// identifier or parenthesised group, followed by any number of `.name`, `::name`, `[..]`, `(..)`
fn is_postfix_expression(t: &[String]) -> bool {
    let ident = |s: &String| s.chars().next().map(|c| c.is_alphanumeric() || c == '_').unwrap_or(false);
    let mut i = match t.first() {
        Some(f) if f == "(" => match skip_group(t, 0) {
            Some(end) => end,
            None => return false,
        },
        Some(f) if ident(f) => 1,
        _ => return false,
    };
    while i < t.len() {
        match t[i].as_str() {
            "." if t.get(i + 1).map(ident).unwrap_or(false) => i += 2,
            ":" if is(t, i + 1, ":") && t.get(i + 2).map(ident).unwrap_or(false) => i += 3,
            "[" | "(" => match skip_group(t, i) {
                Some(end) => i = end,
                None => return false,
            },
            _ => return false,
        }
    }
    true
}

/// First position where the sequences differ. With `address_types`, `uint64_t` on the right may face `(RW)ByteAddressBuffer` on the left.
fn first_token_difference(a: &[String], b: &[String], address_types: bool, tolerated: &mut u64) -> Option<usize> {
    let n = a.len().min(b.len());
    for i in 0..n {
        if a[i] != b[i] {
            if address_types && b[i] == "uint64_t" && (a[i] == "ByteAddressBuffer" || a[i] == "RWByteAddressBuffer") {
                *tolerated += 1;
                continue;
            }
            return Some(i);
        }
    }
    if a.len() != b.len() {
        return Some(n);
    }
    None
}

fn context(t: &[String], at: usize) -> String {
    let lo = at.saturating_sub(10);
    let hi = (at + 10).min(t.len());
    let mut s = String::new();
    for (k, tok) in t[lo..hi].iter().enumerate() {
        if k > 0 {
            s.push(' ');
        }
        if lo + k == at {
            s.push_str(">>>");
        }
        s.push_str(tok);
        if lo + k == at {
            s.push_str("<<<");
        }
    }
    if at >= t.len() {
        s.push_str(" >>><end of text><<<");
    }
    s
}

/// Class of a token for signatures: keywords/types/punctuation verbatim, other identifiers and literals by kind
fn token_class(t: Option<&String>) -> String {
    let Some(t) = t else { return "<end>".into() };
    let c = t.chars().next().unwrap_or(' ');
    if c.is_ascii_digit() {
        return "<number>".into();
    }
    if c == '"' {
        return "<string>".into();
    }
    if c.is_alphabetic() || c == '_' {
        const WORDS: &[&str] = &[
            "vk", "register", "static", "const", "uint64_t", "uint", "int", "float", "half", "double", "bool", "struct", "ConstantBuffer", "ByteAddressBuffer", "RWByteAddressBuffer", "cbuffer",
            "return", "if", "for", "while", "void", "in", "out", "inout", "extern", "groupshared", "namespace", "template", "typename", "Load", "Store", "RawBufferLoad", "RawBufferStore",
        ];
        if WORDS.contains(&t.as_str()) {
            return t.clone();
        }
        return "<identifier>".into();
    }
    t.clone()
}

// ------------------------------------------------------------------------------------------------------------
// metadata
// ------------------------------------------------------------------------------------------------------------

struct Bindings {
    /// (name, kind, count) of every binding
    all: BTreeSet<(String, String, String)>,
    static_sampler_names: BTreeSet<String>,
}

fn bindings_of(p: &Pipe) -> Bindings {
    let mut all = BTreeSet::new();
    let mut static_sampler_names = BTreeSet::new();
    for g in &p.metadata.bind_groups {
        for b in &g.bindings {
            all.insert((b.name.clone(), format!("{:?}", b.descriptor_type), format!("{:?}", b.descriptor_count)));
            if b.static_sampler.is_some() {
                static_sampler_names.insert(b.name.clone());
            }
        }
    }
    Bindings { all, static_sampler_names }
}

fn is_address_kind(kind: &str) -> bool {
    kind == "BufferAddress" || kind == "RwBufferAddress"
}

fn is_backend_diagnostic(d: &str) -> bool {
    // the exporters' own diagnostics (rendered without a source location)
    d.contains("metal generate:") || d.contains("metal format:") || d.contains("hlsl generate:") || d.contains("hlsl format:") || d.contains("interpolator required by pixel stage has not been provided")
}

fn diag_class(d: &str) -> String {
    let first = d.lines().next().unwrap_or("");
    let msg = match first.find("error:") {
        Some(i) => &first[i + 6..],
        None => first,
    };
    let mut out = String::new();
    for c in msg.trim().chars() {
        if c == '\'' || c == '`' || c == '(' || c == ':' || c == '"' || c.is_ascii_digit() {
            break;
        }
        out.push(c);
    }
    out.trim().chars().take(48).collect()
}

// ------------------------------------------------------------------------------------------------------------
// one case
// ------------------------------------------------------------------------------------------------------------

pub struct Case {
    pub files: Files,
    pub entry: String,
    pub defines: Vec<(String, String)>,
    pub mode: Mode,
    pub validate_layout: bool,
    pub origin: String,
}

impl Case {
    fn witness(&self, observed: Json) -> Json {
        let mut w = Json::obj().set("origin", self.origin.as_str()).set("entry", self.entry.as_str()).set("mode", self.mode.name()).set("validate_layout", self.validate_layout);
        if self.files.total_len() <= 48 * 1024 {
            w.put("files", self.files.to_json());
        }
        w.put("defines", Json::Arr(self.defines.iter().map(|(a, b)| Json::Arr(vec![Json::str(a), Json::str(b)])).collect()));
        w.put("observed", observed);
        w
    }
    fn entry_text(&self) -> &str {
        self.files.0.iter().find(|f| f.0 == self.entry).map(|f| f.1.as_str()).unwrap_or("")
    }
    fn mentions(&self, needle: &str) -> bool {
        let entry = self.entry_text();
        if entry.contains(needle) {
            return true;
        }
        // anything the entry could include
        entry.contains("#include") && self.files.0.iter().any(|f| f.1.contains(needle))
    }
}

fn short(s: &str, n: usize) -> String {
    if s.len() <= n {
        s.to_string()
    } else {
        let mut end = n;
        while !s.is_char_boundary(end) {
            end -= 1;
        }
        format!("{}...", &s[..end])
    }
}

/// Returns true when the case reached a comparison
pub fn examine(case: &Case, report: &mut Report) -> bool {
    if case.mentions("RSSL_TARGET_") {
        report.count("filtered:mentions-RSSL_TARGET_");
        return false;
    }
    // ---- the four configurations -------------------------------------------------------------------------------
    let mut outcomes: Vec<(Tgt, Outcome)> = Vec::new();
    for t in ALL_TARGETS {
        let mut opts = Opts::new(t, case.mode.clone());
        opts.validate_layout = case.validate_layout;
        opts.defines = case.defines.clone();
        let o = rs::compile(&case.files, &case.entry, &opts);
        report.evaluations += 1;
        if let Outcome::Budget { .. } = o {
            report.count("skipped:step-budget");
            return false;
        }
        outcomes.push((t, o));
    }
    let get = |t: Tgt| -> &Outcome { &outcomes.iter().find(|(x, _)| *x == t).unwrap().1 };

    // ---- the front end on its own ------------------------------------------------------------------------------
    let fh = front(&case.files, &case.entry, &case.defines, false, case.validate_layout);
    let fm = front(&case.files, &case.entry, &case.defines, true, case.validate_layout);
    report.evaluations += 2;
    let fh_text = match &fh {
        FrontVerdict::Accept => None,
        FrontVerdict::Reject(d) => Some(d.clone()),
        FrontVerdict::Panic(c) => {
            // C08's business; every configuration shares the front end
            report.count(&format!("skipped:front-end-panic:{}", c.signature()));
            return false;
        }
    };
    let fm_text = match &fm {
        FrontVerdict::Accept => None,
        FrontVerdict::Reject(d) => Some(d.clone()),
        FrontVerdict::Panic(c) => {
            report.count(&format!("skipped:front-end-panic:{}", c.signature()));
            return false;
        }
    };
    if fh_text != fm_text {
        report.violation(
            "front-end-verdict-depends-on-target-macros",
            &format!("the front end gives different results under the HLSL and the MSL predefined macros although the input does not mention them ({})", case.origin),
            case.witness(Json::obj().set("front_hlsl", fh_text.clone().unwrap_or("accepted".into())).set("front_msl", fm_text.clone().unwrap_or("accepted".into()))),
        );
        return true;
    }

    // (1) rejected by the front end: the same diagnostic everywhere
    if let Some(expected) = &fh_text {
        report.count("front-end:rejected");
        report.count(&format!("rejected:{}", diag_class(expected)));
        for (t, o) in &outcomes {
            match o {
                Outcome::Diag(d) if d == expected => report.count("front-diagnostic:identical"),
                Outcome::Diag(d) => report.violation(
                    &format!("front-diagnostic-differs:{}", t.name()),
                    &format!("{} reports a different diagnostic than the front end for a rejected input ({}): `{}` vs `{}`", t.name(), case.origin, short(d, 100), short(expected, 100)),
                    case.witness(Json::obj().set("target", t.name()).set("target_diagnostic", d.as_str()).set("front_end_diagnostic", expected.as_str())),
                ),
                Outcome::Ok(_) => report.violation(
                    &format!("front-verdict-differs:{}-accepts", t.name()),
                    &format!("{} accepts an input the front end rejects ({}): `{}`", t.name(), case.origin, short(expected, 100)),
                    case.witness(Json::obj().set("target", t.name()).set("front_end_diagnostic", expected.as_str())),
                ),
                Outcome::Panic(c) => report.count(&format!("skipped:panic:{}:{}", t.name(), c.signature())),
                Outcome::Budget { .. } => {}
            }
        }
        return true;
    }
    report.count("front-end:accepted");

    // ---- accepted by the front end -----------------------------------------------------------------------------
    // classify what each configuration did
    #[derive(PartialEq, Clone, Debug)]
    enum Class {
        Ok,
        /// target independent diagnostic after the front end (pipeline selection)
        Shared(String),
        Backend(String),
        Panic(String),
    }
    let mut classes: Vec<(Tgt, Class)> = Vec::new();
    for (t, o) in &outcomes {
        let c = match o {
            Outcome::Ok(_) => Class::Ok,
            Outcome::Diag(d) if is_backend_diagnostic(d) => Class::Backend(d.clone()),
            Outcome::Diag(d) => Class::Shared(d.clone()),
            Outcome::Panic(c) => Class::Panic(c.signature()),
            Outcome::Budget { .. } => unreachable!(),
        };
        match &c {
            Class::Ok => report.count(&format!("outcome:{}:ok", t.name())),
            Class::Shared(d) => report.count(&format!("outcome:{}:diagnostic:{}", t.name(), diag_class(d))),
            Class::Backend(d) => report.count(&format!("excluded:{}:backend-diagnostic:{}", t.name(), short(d.lines().next().unwrap_or("").trim_start_matches("error: "), 60))),
            Class::Panic(s) => report.count(&format!("excluded:{}:panic:{}", t.name(), s)),
        }
        classes.push((t.clone(), c));
    }
    let class_of = |t: Tgt| -> &Class { &classes.iter().find(|(x, _)| *x == t).unwrap().1 };

    // target independent verdict: among the configurations that did not stop in their own backend, all succeed or all report the same text
    {
        let comparable: Vec<&(Tgt, Class)> = classes.iter().filter(|(_, c)| matches!(c, Class::Ok | Class::Shared(_))).collect();
        if let Some(first) = comparable.first() {
            for other in &comparable[1..] {
                if other.1 != first.1 {
                    let text = |c: &Class| match c {
                        Class::Ok => "succeeds".to_string(),
                        Class::Shared(d) => format!("reports `{}`", short(d, 100)),
                        _ => String::new(),
                    };
                    report.violation(
                        &format!("verdict-differs:{}-{}", first.0.name(), other.0.name()),
                        &format!("after an accepted front end {} {} but {} {} ({})", first.0.name(), text(&first.1), other.0.name(), text(&other.1), case.origin),
                        case.witness(Json::obj().set("first", format!("{:?}", first.1)).set("second", format!("{:?}", other.1))),
                    );
                }
            }
            if let Class::Shared(_) = first.1 {
                report.count("shared-diagnostic:compared");
            }
        }
    }

    // (2) DirectX and Vulkan succeed or fail together
    {
        let (dx, vk, vkba) = (class_of(Tgt::Dx), class_of(Tgt::Vk), class_of(Tgt::VkBa));
        let ok = |c: &Class| matches!(c, Class::Ok);
        if ok(dx) != ok(vk) {
            let failing = if ok(dx) { vk } else { dx };
            let what = match failing {
                Class::Backend(d) | Class::Shared(d) => format!("diagnostic:{}", diag_class(d)),
                Class::Panic(s) => format!("panic:{}", s),
                Class::Ok => String::new(),
            };
            report.violation(
                &format!("dx-vk-verdict:{}", what),
                &format!("DirectX {} but Vulkan {} ({})", if ok(dx) { "succeeds" } else { "fails" }, if ok(vk) { "succeeds" } else { "fails" }, case.origin),
                case.witness(Json::obj().set("directx", format!("{:?}", dx)).set("vulkan", format!("{:?}", vk))),
            );
        } else {
            report.count("dx-vk-verdict:same");
        }
        if ok(vk) != ok(vkba) {
            if case.mentions("BufferAddress") {
                // "unless the difference is about buffer addresses"
                report.count("vk-vkba-verdict:differs-with-buffer-addresses-in-the-input(tolerated)");
            } else {
                report.violation(
                    "vk-vkba-verdict",
                    &format!("Vulkan and Vulkan+buffer_address do not succeed or fail together although the input has no buffer address ({})", case.origin),
                    case.witness(Json::obj().set("vulkan", format!("{:?}", vk)).set("vulkan_buffer_address", format!("{:?}", vkba))),
                );
            }
        } else {
            report.count("vk-vkba-verdict:same");
        }
    }

    // (3) sources
    let pipes = |t: Tgt| -> Option<&Vec<Pipe>> { get(t).ok() };
    let mut compared_any = matches!(classes.iter().filter(|(_, c)| matches!(c, Class::Ok | Class::Shared(_))).count(), 2..);
    if let (Some(dx), Some(vk)) = (pipes(Tgt::Dx), pipes(Tgt::Vk)) {
        if dx.len() == vk.len() {
            for (i, (a, b)) in dx.iter().zip(vk.iter()).enumerate() {
                let (mut sa, mut sb) = (Stripped::default(), Stripped::default());
                let ta = strip_annotations(&lex(&a.source), &mut sa);
                let tb = strip_annotations(&lex(&b.source), &mut sb);
                report.count_n("stripped:dx:register-annotations", sa.registers);
                report.count_n("stripped:vk:vk::binding", sb.vk_bindings);
                report.count_n("stripped:dx:vk-attributes(unexpected)", sa.vk_bindings + sa.vk_offsets + sa.vk_other.len() as u64);
                report.count_n("stripped:vk:register-annotations(unexpected)", sb.registers);
                for n in &sb.vk_other {
                    report.count(&format!("stripped:vk:vk::{}", n));
                }
                let mut zero = 0;
                match first_token_difference(&ta, &tb, false, &mut zero) {
                    None => {
                        report.count("source:dx-vk:equal-after-stripping");
                        report.count_n("source:dx-vk:tokens-compared", ta.len() as u64);
                    }
                    Some(at) => report.violation(
                        &format!("source-dx-vk:{}|{}", token_class(ta.get(at)), token_class(tb.get(at))),
                        &format!("DirectX and Vulkan sources differ outside binding/attribute annotations ({}, pipeline {}): `{}` vs `{}`", case.origin, i, context(&ta, at), context(&tb, at)),
                        case.witness(Json::obj().set("pipeline", i).set("directx_context", context(&ta, at)).set("vulkan_context", context(&tb, at)).set("directx_source", a.source.as_str()).set("vulkan_source", b.source.as_str())),
                    ),
                }
            }
            compared_any = true;
        }
    }
    if let (Some(vk), Some(ba)) = (pipes(Tgt::Vk), pipes(Tgt::VkBa)) {
        if vk.len() == ba.len() {
            for (i, (a, b)) in vk.iter().zip(ba.iter()).enumerate() {
                let (mut sa, mut sb) = (Stripped::default(), Stripped::default());
                let ta = strip_annotations(&lex(&a.source), &mut sa);
                let tb = strip_annotations(&lex(&b.source), &mut sb);
                report.count_n("stripped:vkba:vk::offset", sb.vk_offsets);
                let mut low = Lowering::default();
                match undo_buffer_address_lowering(&tb, &mut low) {
                    Err(why) => report.violation(
                        "source-vk-vkba:lowering-not-recognised",
                        &format!("the buffer address lowering of the Vulkan source has an unexpected shape ({}, pipeline {}): {}", case.origin, i, why),
                        case.witness(Json::obj().set("pipeline", i).set("why", why.as_str()).set("vulkan_source", a.source.as_str()).set("vulkan_buffer_address_source", b.source.as_str())),
                    ),
                    Ok(tb) => {
                        report.count_n("lowering:inline-descriptor-structs", low.inline_structs);
                        report.count_n("lowering:inline-descriptor-globals", low.inline_globals);
                        report.count_n("lowering:address-globals", low.address_globals);
                        report.count_n("lowering:raw-loads", low.raw_loads);
                        report.count_n("lowering:raw-stores", low.raw_stores);
                        let mut tolerated = 0;
                        match first_token_difference(&ta, &tb, true, &mut tolerated) {
                            None => {
                                report.count("source:vk-vkba:equal-after-undoing-the-lowering");
                                report.count_n("lowering:address-type-tokens", tolerated);
                                if low.address_globals + low.raw_loads + low.raw_stores + tolerated > 0 {
                                    report.count("source:vk-vkba:with-buffer-addresses");
                                }
                            }
                            Some(at) => report.violation(
                                &format!("source-vk-vkba:{}|{}", token_class(ta.get(at)), token_class(tb.get(at))),
                                &format!("Vulkan sources with and without buffer addresses differ outside the address lowering ({}, pipeline {}): `{}` vs `{}`", case.origin, i, context(&ta, at), context(&tb, at)),
                                case.witness(
                                    Json::obj().set("pipeline", i).set("vulkan_context", context(&ta, at)).set("vulkan_buffer_address_context", context(&tb, at)).set("vulkan_source", a.source.as_str()).set("vulkan_buffer_address_source", b.source.as_str()),
                                ),
                            ),
                        }
                    }
                }
            }
        }
    }

    // (4) what every target reports
    let ok_targets: Vec<(Tgt, &Vec<Pipe>)> = ALL_TARGETS.iter().filter_map(|t| pipes(*t).map(|p| (*t, p))).collect();
    if let Some((rt, rp)) = ok_targets.first() {
        for (t, p) in &ok_targets[1..] {
            let pair = format!("{}-{}", rt.name(), t.name());
            if rp.len() != p.len() {
                report.violation(
                    &format!("pipeline-count:{}", pair),
                    &format!("{} returns {} pipelines, {} returns {} ({})", rt.name(), rp.len(), t.name(), p.len(), case.origin),
                    case.witness(Json::obj().set("first", rp.len()).set("second", p.len())),
                );
                continue;
            }
            report.count(&format!("reports-compared:{}", pair));
            for (i, (a, b)) in rp.iter().zip(p.iter()).enumerate() {
                // stages
                let stages = |x: &Pipe, names: bool| -> Vec<String> { x.stages.iter().map(|s| if names { format!("{:?} {} {:?}", s.stage, s.entry_point, s.thread_group_size) } else { format!("{:?} {:?}", s.stage, s.thread_group_size) }).collect() };
                let names = rt.is_hlsl() && t.is_hlsl();
                let (sa, sb) = (stages(a, names), stages(b, names));
                if sa != sb {
                    report.violation(
                        &format!("stages-differ:{}", pair),
                        &format!("pipeline {} has stages {:?} for {} but {:?} for {} ({})", i, sa, rt.name(), sb, t.name(), case.origin),
                        case.witness(Json::obj().set("pipeline", i).set("first", Json::from(sa.clone())).set("second", Json::from(sb.clone()))),
                    );
                } else {
                    report.count_n("stages:compared", sa.len() as u64);
                    for s in &a.stages {
                        report.count(&format!("stage:{:?}", s.stage));
                        if s.thread_group_size.is_some() {
                            report.count("stage:with-thread-group-size");
                        }
                    }
                }
                // pipeline state
                if a.pipeline_state != b.pipeline_state {
                    report.violation(
                        &format!("pipeline-state-differs:{}", pair),
                        &format!("pipeline {} has a different graphics state for {} and {} ({})", i, rt.name(), t.name(), case.origin),
                        case.witness(Json::obj().set("pipeline", i).set("first", a.pipeline_state.as_str()).set("second", b.pipeline_state.as_str())),
                    );
                } else if a.pipeline_state != "None" {
                    report.count("pipeline-state:compared(graphics)");
                } else {
                    report.count("pipeline-state:compared(none)");
                }
                // bindings
                let (ba, bb) = (bindings_of(a), bindings_of(b));
                // static samplers aside: a name any of the two marks as static sampler takes no part; buffer addresses aside
                let statics: BTreeSet<&String> = ba.static_sampler_names.iter().chain(bb.static_sampler_names.iter()).collect();
                let core = |x: &Bindings| -> BTreeSet<(String, String, String)> { x.all.iter().filter(|(n, k, _)| !statics.contains(n) && !is_address_kind(k)).cloned().collect() };
                let (ca, cb) = (core(&ba), core(&bb));
                if ca != cb {
                    let only_a: Vec<String> = ca.difference(&cb).map(|x| format!("{} {} {}", x.0, x.1, x.2)).collect();
                    let only_b: Vec<String> = cb.difference(&ca).map(|x| format!("{} {} {}", x.0, x.1, x.2)).collect();
                    let kind = ca.symmetric_difference(&cb).next().map(|x| x.1.clone()).unwrap_or_default();
                    // one recognisable class: a side reports `name_<digits>` (the name an exporter gave the global in its output) where
                    // the other side reports `name`
                    let renamed = |x: &BTreeSet<(String, String, String)>, y: &BTreeSet<(String, String, String)>| -> bool {
                        x.difference(y).all(|e| {
                            y.difference(x).any(|f| {
                                f.1 == e.1
                                    && f.2 == e.2
                                    && (f.0.strip_prefix(e.0.as_str()).or(e.0.strip_prefix(f.0.as_str()))).map(|r| r.len() > 1 && r.starts_with('_') && r[1..].chars().all(|c| c.is_ascii_digit())).unwrap_or(false)
                            })
                        })
                    };
                    let signature = if renamed(&ca, &cb) && renamed(&cb, &ca) {
                        let who = if rt.is_hlsl() != t.is_hlsl() { "hlsl-vs-msl" } else { "same-language" };
                        format!("bindings-differ:{}:exporter-reports-renamed-binding-name", who)
                    } else {
                        format!("bindings-differ:{}:{}", pair, kind)
                    };
                    report.violation(
                        &signature,
                        &format!("pipeline {}: only {} reports {:?}, only {} reports {:?} ({})", i, rt.name(), only_a, t.name(), only_b, case.origin),
                        case.witness(Json::obj().set("pipeline", i).set("only_first", Json::from(only_a)).set("only_second", Json::from(only_b))),
                    );
                } else {
                    report.count("bindings:sets-compared");
                    report.count_n("bindings:compared", ca.len() as u64);
                    for (_, k, _) in &ca {
                        report.count(&format!("binding-kind:{}", k));
                    }
                    if !statics.is_empty() {
                        report.count_n("bindings:static-samplers-set-aside", statics.len() as u64);
                    }
                    let addr = |x: &Bindings| -> BTreeSet<(String, String, String)> { x.all.iter().filter(|(_, k, _)| is_address_kind(k)).cloned().collect() };
                    let (aa, ab) = (addr(&ba), addr(&bb));
                    if !aa.is_empty() || !ab.is_empty() {
                        report.count(if aa == ab { "bindings:buffer-addresses-set-aside(equal anyway)" } else { "bindings:buffer-addresses-set-aside(different)" });
                    }
                }
            }
            compared_any = true;
        }
    }
    compared_any
}

// ------------------------------------------------------------------------------------------------------------
// workload
// ------------------------------------------------------------------------------------------------------------

enum Work {
    Snippet(usize),
    Corpus(usize, usize, bool),
    Generated(u64),
}

pub fn generated_case(seed: u64, index: u64) -> (Case, c18_gen::Program) {
    let mut rng = Rng::for_case(seed, 0x1801, index);
    let cfg = c18_gen::Config::default();
    let p = c18_gen::generate(&mut rng, &cfg);
    let mode = if p.pipelines.is_empty() {
        if rng.chance(4, 5) {
            Mode::NoPipeline
        } else {
            Mode::All
        }
    } else {
        match rng.below(10) {
            0..=5 => Mode::All,
            6 | 7 => Mode::Named(rng.pick(&p.pipelines).clone()),
            8 => Mode::Named("NoSuchPipeline".into()),
            _ => Mode::NoPipeline,
        }
    };
    let validate_layout = rng.chance(1, 2);
    // one in five: the declarations live in an included file (diagnostics then carry another file name)
    let files = if rng.chance(1, 5) && !p.text.starts_with("#if") {
        let (header, rest) = p.text.split_at(p.header_len);
        Files(vec![("main.rssl".to_string(), format!("#include \"shared/common.h\"\n{}", rest)), ("shared/common.h".to_string(), header.to_string())])
    } else {
        Files::single("main.rssl", &p.text)
    };
    let case = Case {
        files,
        entry: "main.rssl".into(),
        defines: Vec::new(),
        mode,
        validate_layout,
        origin: format!("gen::c18_gen:{}", index),
    };
    (case, p)
}

fn run(ctx: &Ctx) -> Report {
    let mut sets = corpus::load();
    // the stand-alone .rssl files of the exporter test suites
    {
        let mut files = Vec::new();
        let mut entries = Vec::new();
        for dir in ["hlsl/tests", "msl/tests"] {
            let Ok(rd) = std::fs::read_dir(corpus::repo_dir().join(dir)) else { continue };
            let mut paths: Vec<_> = rd.flatten().map(|e| e.path()).filter(|p| p.extension().map(|e| e == "rssl").unwrap_or(false)).collect();
            paths.sort();
            for p in paths {
                if let Ok(text) = std::fs::read_to_string(&p) {
                    let name = format!("{}/{}", dir, p.file_name().unwrap().to_string_lossy());
                    entries.push(name.clone());
                    files.push((name, text));
                }
            }
        }
        sets.push(corpus::CorpusSet {
            name: "exporter-tests".into(),
            files: Files(files),
            entries,
            defines: Vec::new(),
            has_pipelines: true,
        });
    }
    let snippets = corpus::test_snippets();
    let mut work: Vec<Work> = Vec::new();
    for (si, s) in sets.iter().enumerate() {
        for ei in 0..s.entries.len() {
            work.push(Work::Corpus(si, ei, false));
            if s.has_pipelines {
                work.push(Work::Corpus(si, ei, true));
            }
        }
    }
    let generated = ctx.tier.pick(24_000, 300_000);
    // interleave so that a deadline cuts all sources alike
    let mut gi = 0u64;
    let per_snippet = (generated / snippets.len().max(1) as u64).max(1);
    for i in 0..snippets.len() {
        work.push(Work::Snippet(i));
        for _ in 0..per_snippet {
            if gi < generated {
                work.push(Work::Generated(gi));
                gi += 1;
            }
        }
    }
    while gi < generated {
        work.push(Work::Generated(gi));
        gi += 1;
    }
    let seed = ctx.seed;
    let mut report = crate::par::run_cases(ctx, work.len() as u64, |index, report| {
        let (case, features, injected): (Case, Vec<String>, Option<&'static str>) = match &work[index as usize] {
            Work::Snippet(i) => (
                Case {
                    files: Files::single("main.rssl", &snippets[*i]),
                    entry: "main.rssl".into(),
                    defines: Vec::new(),
                    mode: Mode::NoPipeline,
                    validate_layout: i % 3 == 0,
                    origin: format!("unit-test-snippet:{}", i),
                },
                vec!["origin:unit-test-snippet".into()],
                None,
            ),
            Work::Corpus(si, ei, validate) => {
                let s = &sets[*si];
                (
                    Case {
                        files: s.files.clone(),
                        entry: s.entries[*ei].clone(),
                        defines: s.defines.clone(),
                        mode: if s.has_pipelines && s.files.0.iter().any(|f| f.0 == s.entries[*ei] && f.1.contains("Pipeline ")) { Mode::All } else { Mode::NoPipeline },
                        validate_layout: *validate,
                        origin: format!("corpus:{}:{}", s.name, s.entries[*ei]),
                    },
                    vec![format!("origin:corpus:{}", s.name)],
                    None,
                )
            }
            Work::Generated(i) => {
                let (case, p) = generated_case(seed, *i);
                let mut f = p.features;
                f.push("origin:generated".into());
                f.push(format!("mode:{}", case.mode.name().split(':').next().unwrap_or("")));
                f.push(format!("validate_layout:{}", case.validate_layout));
                (case, f, p.injected)
            }
        };
        if examine(&case, report) {
            let mut h = hash_str(&case.mode.name()).rotate_left(7) ^ (case.validate_layout as u64);
            if case.files.0.len() <= 4 {
                for f in &case.files.0 {
                    h ^= hash_str(&f.1).rotate_left((f.0.len() % 31) as u32);
                }
            } else {
                h ^= hash_str(case.entry_text()) ^ hash_str(&case.entry);
            }
            report.distinct(h);
            if case.files.0.len() == 2 {
                report.count("feature:declarations-in-included-file");
            }
            for f in features {
                report.count(&format!("feature:{}", f));
            }
            if let Some(i) = injected {
                report.count(&format!("injected:{}", i));
            }
            if report.want_sample() && index % 211 == 17 {
                report.sample(Json::obj().set("origin", case.origin.as_str()).set("mode", case.mode.name()).set("validate_layout", case.validate_layout).set("input_prefix", short(case.entry_text(), 1500)));
            }
        }
    });
    if snippets.len() < 50 {
        report.inconclusive("could not read the unit-test snippets from /repo");
    }
    // the comparisons the property is about must all have been exercised
    for key in ["source:dx-vk:equal-after-stripping", "source:vk-vkba:with-buffer-addresses", "front-diagnostic:identical", "bindings:sets-compared", "pipeline-state:compared(graphics)", "reports-compared:HlslForDirectX-Msl"] {
        if report.counters.get(key).copied().unwrap_or(0) < 20 && report.violations.is_empty() {
            report.inconclusive(&format!("comparison `{}` was exercised fewer than 20 times", key));
        }
    }
    report
}

fn replay(_ctx: &Ctx, witness: &Json) -> Report {
    let mut report = Report::new();
    let entry = witness.get_str("entry").unwrap_or("main.rssl").to_string();
    let mut defines = Vec::new();
    if let Some(d) = witness.get("defines").and_then(|d| d.as_arr()) {
        for kv in d {
            if let Some(kv) = kv.as_arr() {
                if kv.len() == 2 {
                    defines.push((kv[0].as_str().unwrap_or("").to_string(), kv[1].as_str().unwrap_or("").to_string()));
                }
            }
        }
    }
    let origin = witness.get_str("origin").unwrap_or("replay").to_string();
    let files = match witness.get("files") {
        Some(f) => Files::from_json(f),
        None => {
            let set = origin.split(':').nth(1).unwrap_or("");
            match corpus::load().into_iter().find(|s| s.name == set) {
                Some(s) => s.files,
                None => {
                    report.inconclusive("witness has no files and names no corpus set");
                    return report;
                }
            }
        }
    };
    let case = Case {
        files,
        entry,
        defines,
        mode: Mode::from_name(witness.get_str("mode").unwrap_or("all")),
        validate_layout: witness.get("validate_layout").and_then(|v| v.as_bool()).unwrap_or(false),
        origin,
    };
    examine(&case, &mut report);
    report
}
