//! C18 - not built yet
