//! C04 - not built yet
