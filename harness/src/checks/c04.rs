//! C04 - emitted DirectX HLSL is accepted by the front end and is a fixpoint.
//!
//! Differential monitor: T1 = compile(P, DirectX, no pipelines); compile(T1) must succeed, reproduce T1
//! byte for byte and put every resource on the same binding slot.

use crate::corpus;
use crate::gen::{decl, prog};
use crate::json::Json;
use crate::report::{Ctx, Report};
use crate::rng::{hash_str, Rng};
use crate::rs::{self, Files, Mode, Opts, Outcome, Tgt};
use crate::CheckDef;

pub fn def() -> CheckDef {
    CheckDef {
        id: "C04",
        salt: 0xC04,
        rule: "inputs: every entry file of the tests/ corpus (with its defines), every RSSL snippet of the repository's unit tests, generated \
               executable programs (gen::prog) and generated declaration programs (gen::decl: resources of every object kind, cbuffers, \
               register/space annotations, bind groups, static samplers, templates, enums, namespaces). For each accepted input P: \
               T1 = compile(P, HlslForDirectX, no_pipeline); T2 = compile(T1, ...) must exist, equal T1 byte for byte and report the same \
               (name, group, slot, type, count) bindings. evaluations = second-generation compiles observed; distinct_nontrivial = distinct \
               accepted inputs by content hash",
        assumptions: &["says nothing about DXC accepting T1: only rssl's own front end is available in the sandbox"],
        min_distinct: (300, 3000),
        deadline_s: (90.0, 900.0),
        run,
        replay,
    }
}

fn bindings_of(p: &rs::Pipe) -> Vec<String> {
    let mut out = Vec::new();
    for (gi, g) in p.metadata.bind_groups.iter().enumerate() {
        for b in &g.bindings {
            // the property speaks about slots: the emitted DirectX text legitimately lowers buffer addresses to byte buffers and
            // carries no bindless attribute, so descriptor type and the bindless flag are not compared
            out.push(format!("group{} {} {:?} count={:?}", gi, b.name, b.api_binding, b.descriptor_count));
        }
        if let Some(ic) = &g.inline_constants {
            out.push(format!("group{} inline {:?}", gi, ic));
        }
    }
    out
}

/// Class of a rejection message: text after "error:" up to the first quote/number
fn diag_class(d: &str, emitted: &str) -> String {
    let first = d.lines().next().unwrap_or("");
    // `a < b && c > (d)`: the parser tries template arguments followed by a call (a known, recorded defect of the parser)
    let located_line = d.lines().nth(1).map(|l| l.to_string());
    // an unlocated diagnostic: look at every line of the emitted text
    let candidates: Vec<String> = match located_line {
        Some(l) => vec![l],
        None => emitted.lines().map(|l| l.to_string()).collect(),
    };
    for src_line in &candidates {
        if (first.contains("failed to parse source") || first.contains("function call applied to non-function type") || first.contains("could not be evaluated as a constant expression"))
            && template_like(src_line) {
            return "template-argument-ambiguity".into();
        }
    }
    // the same reading produces other messages too (wrong element / argument counts, unknown overloads ...): it is that defect,
    // and only that, if the text is accepted once the `> (` of the located line can no longer be read as the end of a template
    // argument list (a unary plus in front of the parenthesis changes nothing else)
    if let Some(l) = d.lines().nth(1) {
        if template_like(l) && emitted.matches(l).count() == 1 {
            let cured_line = l.replace(" > (", " > +(");
            let cured = emitted.replacen(l, &cured_line, 1);
            if let Outcome::Ok(_) = rs::compile_text(&cured, &Opts::new(Tgt::Dx, Mode::NoPipeline)) {
                return "template-argument-ambiguity".into();
            }
        }
    }
    let msg = first.split("error:").nth(1).unwrap_or(first).trim();
    let mut out = String::new();
    for c in msg.chars() {
        if c == '\'' || c == '`' || c == '(' || c.is_ascii_digit() {
            break;
        }
        out.push(c);
    }
    if out.trim().is_empty() {
        // the message starts with a quoted name ('x' was not declared in this scope): the class is the text after it
        let mut rest = String::new();
        let mut quoted = false;
        for c in msg.chars() {
            if c == '\'' || c == '`' {
                quoted = !quoted;
                continue;
            }
            if !quoted {
                rest.push(c);
            }
        }
        return rest.trim().chars().take(60).collect();
    }
    out.trim().chars().take(60).collect()
}

pub fn examine(files: &Files, entry: &str, defines: &[(String, String)], origin: &str, report: &mut Report) -> bool {
    let mut opts = Opts::new(Tgt::Dx, Mode::NoPipeline);
    opts.defines = defines.to_vec();
    let first = rs::compile(files, entry, &opts);
    let p1 = match &first {
        Outcome::Ok(p) if p.len() == 1 => &p[0],
        Outcome::Ok(_) => return false,
        Outcome::Diag(_) => {
            report.count("input:rejected");
            return false;
        }
        Outcome::Panic(c) => {
            report.count(&format!("skipped:panic:{}", c.signature()));
            return false;
        }
        Outcome::Budget { .. } => {
            report.count("skipped:budget");
            return false;
        }
    };
    report.count("input:accepted");
    let t1 = p1.source.clone();
    let second = rs::compile_text(&t1, &Opts::new(Tgt::Dx, Mode::NoPipeline));
    report.evaluations += 1;
    let witness = |extra: Json| -> Json {
        let small = files.total_len() <= 32 * 1024;
        let mut w = Json::obj().set("origin", origin).set("entry", entry).set("first_generation", t1.as_str());
        if small {
            w.put("files", files.to_json());
        }
        w.put("defines", Json::Arr(defines.iter().map(|(a, b)| Json::Arr(vec![Json::str(a), Json::str(b)])).collect()));
        w.put("observed", extra);
        w
    };
    match &second {
        Outcome::Ok(p) if p.len() == 1 => {
            let t2 = &p[0].source;
            if *t2 != t1 {
                let (l1, l2) = first_difference(&t1, t2);
                let class = difference_class(&l1, &l2);
                report.violation(
                    &format!("not-a-fixpoint:{}", class),
                    &format!("second generation differs ({}): `{}` became `{}`", origin, l1.trim(), l2.trim()),
                    witness(Json::obj().set("line_first", l1).set("line_second", l2)),
                );
            } else {
                report.count("fixpoint:byte-identical");
            }
            let (b1, b2) = (bindings_of(p1), bindings_of(&p[0]));
            if b1 != b2 {
                report.violation(
                    "bindings-moved",
                    &format!("resources are on different slots after re-reading the emitted text ({})", origin),
                    witness(Json::obj().set("first", Json::from(b1)).set("second", Json::from(b2))),
                );
            } else if !b1.is_empty() {
                report.count("bindings:compared");
                report.count_n("bindings:resources", b1.len() as u64);
            }
        }
        Outcome::Ok(_) => report.inconclusive("no-pipeline mode returned several results"),
        Outcome::Diag(d) => {
            report.violation(
                &format!("emitted-rejected:{}", diag_class(d, &t1)),
                &format!("the emitted DirectX HLSL is not accepted by the front end ({}): {}", origin, d.lines().take(3).collect::<Vec<_>>().join(" | ")),
                witness(Json::obj().set("diagnostic", d.as_str())),
            );
        }
        Outcome::Panic(c) => {
            // the emitted text makes the front end panic: still "not accepted"
            report.violation(
                &format!("emitted-panics:{}", c.signature()),
                &format!("re-reading the emitted HLSL panics at {} ({})", c.location, origin),
                witness(Json::obj().set("panic", c.message.as_str()).set("location", c.location.as_str())),
            );
        }
        Outcome::Budget { .. } => report.count("skipped:budget-second"),
    }
    true
}

/// `x < ... > (`: a less-than, later a greater-than directly followed by an opening parenthesis
fn template_like(line: &str) -> bool {
    if let Some(lt) = line.find(" < ") {
        let rest = &line[lt + 3..];
        return rest.contains(" > (");
    }
    false
}

fn first_difference(a: &str, b: &str) -> (String, String) {
    let mut la = a.lines();
    let mut lb = b.lines();
    loop {
        match (la.next(), lb.next()) {
            (Some(x), Some(y)) if x == y => continue,
            (x, y) => return (x.unwrap_or("<end of text>").to_string(), y.unwrap_or("<end of text>").to_string()),
        }
    }
}

/// What kind of token differs on the first differing line
fn difference_class(a: &str, b: &str) -> String {
    // `const float f() { return 0; }`: the second generation adds a cast to the modified return type (recorded finding)
    for m in ["(const ", "(unorm ", "(snorm ", "(volatile ", "(row_major ", "(column_major "] {
        if b.contains(m) && !a.contains(m) {
            return "modifier-cast-inserted".into();
        }
    }
    let ta: Vec<&str> = a.split_whitespace().collect();
    let tb: Vec<&str> = b.split_whitespace().collect();
    for (x, y) in ta.iter().zip(&tb) {
        if x != y {
            let lit = |s: &str| s.trim_start_matches(|c: char| c == '(' || c == '-').chars().next().map(|c| c.is_ascii_digit()).unwrap_or(false);
            if lit(x) && lit(y) {
                return "literal".into();
            }
            if x.contains("register") || y.contains("register") {
                return "register-annotation".into();
            }
            let ident = |s: &str| s.chars().next().map(|c| c.is_alphabetic() || c == '_').unwrap_or(false);
            if ident(x) && ident(y) {
                return "identifier".into();
            }
            return "tokens".into();
        }
    }
    if ta.len() != tb.len() {
        return "line-structure".into();
    }
    "layout".into()
}

enum Case {
    Corpus(usize, usize),
    Snippet(usize),
    Prog(u64),
    Decl(u64),
    Directed(usize),
}

fn run(ctx: &Ctx) -> Report {
    let sets = corpus::load();
    let snippets = corpus::test_snippets();
    let mut cases: Vec<Case> = Vec::new();
    for (si, s) in sets.iter().enumerate() {
        for ei in 0..s.entries.len() {
            cases.push(Case::Corpus(si, ei));
        }
    }
    for i in 0..snippets.len() {
        cases.push(Case::Snippet(i));
    }
    for i in 0..ctx.tier.pick(1500, 30_000) {
        cases.push(Case::Prog(i));
    }
    for i in 0..ctx.tier.pick(1500, 30_000) {
        cases.push(Case::Decl(i));
    }
    let mut directed = crate::checks::c01::scoping_programs();
    // double precision constants with full 16-17 digit mantissas (what the exporters themselves print for an arbitrary double):
    // reading the emitted literal back must give the same double again
    for block in 0..ctx.tier.pick(8, 64) {
        let mut rng = Rng::for_case(ctx.seed, 0x4d0b, block);
        let mut text = String::new();
        let mut sum = Vec::new();
        for i in 0..40 {
            let mantissa = 1.0 + (rng.next_u32() as f64 * 4294967296.0 + rng.next_u32() as f64) / 18446744073709551616.0;
            let exp = rng.below(61) as i32 - 30;
            let v = mantissa * 10f64.powi(exp) * if rng.chance(1, 4) { -1.0 } else { 1.0 };
            let lit = format!("{:e}", v);
            match i % 4 {
                0 => text.push_str(&format!("static const double kd{} = {}L;\n", i, lit)),
                1 => text.push_str(&format!("static const double kd{} = {}L;\n", i, { let t = format!("{}", v); if t.contains('.') { t } else { format!("{}.0", t) } })),
                2 => text.push_str(&format!("static const double kd{} = {} * 2.0;\n", i, lit)),
                _ => text.push_str(&format!("static const float kd{} = (float)({} / 3.0);\n", i, lit)),
            }
            sum.push(format!("(double)kd{}", i));
        }
        text.push_str(&format!("double total{}() {{ return {}; }}\n", block, sum.join(" + ")));
        directed.push(text);
    }
    // texture gather methods in every form the front end knows (colour channel x comparison x no / one / four offsets x status),
    // one program per call: what the exporter writes for an intrinsic has to be a call the front end resolves again
    for (tex, coord) in [("Texture2D<float4> tex;", "float2 uv"), ("Texture2DArray<float4> tex;", "float3 uv")] {
        for channel in ["", "Red", "Green", "Blue", "Alpha"] {
            for cmp in [false, true] {
                for offsets in [0usize, 1, 4] {
                    for status in [false, true] {
                        let method = format!("Gather{}{}", if cmp { "Cmp" } else { "" }, channel);
                        let mut args = vec![if cmp { "cs".to_string() } else { "ss".to_string() }, "uv".to_string()];
                        if cmp {
                            args.push("0.5f".to_string());
                        }
                        for k in 0..offsets {
                            args.push(format!("int2({}, {})", k % 2, k / 2));
                        }
                        if status {
                            args.push("st".to_string());
                        }
                        directed.push(format!(
                            "{}\nSamplerState ss;\nSamplerComparisonState cs;\nfloat4 g({})\n{{\n    uint st;\n    return tex.{}({});\n}}\n",
                            tex,
                            coord,
                            method,
                            args.join(", ")
                        ));
                    }
                }
            }
        }
    }
    for i in 0..directed.len() {
        cases.push(Case::Directed(i));
    }
    let seed = ctx.seed;
    let mut report = crate::par::run_cases(ctx, cases.len() as u64, |index, report| {
        let (files, entry, defines, origin, features): (Files, String, Vec<(String, String)>, String, Vec<String>) = match &cases[index as usize] {
            Case::Corpus(si, ei) => {
                let s = &sets[*si];
                (s.files.clone(), s.entries[*ei].clone(), s.defines.clone(), format!("corpus:{}:{}", s.name, s.entries[*ei]), vec!["corpus".into()])
            }
            Case::Snippet(i) => (Files::single("main.rssl", &snippets[*i]), "main.rssl".into(), Vec::new(), format!("unit-test-snippet:{}", i), vec!["unit-test-snippet".into()]),
            Case::Prog(i) => {
                let mut rng = Rng::for_case(seed, 0x4001, *i);
                let p = prog::generate(&mut rng, prog::Config::default());
                (Files::single("main.rssl", &p.render()), "main.rssl".into(), Vec::new(), format!("gen::prog:{}", i), p.features.iter().map(|f| f.to_string()).collect())
            }
            Case::Directed(i) => (Files::single("main.rssl", &directed[*i]), "main.rssl".into(), Vec::new(), format!("directed:scoping:{}", i), vec!["directed-scoping".into()]),
            Case::Decl(i) => {
                let mut rng = Rng::for_case(seed, 0x4002, *i);
                let d = decl::generate(&mut rng, 10, 3);
                (Files::single("main.rssl", &d.text), "main.rssl".into(), Vec::new(), format!("gen::decl:{}", i), d.features.clone())
            }
        };
        if examine(&files, &entry, &defines, &origin, report) {
            let text = files.0.iter().find(|f| f.0 == entry).map(|f| f.1.as_str()).unwrap_or("");
            report.distinct(hash_str(text) ^ hash_str(&origin.split(':').next().unwrap_or("")));
            for f in features {
                report.count(&format!("feature:{}", f));
            }
            if report.want_sample() && index % 97 == 5 {
                report.sample(Json::obj().set("origin", origin).set("input_prefix", text.chars().take(600).collect::<String>()));
            }
        }
    });
    if snippets.len() < 50 {
        report.inconclusive("could not read the unit-test snippets from /repo");
    }
    report
}

fn replay(_ctx: &Ctx, witness: &Json) -> Report {
    let mut report = Report::new();
    let entry = witness.get_str("entry").unwrap_or("main.rssl").to_string();
    let mut defines = Vec::new();
    if let Some(d) = witness.get("defines").and_then(|d| d.as_arr()) {
        for kv in d {
            if let Some(kv) = kv.as_arr() {
                if kv.len() == 2 {
                    defines.push((kv[0].as_str().unwrap_or("").to_string(), kv[1].as_str().unwrap_or("").to_string()));
                }
            }
        }
    }
    let files = match witness.get("files") {
        Some(f) => Files::from_json(f),
        None => {
            // corpus witness: origin = corpus:<set>:<entry>
            let origin = witness.get_str("origin").unwrap_or("");
            let set = origin.split(':').nth(1).unwrap_or("");
            match corpus::load().into_iter().find(|s| s.name == set) {
                Some(s) => s.files,
                None => {
                    report.inconclusive("witness has no files and names no corpus set");
                    return report;
                }
            }
        }
    };
    examine(&files, &entry, &defines, witness.get_str("origin").unwrap_or("replay"), &mut report);
    report
}
