//! C10 - lexing is lossless and numeric literals are exact.
//!
//! Three runtime monitors over executions of the real lexer / compiler:
//!  1. tiling monitor: `preprocess_fragment` on generated directive-free texts; token spans must tile the file,
//!     re-emitting by span reproduces the bytes, `unlex` is the input minus splice backslashes plus the
//!     final newline, diagnostics of texts that fail to lex point inside the file;
//!  2. literal monitor: integer / floating spellings against the reference model in
//!     `oracle::c10_literal` (exact integers, nearest double, narrowed once for f / h);
//!  3. output leg: the literal inside a small program compiled to HLSL; the printed literal, re-read with the
//!     same reference model, must denote the same number in the declared type.

use crate::json::Json;
// the reference model lives in src/oracle/c10_literal.rs; included by path so that no other file of the harness has to change
#[path = "../oracle/c10_literal.rs"]
mod c10_literal;
use c10_literal::{self as lit, FloatSuffix, IntSuffix, Lit};
use crate::par::{self, Caught};
use crate::report::{Ctx, Report};
use crate::rng::{hash_str, Rng};
use crate::rs::{self, Mode, Opts, Outcome, Tgt};
use crate::CheckDef;
use rssl::text::tokens::Token;
use rssl::text::{CompileErrorExt, FileName, Locate, LocateEnd, SourceManager};

pub fn def() -> CheckDef {
    CheckDef {
        id: "C10",
        salt: 0xC10,
        rule: "case index i: i%16==0 -> text case, i%16==1 -> output case, otherwise literal case. \
               TEXT: 20-300 pieces drawn from every token kind (identifiers, all keywords and reserved words, every operator / bracket, \
               strings, int and float literals of every form incl. 1.#INF, `.x` swizzles glued to literals), separated by random blanks, tabs, \
               line and block comments (with quotes, '#', non-ASCII, backslash-newline inside), backslash-newline splices (also inside words, \
               numbers and operators), line endings \\n, \\r\\n or mixed, 0-2 other files registered first so the file base is not 0; never a '#' \
               first on a logical line (directive free) and never the identifier __HLSL_VERSION; 1 text in 4 additionally gets one malformed piece \
               (stray byte, bad float suffix, 2^64, unterminated string / comment, lone \\r) and no '#' at all after it. \
               LITERAL: decimal / hex / octal integers of 1-25 digits (random, leading zeros, and neighbours of 2^32, 2^63, 2^64, 10^19) with each of the \
               13 suffix spellings; floats `digits . digits e[+-]digits suffix` in every optional-part combination with <= 20 significant digits and \
               decimal magnitude in [-330, 310], always with a digit before the point (`.5` is open known finding KF-C10-3, probed by its witness) \
               (random digits; 17-20 digit truncations just below / above the midpoint of two adjacent doubles; the same \
               around midpoints of adjacent floats for f / h; boundary constants), placed between a random left and right neighbour (blank, `;`, `)`, \
               operator, comment, splice, line ending, `.x` swizzle). \
               OUTPUT: the literal (u-suffixed values <= 2^32-1 only: larger ones are open known finding KF-C10-2, probed by its witness) in `static const T c10_v = LIT;`, `T c10_f() { return LIT; }`, \
               `R c10_f(T c10_x) { return c10_x * LIT; }`, `static const T c10_v = LIT / 0.75;` for T in float half double int uint, optionally negated, \
               compiled with rs::compile(Tgt::Dx, Mode::NoPipeline). \
               evaluations = executions of preprocess_fragment / unlex / compile observed; distinct_nontrivial = distinct case texts (content hash) for \
               which the real code returned (tokens, a diagnostic, or HLSL) and the monitor reached a verdict",
        assumptions: &[
            "Rust's str::parse::<f64>() is correctly rounded; cross-checked on every generated float spelling against the big-integer conversion in oracle::c10_literal (a disagreement makes the run inconclusive)",
            "half constants are modelled as single precision values on both sides, as the property states (narrowed once to single precision for f and h)",
            "conversions the type checker applies to a literal are taken from C / HLSL: to unsigned modulo 2^32, to float round-to-nearest-even, float to int truncation when in range; out of range conversions to signed / from float are undecidable and skipped",
            "the harness build has debug assertions on: a lexer debug assertion that fires on an unterminated block comment hides the release behaviour of that one family (counted as skipped:panic, C08's business)",
        ],
        min_distinct: (200_000, 2_500_000),
        deadline_s: (55.0, 540.0),
        run,
        replay,
    }
}

const FILE_NAME: &str = "c10.rssl";

// ------------------------------------------------------------------------------------------------
// Observing the real lexer
// ------------------------------------------------------------------------------------------------

#[derive(Clone, Debug)]
struct Tok {
    token: Token,
    /// raw SourceLocation values
    start: u32,
    end: u32,
    /// file name + offset the SourceManager resolves the start / end location to
    start_file: Option<(String, u32)>,
    end_file: Option<(String, u32)>,
}

#[derive(Clone, Debug)]
enum Lexed {
    Tokens {
        tokens: Vec<Tok>,
        unlex: Result<String, Caught>,
    },
    LexError {
        reason: String,
        raw: u32,
        file: Option<(String, u32)>,
        rendered: Result<String, Caught>,
    },
    OtherError(String),
    Panic(Caught),
}

/// Run preprocess_fragment (and unlex) on `text` after registering `pre_files` other files. Returns the base location of the file too.
fn lex(text: &str, pre_files: &[String], report: &mut Report) -> (Lexed, u32) {
    let mut base: u32 = 0;
    for f in pre_files {
        base += f.len() as u32 + 1;
    }
    rssl::text::verif::reset(u64::MAX);
    report.evaluations += 1;
    let r = par::guard(|| {
        let mut sm = SourceManager::new();
        for f in pre_files {
            sm.add_fragment(f);
        }
        let resolve = |sm: &SourceManager, loc: rssl::text::SourceLocation| -> Option<(String, u32)> {
            sm.get_file_offset_from_source_location(loc).map(|(fid, off)| (sm.get_file_name(fid).to_string(), off.0))
        };
        match rssl::preprocess::preprocess_fragment(text, FileName(FILE_NAME.to_string()), &mut sm) {
            Ok(tokens) => {
                let mut toks = Vec::with_capacity(tokens.len());
                for t in &tokens {
                    let s = t.get_location();
                    let e = t.get_end_location();
                    toks.push(Tok {
                        token: t.0.clone(),
                        start: s.get_raw(),
                        end: e.get_raw(),
                        start_file: resolve(&sm, s),
                        end_file: resolve(&sm, e),
                    });
                }
                let unlex = par::guard(|| rssl::preprocess::unlex(&tokens, &sm));
                Lexed::Tokens { tokens: toks, unlex }
            }
            Err(rssl::preprocess::PreprocessError::LexerError(err)) => {
                let reason = format!("{:?}", err.reason);
                let raw = err.location.get_raw();
                let file = resolve(&sm, err.location);
                let whole = rssl::preprocess::PreprocessError::LexerError(err);
                let rendered = par::guard(|| format!("{}", whole.display(&sm)));
                Lexed::LexError { reason, raw, file, rendered }
            }
            Err(other) => {
                let rendered = par::guard(|| format!("{}", other.display(&sm))).unwrap_or_else(|c| format!("<rendering panicked: {}>", c.message));
                Lexed::OtherError(rendered)
            }
        }
    });
    match r {
        Ok(l) => (l, base),
        Err(c) => (Lexed::Panic(c), base),
    }
}

fn token_kind(t: &Token) -> String {
    let s = format!("{:?}", t);
    s.split(|c| c == '(' || c == ' ').next().unwrap_or("").to_string()
}

/// (signature, summary) of the first violation
type Fault = Option<(String, String)>;

fn fault(sig: &str, summary: String) -> Fault {
    Some((sig.to_string(), summary))
}

/// The tiling rules of the property, on what the lexer returned for `text` living at `base`
fn check_tiling(text: &str, base: u32, tokens: &[Tok], unlex: &Result<String, Caught>) -> Fault {
    let len = text.len() as u32;
    let bytes = text.as_bytes();
    if tokens.is_empty() {
        if len != 0 {
            return fault("tiling:no-tokens", format!("no tokens for a file of {} bytes", len));
        }
        return None;
    }
    let mut pos = base;
    let mut rebuilt: Vec<u8> = Vec::with_capacity(text.len());
    let mut unlex_model = String::with_capacity(text.len() + 1);
    for (i, t) in tokens.iter().enumerate() {
        if t.start == u32::MAX || t.end == u32::MAX {
            return fault("tiling:unlocated-token", format!("token #{} {:?} has no location", i, t.token));
        }
        if t.start != pos {
            let what = if i == 0 { "first token does not start at the file start" } else if t.start < pos { "token overlaps / precedes its predecessor" } else { "gap before token" };
            return fault(
                if i == 0 { "tiling:start" } else if t.start < pos { "tiling:order" } else { "tiling:gap" },
                format!("{}: token #{} {:?} spans {}..{} but the previous one ended at {} (file base {})", what, i, t.token, t.start, t.end, pos, base),
            );
        }
        if t.end < t.start {
            return fault("tiling:negative-span", format!("token #{} {:?} ends before it starts ({}..{})", i, t.token, t.start, t.end));
        }
        if t.end > base + len {
            return fault("tiling:outside-file", format!("token #{} {:?} spans {}..{} beyond the file end {}", i, t.token, t.start, t.end, base + len));
        }
        // each inside its file, as the SourceManager sees it
        for (which, f, raw) in [("start", &t.start_file, t.start), ("end", &t.end_file, t.end)] {
            match f {
                Some((name, off)) if name == FILE_NAME && *off == raw - base => {}
                other => {
                    return fault(
                        "tiling:wrong-file",
                        format!("{} of token #{} {:?} (raw {}) resolves to {:?}, expected ({}, {})", which, i, t.token, raw, other, FILE_NAME, raw - base),
                    )
                }
            }
        }
        let span = &bytes[(t.start - base) as usize..(t.end - base) as usize];
        if span.is_empty() {
            // only the line ending the lexer supplies at the end of a file that lacks one may be empty
            if !(t.token == Token::Endline && t.start == base + len && i + 1 == tokens.len()) {
                return fault("tiling:empty-token", format!("token #{} {:?} is empty at {}", i, t.token, t.start));
            }
            unlex_model.push('\n');
        } else {
            rebuilt.extend_from_slice(span);
            let s = match std::str::from_utf8(span) {
                Ok(s) => s,
                Err(_) => return fault("tiling:splits-utf8", format!("token #{} {:?} span {}..{} cuts a UTF-8 sequence", i, t.token, t.start, t.end)),
            };
            if t.token == Token::PhysicalEndline {
                if !s.starts_with('\\') {
                    return fault("tiling:splice-span", format!("PhysicalEndline token #{} spans {:?}", i, s));
                }
                unlex_model.push_str(&s[1..]);
            } else {
                unlex_model.push_str(s);
            }
            // token payloads that are spelled in the source must be the spelled bytes
            match &t.token {
                Token::Id(id) if id.0 != s => return fault("tiling:payload", format!("identifier token {:?} spans {:?}", id.0, s)),
                Token::LiteralString(v) if format!("\"{}\"", v) != s => return fault("tiling:payload", format!("string token {:?} spans {:?}", v, s)),
                Token::ReservedWord(v) if v != s => return fault("tiling:payload", format!("reserved word token {:?} spans {:?}", v, s)),
                _ => {}
            }
        }
        pos = t.end;
    }
    if pos != base + len {
        return fault("tiling:end", format!("last token ends at {} but the file ends at {}", pos, base + len));
    }
    if rebuilt != bytes {
        return fault("tiling:reemit", "re-emitting the tokens by span does not reproduce the input".to_string());
    }
    match unlex {
        Ok(u) => {
            if *u != unlex_model {
                return fault("unlex:relation", format!("unlex returned {:?}, the spans give {:?}", clip(u), clip(&unlex_model)));
            }
        }
        Err(c) => return fault(&format!("unlex:panic:{}", c.signature()), format!("unlex panicked at {}: {}", c.location, c.message)),
    }
    None
}

fn clip(s: &str) -> String {
    if s.len() <= 400 {
        s.to_string()
    } else {
        let mut end = 400;
        while !s.is_char_boundary(end) {
            end -= 1;
        }
        format!("{}...({} bytes)", &s[..end], s.len())
    }
}

/// Input with the backslash of every top level splice removed and the final newline supplied, derived from the text
/// alone for texts whose splices all sit at top level or inside line comments (the generator says which are which).
fn final_newline_needed(text: &str) -> bool {
    if text.is_empty() {
        return false;
    }
    match text.strip_suffix('\n') {
        None => true,
        Some(rest) => {
            let rest = rest.strip_suffix('\r').unwrap_or(rest);
            rest.ends_with('\\')
        }
    }
}

/// A diagnostic of a text that fails to lex must point inside the file
fn check_diagnostic(text: &str, base: u32, raw: u32, file: &Option<(String, u32)>, rendered: &Result<String, Caught>, report: &mut Report) -> Fault {
    let len = text.len() as u32;
    if raw == u32::MAX {
        return fault("diagnostic:no-location", "lexer error without a location".to_string());
    }
    if raw < base || raw > base + len {
        return fault("diagnostic:outside-file", format!("lexer error at raw location {} outside the file [{}, {}]", raw, base, base + len));
    }
    match file {
        Some((name, off)) if name == FILE_NAME && *off == raw - base => {}
        other => return fault("diagnostic:wrong-file", format!("lexer error location {} resolves to {:?}", raw, other)),
    }
    let rendered = match rendered {
        Ok(r) => r,
        Err(c) => {
            report.count(&format!("skipped:panic:render:{}", c.signature()));
            return None;
        }
    };
    // "<file>:<line>:<column>: error: ..."
    let prefix = format!("{}:", FILE_NAME);
    let Some(rest) = rendered.strip_prefix(&prefix) else {
        return fault("diagnostic:no-position", format!("diagnostic does not start with a position in the file: {:?}", clip(rendered)));
    };
    let mut parts = rest.splitn(3, ':');
    let line: Option<u32> = parts.next().and_then(|s| s.parse().ok());
    let column: Option<u32> = parts.next().and_then(|s| s.parse().ok());
    let (Some(line), Some(column)) = (line, column) else {
        return fault("diagnostic:no-position", format!("cannot read line:column from {:?}", clip(rendered)));
    };
    let lines: Vec<&str> = text.split('\n').collect();
    if line < 1 || line as usize > lines.len() {
        return fault("diagnostic:line-outside", format!("diagnostic line {} but the file has {} lines", line, lines.len()));
    }
    let l = lines[line as usize - 1];
    if column < 1 || column as usize > l.len() + 1 {
        return fault("diagnostic:column-outside", format!("diagnostic column {} but line {} has {} bytes", column, line, l.len()));
    }
    // what the offset says (observation only: the property only asks for "inside")
    let off = (raw - base) as usize;
    let before = &text.as_bytes()[..off];
    let want_line = 1 + before.iter().filter(|b| **b == b'\n').count() as u32;
    let want_col = 1 + (off - before.iter().rposition(|b| *b == b'\n').map(|p| p + 1).unwrap_or(0)) as u32;
    if (want_line, want_col) != (line, column) {
        report.count("observed:diagnostic_linecol_differs_from_offset");
    }
    None
}

// ------------------------------------------------------------------------------------------------
// Text generator (monitor 1)
// ------------------------------------------------------------------------------------------------

const KEYWORDS: &[&str] = &[
    "if", "else", "for", "while", "do", "switch", "return", "break", "continue", "discard", "case", "default", "struct", "class", "enum", "typedef",
    "cbuffer", "register", "packoffset", "namespace", "true", "false", "in", "out", "inout", "const", "volatile", "row_major", "column_major", "unorm",
    "snorm", "extern", "static", "inline", "groupshared", "constexpr", "sizeof", "template", "typename", "decltype", "auto", "catch", "char",
    "const_cast", "delete", "dynamic_cast", "explicit", "friend", "goto", "long", "mutable", "new", "operator", "private", "protected", "public",
    "reinterpret_cast", "short", "signed", "static_cast", "this", "throw", "try", "union", "unsigned", "using", "virtual",
];

const WORDS: &[&str] = &[
    "x", "y", "a", "b", "i", "n", "float", "float4", "int", "uint", "half", "double", "float4x4", "Texture2D", "SamplerState", "main", "define", "include",
    "defined", "pragma", "once", "INF", "e5", "x1", "_", "__", "_0", "A_b_C9", "SV_Position", "vk", "rssl", "elif", "endif", "ifdef", "line", "error", "u", "f",
    "h", "l", "L", "UL", "xyzw", "rgba", "b0", "t1", "space2", "TEXCOORD0", "min16float", "vector", "matrix", "StructuredBuffer", "ConstantBuffer",
];

const PUNCT: &[&str] = &[
    "{", "}", "(", ")", "[", "]", "<", ">", ";", ",", "?", "+", "++", "+=", "-", "--", "-=", "/", "/=", "%", "%=", "*", "*=", "|", "||", "|=", "&", "&&",
    "&=", "^", "^=", "=", "==", "#", "##", "@", "!", "!=", "~", ".", ":", "::", "<<", ">>", "<=", ">=", "<<=", ">>=", "->", "<>", "...",
];

#[derive(Clone, Copy, PartialEq, Eq, Debug)]
enum Class {
    Start,
    Blank,
    Word,
    Number,
    Punct,
    Str,
    Swizzle,
}

struct TextGen {
    out: String,
    /// the input with the backslash of every splice the lexer is to treat as a splice token removed
    model: String,
    line_start: bool,
    in_line_comment: bool,
    prev: Class,
    /// 0 = \n, 1 = \r\n, 2 = mixed
    eol_style: u8,
    pieces: usize,
    splices: usize,
    /// set once a malformed piece has been emitted
    no_hash: bool,
}

impl TextGen {
    fn new(eol_style: u8) -> TextGen {
        TextGen {
            out: String::new(),
            model: String::new(),
            line_start: true,
            in_line_comment: false,
            prev: Class::Start,
            eol_style,
            pieces: 0,
            splices: 0,
            no_hash: false,
        }
    }
    fn eol(&self, rng: &mut Rng) -> &'static str {
        match self.eol_style {
            0 => "\n",
            1 => "\r\n",
            _ => {
                if rng.chance(1, 2) {
                    "\n"
                } else {
                    "\r\n"
                }
            }
        }
    }
    fn raw(&mut self, s: &str) {
        if self.no_hash && s.contains('#') {
            // after a malformed piece comments and strings may open and close elsewhere than planned: no '#' at all, so that
            // no exposed '#' can become a directive
            let s = s.replace('#', "@");
            self.out.push_str(&s);
            self.model.push_str(&s);
            return;
        }
        self.out.push_str(s);
        self.model.push_str(s);
    }
    fn newline(&mut self, rng: &mut Rng) {
        let nl = self.eol(rng);
        if self.in_line_comment {
            // a comment whose last byte is a backslash continues on the next line
            let continues = self.out.ends_with('\\');
            self.raw(nl);
            if !continues {
                self.in_line_comment = false;
                self.line_start = true;
            }
        } else {
            self.raw(nl);
            self.line_start = true;
        }
        self.prev = Class::Blank;
    }
    fn splice(&mut self, rng: &mut Rng) {
        let nl = self.eol(rng);
        self.splices += 1;
        self.out.push('\\');
        self.out.push_str(nl);
        if self.in_line_comment {
            // part of the comment token: kept as written
            self.model.push('\\');
        }
        self.model.push_str(nl);
        self.prev = Class::Blank;
    }
    fn blank(&mut self, rng: &mut Rng) {
        let n = 1 + rng.below(3);
        for _ in 0..n {
            let c = if rng.chance(1, 4) { "\t" } else { " " };
            self.raw(c);
        }
        self.prev = Class::Blank;
    }
    fn comment_text(&self, rng: &mut Rng, multi_line: bool) -> String {
        const BITS: &[&str] = &[
            "a", "comment", " ", " ", "  ", "\t", "*", "**", "/", "\"", "'", "#", "#define X", "\\", "£", "é", "→", "0x", "1.5e", "/*", "//", "`", "$", "@", ".", "<", ">",
        ];
        let mut s = String::new();
        for _ in 0..rng.below(8) {
            if multi_line && rng.chance(1, 5) {
                if rng.chance(1, 4) {
                    s.push('\\');
                }
                s.push_str(self.eol(rng));
            } else {
                s.push_str(*rng.pick(BITS));
            }
        }
        s
    }
    fn line_comment(&mut self, rng: &mut Rng) {
        if self.out.ends_with('/') && !self.in_line_comment {
            self.raw(" ");
        }
        let mut c = self.comment_text(rng, false);
        // a trailing backslash only when asked for (it turns the next line ending into a splice inside the comment)
        while c.ends_with('\\') {
            c.pop();
        }
        if rng.chance(1, 8) {
            c.push('\\');
        }
        self.raw("//");
        self.raw(&c);
        self.in_line_comment = true;
        self.prev = Class::Blank;
    }
    fn block_comment(&mut self, rng: &mut Rng) {
        if self.out.ends_with('/') && !self.in_line_comment {
            self.raw(" ");
        }
        // inside a line comment a block comment stays on the line: its later lines would be lexed as code
        let multi = !self.in_line_comment && rng.chance(1, 2);
        let mut c = self.comment_text(rng, multi).replace("*/", "* /");
        if c.ends_with('\\') && self.in_line_comment {
            c.push(' ');
        }
        self.raw("/*");
        self.raw(&c);
        self.raw("*/");
        if !self.in_line_comment {
            self.prev = Class::Blank;
        }
    }
    /// a solid (non blank) piece
    fn solid(&mut self, rng: &mut Rng, class: Class, s: &str) {
        if self.in_line_comment {
            // anything is comment text here, except that nothing may put a backslash last on the line by accident
            self.raw(s);
            if self.out.ends_with('\\') {
                self.raw(" ");
            }
            return;
        }
        if s.starts_with('#') && self.line_start {
            return; // would be a directive
        }
        let first = s.as_bytes()[0];
        let need_space = match (self.prev, class) {
            (Class::Number, Class::Word) | (Class::Number, Class::Number) => true,
            (Class::Number, Class::Punct) if first == b'.' => true,
            (Class::Word, Class::Number) | (Class::Swizzle, Class::Number) if s.contains('.') => true,
            (Class::Word, Class::Word) | (Class::Word, Class::Number) | (Class::Swizzle, Class::Word) | (Class::Swizzle, Class::Number) => !rng.chance(1, 10),
            (Class::Punct, Class::Number) | (Class::Punct, Class::Swizzle) if self.out.ends_with('.') => true,
            (Class::Swizzle, Class::Swizzle) => true,
            (Class::Str, _) | (_, Class::Str) => false,
            _ => false,
        } || (self.out.ends_with('/') && (first == b'/' || first == b'*'))
            || (class == Class::Swizzle && self.prev != Class::Number && self.out.ends_with('.'));
        if need_space {
            self.raw(" ");
        }
        self.raw(s);
        self.prev = class;
        self.line_start = false;
    }
}

fn random_identifier(rng: &mut Rng) -> String {
    const FIRST: &[u8] = b"abcdefghijklmnopqrstuvwxyzABCDEFGHIJKLMNOPQRSTUVWXYZ_";
    const REST: &[u8] = b"abcdefghijklmnopqrstuvwxyzABCDEFGHIJKLMNOPQRSTUVWXYZ_0123456789";
    let mut s = String::new();
    s.push(*rng.pick(FIRST) as char);
    for _ in 0..rng.below(10) {
        s.push(*rng.pick(REST) as char);
    }
    if s.starts_with("__H") {
        s.insert(0, 'v');
    }
    s
}

fn random_string(rng: &mut Rng) -> String {
    const BITS: &[&str] = &["a", "Hello", " ", "\\n", "\\", "/*", "*/", "//", "#", "'", "é", "→", "0", "%d", "<", ">", ".", "\t"];
    let mut s = String::from("\"");
    for _ in 0..rng.below(6) {
        s.push_str(*rng.pick(BITS));
    }
    s.push('"');
    s
}

const MALFORMED: &[&str] = &[
    "$", "`", "'", "\\ ", "\r", "£", "é", "\u{7f}", "\u{0}", "1.5q", "0.0_", "10e4f32", "1.a", "0.#INF", "1e2#INF", "18446744073709551616", "99999999999999999999999u",
    "0xFFFFFFFFFFFFFFFFF", "0x1ffffffffffffffffUL", "02000000000000000000000", "0xg", "\"abc", "\"ab\ncd\"", "\"\\\n\"", "1.0f0", "/* never closed", "1.5.y", "3.r",
];

struct GeneratedText {
    text: String,
    /// Some(reference unlex output) when the text was built to be lexable
    unlex_model: Option<String>,
    pre_files: Vec<String>,
    eol_style: u8,
    splices: usize,
}

fn generate_text(rng: &mut Rng) -> GeneratedText {
    let eol_style = rng.below(3) as u8;
    let mut g = TextGen::new(eol_style);
    let span = if rng.chance(1, 8) { 280 } else { 80 };
    let n = 20 + rng.below(span);
    let inject_at = if rng.chance(1, 4) { Some(rng.below(n)) } else { None };
    let mut injected = false;
    for k in 0..n {
        g.pieces += 1;
        if inject_at == Some(k) && !g.in_line_comment {
            let bad = *rng.pick(MALFORMED);
            g.no_hash = true;
            g.raw(" ");
            g.raw(bad);
            g.raw(" ");
            g.prev = Class::Blank;
            g.line_start = false;
            injected = true;
            continue;
        }
        match rng.below(100) {
            0..=17 => g.blank(rng),
            18..=27 => g.newline(rng),
            28..=32 => g.splice(rng),
            33..=36 => g.line_comment(rng),
            37..=41 => g.block_comment(rng),
            42..=51 => {
                let w = if rng.chance(1, 2) { random_identifier(rng) } else { (*rng.pick(WORDS)).to_string() };
                // sometimes a splice in the middle of the word
                if w.len() >= 2 && rng.chance(1, 12) && !g.in_line_comment {
                    let mut cut = 1 + rng.below(w.len() - 1);
                    // the tail becomes a token of its own: keep it a word (a tail such as `0xk` would not lex)
                    while cut > 0 && w.as_bytes()[cut].is_ascii_digit() {
                        cut -= 1;
                    }
                    if cut == 0 {
                        g.solid(rng, Class::Word, &w);
                        continue;
                    }
                    g.solid(rng, Class::Word, &w[..cut]);
                    g.splice(rng);
                    g.raw(&w[cut..]);
                    // the tail is a token of its own: a number when it starts with a digit
                    g.prev = if w.as_bytes()[cut].is_ascii_digit() { Class::Number } else { Class::Word };
                } else {
                    g.solid(rng, Class::Word, &w);
                }
            }
            52..=59 => {
                let k = *rng.pick(KEYWORDS);
                g.solid(rng, Class::Word, k)
            }
            60..=69 => {
                let s = loop {
                    let (s, v) = random_int_spelling(rng, false);
                    if v <= u64::MAX as u128 {
                        break s;
                    }
                };
                if s.len() >= 2 && s.bytes().all(|b| b.is_ascii_digit()) && rng.chance(1, 8) && !g.in_line_comment {
                    // splice inside a run of digits: two integer tokens
                    // (the tail is read as a decimal number of its own: at most 19 digits so that it fits)
                    let cut = (1 + rng.below(s.len() - 1)).max(s.len().saturating_sub(19));
                    g.solid(rng, Class::Number, &s[..cut]);
                    g.splice(rng);
                    g.raw(&s[cut..]);
                    g.prev = Class::Number;
                } else {
                    g.solid(rng, Class::Number, &s);
                }
                if rng.chance(1, 6) {
                    let sw = *rng.pick(&[".x", ".xx", ".xxxx", ".xyzw", ".xy"]);
                    g.solid(rng, Class::Swizzle, sw);
                }
            }
            70..=79 => {
                let s = if rng.chance(1, 10) { format!("1.{}#INF{}", if rng.chance(1, 2) { "0" } else { "" }, *rng.pick(&["", "f", "h", "L"])) } else { random_float_spelling(rng) };
                g.solid(rng, Class::Number, &s);
                if rng.chance(1, 6) {
                    let sw = *rng.pick(&[".x", ".xx", ".xyz"]);
                    g.solid(rng, Class::Swizzle, sw);
                }
            }
            80..=83 => {
                let s = random_string(rng);
                g.solid(rng, Class::Str, &s);
            }
            _ => {
                let p = *rng.pick(PUNCT);
                if p.len() >= 2 && rng.chance(1, 10) && !g.in_line_comment && !(p.starts_with('#') && g.line_start) {
                    // splice inside an operator: the halves are separate tokens
                    g.solid(rng, Class::Punct, &p[..1]);
                    g.splice(rng);
                    if !(p[1..].starts_with('#') && g.line_start) {
                        g.raw(&p[1..]);
                        g.prev = Class::Punct;
                        g.line_start = false;
                    }
                } else {
                    g.solid(rng, Class::Punct, p);
                }
            }
        }
    }
    if rng.chance(1, 2) {
        g.newline(rng);
    }
    let mut pre_files = Vec::new();
    for _ in 0..rng.below(3) {
        let mut f = String::new();
        for _ in 0..rng.below(40) {
            f.push_str(*rng.pick(&["x", " ", "\n", "1", ";", "é"]));
        }
        pre_files.push(f);
    }
    let mut model = g.model;
    if final_newline_needed(&g.out) {
        model.push('\n');
    }
    GeneratedText {
        text: g.out,
        unlex_model: if injected { None } else { Some(model) },
        pre_files,
        eol_style,
        splices: g.splices,
    }
}

fn text_witness(text: &str, pre_files: &[String], unlex_model: &Option<String>) -> Json {
    let mut j = Json::obj().set("kind", "text").set("text", text).set("pre_files", Json::Arr(pre_files.iter().map(Json::str).collect()));
    if let Some(m) = unlex_model {
        j.put("unlex_model", m.as_str());
    }
    j
}

/// Monitor 1 on one text
fn examine_text(text: &str, pre_files: &[String], unlex_model: &Option<String>, report: &mut Report) {
    let (lexed, base) = lex(text, pre_files, report);
    let witness = || text_witness(text, pre_files, unlex_model);
    match lexed {
        Lexed::Tokens { tokens, unlex } => {
            report.evaluations += 1; // unlex
            report.count("text:lexed");
            report.distinct(hash_str(text));
            for t in &tokens {
                report.count(&format!("token:{}", token_kind(&t.token)));
            }
            report.max("max:tokens_per_text", tokens.len() as u64);
            if let Some((sig, summary)) = check_tiling(text, base, &tokens, &unlex) {
                report.violation(&sig, &summary, witness().set("seen", summary.as_str()));
                return;
            }
            if let (Some(model), Ok(u)) = (unlex_model, &unlex) {
                report.count("text:unlex_compared_with_generator_model");
                if u != model {
                    report.violation(
                        "unlex:model",
                        &format!("unlex is not the input minus splice backslashes plus the final newline: got {:?} want {:?}", clip(u), clip(model)),
                        witness().set("unlex", u.as_str()),
                    );
                    return;
                }
            }
            // numeric tokens inside texts: the value must be what the spanned spelling denotes
            for t in &tokens {
                if let Some(seen) = token_number(&t.token) {
                    let span = &text[(t.start - base) as usize..(t.end - base) as usize];
                    match lit::read_literal(span) {
                        Ok((l, used)) if used == span.len() => match expected_token(&l) {
                            Expect::Token(want) => {
                                report.count("text:literal_token_checked");
                                if !same_number(&want, &seen) {
                                    report.violation(
                                        &literal_signature(&l, "value-in-text"),
                                        &format!("token {:?} spans {:?} which denotes {}", t.token, span, want.describe()),
                                        witness().set("span", span).set("token", format!("{:?}", t.token)),
                                    );
                                    return;
                                }
                            }
                            _ => report.count("text:literal_span_undecided"),
                        },
                        _ => report.count("text:literal_span_not_a_whole_spelling"),
                    }
                }
            }
        }
        Lexed::LexError { reason, raw, file, rendered } => {
            report.count(&format!("text:lex_error:{}", reason));
            if unlex_model.is_some() {
                report.count(&format!("skipped:unexpected_lex_error:{}", reason));
            }
            report.distinct(hash_str(text));
            if let Some((sig, summary)) = check_diagnostic(text, base, raw, &file, &rendered, report) {
                report.violation(&sig, &summary, witness().set("diagnostic", rendered.clone().unwrap_or_default()));
            }
        }
        Lexed::OtherError(e) => {
            report.count(&format!("skipped:preprocessor_error:{}", e.lines().next().unwrap_or("").rsplit(": ").next().unwrap_or("")));
        }
        Lexed::Panic(c) => {
            // an unterminated comment trips a debug assertion of the lexer: a panic is C08's business, nothing to judge here
            report.count(&format!("skipped:panic:{}", c.signature()));
        }
    }
}

// ------------------------------------------------------------------------------------------------
// Literal spellings and what the lexer must make of them (monitor 2)
// ------------------------------------------------------------------------------------------------

/// The number carried by a numeric token, as plain data
#[derive(Clone, Debug, PartialEq)]
enum Num {
    Int(u64),
    U32(u64),
    U64(u64),
    /// the i64 payload as its 64 bit pattern
    I64(u64),
    Float(u64),
    F16(u32),
    F32(u32),
    F64(u64),
}

impl Num {
    fn describe(&self) -> String {
        match self {
            Num::Int(v) => format!("LiteralInt({})", v),
            Num::U32(v) => format!("LiteralIntUnsigned32({})", v),
            Num::U64(v) => format!("LiteralIntUnsigned64({})", v),
            Num::I64(v) => format!("LiteralIntSigned64({})", *v as i64),
            Num::Float(b) => format!("LiteralFloat({:e} = bits {:#018x})", f64::from_bits(*b), b),
            Num::F16(b) => format!("LiteralFloat16({:e} = bits {:#010x})", f32::from_bits(*b), b),
            Num::F32(b) => format!("LiteralFloat32({:e} = bits {:#010x})", f32::from_bits(*b), b),
            Num::F64(b) => format!("LiteralFloat64({:e} = bits {:#018x})", f64::from_bits(*b), b),
        }
    }
}

fn token_number(t: &Token) -> Option<Num> {
    Some(match t {
        Token::LiteralInt(v) => Num::Int(*v),
        Token::LiteralIntUnsigned32(v) => Num::U32(*v),
        Token::LiteralIntUnsigned64(v) => Num::U64(*v),
        Token::LiteralIntSigned64(v) => Num::I64(*v as u64),
        Token::LiteralFloat(v) => Num::Float(v.to_bits()),
        Token::LiteralFloat16(v) => Num::F16(v.to_bits()),
        Token::LiteralFloat32(v) => Num::F32(v.to_bits()),
        Token::LiteralFloat64(v) => Num::F64(v.to_bits()),
        _ => return None,
    })
}

fn same_number(a: &Num, b: &Num) -> bool {
    a == b
}

enum Expect {
    Token(Num),
    /// does not fit in 64 bits: lexing must fail with a diagnostic
    Rejected,
    /// an l / L suffixed value in [2^63, 2^64): fits in 64 bits but not in the signed token; only the bit pattern is compared
    SignedWrap(Num),
}

/// What the property says the lexer must produce for a literal spelling
fn expected_token(l: &Lit) -> Expect {
    match l {
        Lit::Int { value, suffix, .. } => {
            if *value > u64::MAX as u128 {
                return Expect::Rejected;
            }
            let v = *value as u64;
            match suffix {
                IntSuffix::None => Expect::Token(Num::Int(v)),
                IntSuffix::U => Expect::Token(Num::U32(v)),
                IntSuffix::UL => Expect::Token(Num::U64(v)),
                IntSuffix::L => {
                    if v > i64::MAX as u64 {
                        Expect::SignedWrap(Num::I64(v))
                    } else {
                        Expect::Token(Num::I64(v))
                    }
                }
            }
        }
        Lit::Float { value, suffix, .. } => Expect::Token(match suffix {
            FloatSuffix::None => Num::Float(value.to_bits()),
            FloatSuffix::L => Num::F64(value.to_bits()),
            // narrowed once
            FloatSuffix::F => Num::F32((*value as f32).to_bits()),
            FloatSuffix::H => Num::F16((*value as f32).to_bits()),
        }),
    }
}

fn literal_class(l: &Lit) -> String {
    match l {
        Lit::Int { base, suffix, .. } => format!("int:{:?}:{:?}", base, suffix).to_lowercase(),
        Lit::Float { suffix, inf_form, .. } => format!("float{}:{:?}", if *inf_form { "-inf-form" } else { "" }, suffix).to_lowercase(),
    }
}

fn literal_signature(l: &Lit, what: &str) -> String {
    format!("literal:{}:{}", literal_class(l), what)
}

/// `.5`: a floating spelling without a digit before the point
fn leading_point(spelling: &str) -> bool {
    spelling.starts_with('.')
}

const INT_SUFFIXES: &[&str] = &["", "u", "U", "l", "L", "ul", "uL", "Ul", "UL", "lu", "lU", "Lu", "LU"];

fn digits_in_base(mut v: u128, radix: u32, rng: &mut Rng) -> String {
    if v == 0 {
        return "0".into();
    }
    let mut s = Vec::new();
    while v > 0 {
        let d = (v % radix as u128) as u32;
        let mut c = std::char::from_digit(d, radix).unwrap();
        if rng.chance(1, 2) {
            c = c.to_ascii_uppercase();
        }
        s.push(c);
        v /= radix as u128;
    }
    s.iter().rev().collect()
}

/// An integer spelling of at most 25 digits; (spelling, value). `any_suffix` = false keeps to suffixes the rest of a text does not care about.
fn random_int_spelling(rng: &mut Rng, any_suffix: bool) -> (String, u128) {
    let base = rng.below(3);
    let radix: u32 = [10, 16, 8][base];
    let max_digits = 25usize;
    let limit: u128 = (radix as u128).pow(max_digits as u32) - 1;
    const LANDMARKS: &[u128] = &[
        0,
        1,
        7,
        8,
        255,
        0x7fff_ffff,
        0x8000_0000,
        0xffff_ffff,
        0x1_0000_0000,
        0x7fff_ffff_ffff_ffff,
        0x8000_0000_0000_0000,
        0xffff_ffff_ffff_ffff,
        0x1_0000_0000_0000_0000,
        10_000_000_000_000_000_000,
        18_446_744_073_709_551_615,
        18_446_744_073_709_551_616,
        99_999_999_999_999_999_999,
        0x10_0000_0000_0000_0000,
        36_893_488_147_419_103_232,
        184_467_440_737_095_516_160,
    ];
    let value: u128 = match rng.below(10) {
        0..=2 => {
            // near a landmark
            let l = *rng.pick(LANDMARKS);
            let d = rng.below(5) as u128;
            if rng.chance(1, 2) {
                l + d
            } else {
                l.saturating_sub(d)
            }
        }
        3..=5 => {
            // random digit count, uniform digits
            let n = 1 + rng.below(max_digits);
            let mut v: u128 = 0;
            for _ in 0..n {
                v = v * radix as u128 + rng.below(radix as usize) as u128;
            }
            v
        }
        6..=7 => rng.next_u64() as u128 >> rng.below(64),
        8 => (rng.next_u64() as u128) << rng.below(20),
        _ => rng.next_u64() as u128 + ((rng.below(3) as u128) << 64),
    }
    .min(limit);
    let mut digits = digits_in_base(value, radix, rng);
    // leading zeros up to 25 digits (not for decimal: that would be octal)
    if radix != 10 && rng.chance(1, 6) && digits.len() < max_digits {
        let z = rng.below(max_digits - digits.len() + 1);
        digits = format!("{}{}", "0".repeat(z), digits);
    }
    let prefix = match radix {
        16 => "0x",
        8 => "0",
        _ => "",
    };
    let suffix = if any_suffix || rng.chance(1, 2) { *rng.pick(INT_SUFFIXES) } else { "" };
    // octal 0 followed by no digits is decimal zero; "00" is octal zero: both fine
    (format!("{}{}{}", prefix, digits, suffix), value)
}

const FLOAT_SUFFIXES: &[&str] = &["", "", "", "", "f", "f", "f", "F", "h", "H", "l", "L"];

/// Assemble `digits . digits e[+-]digits` out of a significand digit string scaled by 10^exp10
fn spell_float(rng: &mut Rng, sig: &str, exp10: i64) -> String {
    // choose where the point goes: `point` digits before it
    let n = sig.len() as i64;
    let point = rng.range(0, n);
    let mut int_part = sig[..point as usize].to_string();
    let mut frac_part = sig[point as usize..].to_string();
    // value = int.frac x 10^(exp10 + n - point)
    let mut e = exp10 + (n - point);
    // sometimes move trailing zeros / exponent between the parts
    if rng.chance(1, 5) && e > 0 && e < 8 && frac_part.is_empty() {
        int_part.push_str(&"0".repeat(e as usize));
        e = 0;
    }
    if rng.chance(1, 6) {
        int_part = format!("{}{}", "0".repeat(1 + rng.below(3)), int_part);
    }
    if rng.chance(1, 6) && !frac_part.is_empty() {
        frac_part.push_str(&"0".repeat(1 + rng.below(3)));
    }
    // `.5` (no digit before the point) is lexed as `.` `5`: open known finding KF-C10-3, probed by its own witness only
    if int_part.is_empty() {
        int_part.push('0');
    }
    let mut s = String::new();
    let show_point = !frac_part.is_empty() || int_part.is_empty() || e == 0 || rng.chance(1, 2);
    if int_part.is_empty() && frac_part.is_empty() {
        int_part.push('0');
    }
    if int_part.is_empty() && !show_point {
        int_part.push('0');
    }
    s.push_str(&int_part);
    if show_point {
        s.push('.');
        if int_part.is_empty() && frac_part.is_empty() {
            frac_part.push('0');
        }
        s.push_str(&frac_part);
    }
    if e != 0 || !show_point || rng.chance(1, 5) {
        s.push(if rng.chance(1, 3) { 'E' } else { 'e' });
        if e < 0 {
            s.push('-');
        } else if rng.chance(1, 3) {
            s.push('+');
        }
        if rng.chance(1, 12) {
            s.push_str(&"0".repeat(1 + rng.below(22)));
        }
        s.push_str(&e.abs().to_string());
    }
    s
}

/// Exact decimal digits and power of ten of m x 2^e (m > 0)
fn dyadic_decimal(m: u64, e: i32) -> (String, i64) {
    let mut b = lit::Big::from_u64(m);
    if e >= 0 {
        (b.shl(e as u32).to_decimal(), 0)
    } else {
        // m x 2^e = m x 5^(-e) x 10^e
        b.mul_pow5((-e) as u32);
        (b.to_decimal(), e as i64)
    }
}

/// Truncate a digit string to `keep` significant digits, optionally adding one unit in the last kept place
fn cut_digits(digits: &str, exp10: i64, keep: usize, bump: bool) -> (String, i64) {
    if digits.len() <= keep {
        return (digits.to_string(), exp10);
    }
    let dropped = digits.len() - keep;
    let mut d: Vec<u8> = digits.as_bytes()[..keep].to_vec();
    if bump {
        let mut i = keep;
        loop {
            if i == 0 {
                d.insert(0, b'1');
                break;
            }
            i -= 1;
            if d[i] == b'9' {
                d[i] = b'0';
            } else {
                d[i] += 1;
                break;
            }
        }
    }
    (String::from_utf8(d).unwrap(), exp10 + dropped as i64)
}

const FLOAT_LANDMARKS: &[&str] = &[
    "0.0031308", "0.055", "0.1", "0.3", "2.7", "7e-7", "4.863e+11", "1.7976931348623157e308", "1.7976931348623158e308", "1.7976931348623159e308", "1.8e308", "1e309",
    "4.9406564584124654e-324", "2.4703282292062327e-324", "2.4703282292062328e-324", "2.2250738585072014e-308", "2.2250738585072011e-308", "3.4028234663852886e38",
    "3.4028235e38", "3.4028235677973366e38", "3.4028235677973367e38", "1.401298464324817e-45", "7.006492321624085e-46", "7.006492321624086e-46", "1.1754943508222875e-38",
    "16777217.0", "16777217.000000001", "9007199254740993.0", "9007199254740992.5", "0.5", "1.0", "0.0", "0e0", "0e310", "0.0e-330", "1e-330", "1e310", "12345678901234567890e-10",
    "8.5", "0.000001", "1e23", "8.41e21", "9.5e-323", "6.1e-5", "65504.0", "65519.99", "5.9604644775390625e-8", "1e22", "1e21",
];

/// A floating spelling within the quantifier of the property (<= 20 significant digits, magnitude in [-330, 310])
fn random_float_spelling(rng: &mut Rng) -> String {
    let core = match rng.below(20) {
        0..=8 => {
            // random digits
            let n = 1 + rng.below(20);
            let mut sig = String::new();
            for i in 0..n {
                let d = if i == 0 && n > 1 { 1 + rng.below(9) } else { rng.below(10) };
                sig.push(std::char::from_digit(d as u32, 10).unwrap());
            }
            // decimal magnitude = n + exp10 in [-330, 310], mostly near the everyday range
            let magnitude = if rng.chance(1, 2) { rng.range(-12, 14) } else { rng.range(-330, 310) };
            spell_float(rng, &sig, magnitude - n as i64)
        }
        9..=12 => {
            // just below / above the midpoint of two adjacent doubles
            let x = random_finite_f64(rng);
            let (m, e) = decompose64(x);
            // midpoint between m and m+1 at exponent e: (2m+1) x 2^(e-1)
            let (digits, exp10) = dyadic_decimal(2 * m + 1, e - 1);
            let keep = 17 + rng.below(4);
            let (d, x10) = cut_digits(&digits, exp10, keep, rng.chance(1, 2));
            if (d.len() as i64 + x10) < -330 || (d.len() as i64 + x10) > 310 {
                "1.5".to_string()
            } else {
                spell_float(rng, &d, x10)
            }
        }
        13..=15 => {
            // just below / above the midpoint of two adjacent floats (matters after narrowing)
            let y = random_finite_f32(rng);
            let (m, e) = decompose32(y);
            let (digits, exp10) = dyadic_decimal(2 * m + 1, e - 1);
            let keep = 8 + rng.below(13);
            let (d, x10) = cut_digits(&digits, exp10, keep, rng.chance(1, 2));
            spell_float(rng, &d, x10)
        }
        16..=17 => {
            // shortest spelling of a random double / float: the everyday case
            if rng.chance(1, 2) {
                let x = random_finite_f64(rng);
                format!("{:e}", x)
            } else {
                format!("{:e}", random_finite_f32(rng))
            }
        }
        18 => {
            if rng.chance(1, 4) {
                // HLSL's spelling of infinity
                format!("{}.{}#INF", 1 + rng.below(9), if rng.chance(1, 2) { "0" } else { "" })
            } else {
                let p = rng.range(-330, 310);
                format!("1e{}", p)
            }
        }
        _ => (*rng.pick(FLOAT_LANDMARKS)).to_string(),
    };
    // `1e5`-style spellings from format!("{:e}") have no point: fine, both are floating spellings
    format!("{}{}", core, *rng.pick(FLOAT_SUFFIXES))
}

fn random_finite_f64(rng: &mut Rng) -> f64 {
    // mostly everyday exponents, sometimes anything including subnormals
    let exp = if rng.chance(1, 2) { 1023 - 40 + rng.below(90) as u64 } else { rng.below(0x7ff) as u64 };
    f64::from_bits((exp << 52) | (rng.next_u64() >> 12))
}

fn random_finite_f32(rng: &mut Rng) -> f32 {
    let exp = if rng.chance(1, 2) { 127 - 30 + rng.below(60) as u32 } else { rng.below(0xff) as u32 };
    f32::from_bits((exp << 23) | (rng.next_u32() >> 9))
}

/// x = m x 2^e with integer m
fn decompose64(x: f64) -> (u64, i32) {
    let bits = x.to_bits();
    let exp = ((bits >> 52) & 0x7ff) as i32;
    let frac = bits & ((1 << 52) - 1);
    if exp == 0 {
        (frac.max(1), -1074)
    } else {
        (frac | (1 << 52), exp - 1075)
    }
}

fn decompose32(x: f32) -> (u64, i32) {
    let bits = x.to_bits();
    let exp = ((bits >> 23) & 0xff) as i32;
    let frac = (bits & ((1 << 23) - 1)) as u64;
    if exp == 0 {
        (frac.max(1), -149)
    } else {
        (frac | (1 << 23), exp - 150)
    }
}

const BEFORE: &[&str] = &["", "", "", " ", "x = ", "(", "-", "+", "\n", "\r\n", "/*c*/", "a\\\n", "\t", "{", ",", "//c\n", "[", "?", "!"];
const AFTER: &[&str] = &[
    "", "", ";", ";", " ", ")", ",", "\n", "\r\n", "+1", "-x", "]", "}", "/*c*/", "//c", "\\\n", "\\\r\n", ".x", ".xxxx", ".xyz", " .x", "*2", ":", "?", "\t;", ">", "<", "\"s\"", "/ 2", "|",
];

fn literal_witness(before: &str, spelling: &str, after: &str) -> Json {
    Json::obj().set("kind", "literal").set("before", before).set("spelling", spelling).set("after", after)
}

/// Monitor 2 on one spelling between two neighbours
fn examine_literal(before: &str, spelling: &str, after: &str, report: &mut Report) {
    let witness = || literal_witness(before, spelling, after);
    let (l, used) = match lit::read_literal(spelling) {
        Ok(x) => x,
        Err(e) => {
            report.inconclusive(&format!("generator produced a spelling the reference cannot read: {:?}: {}", spelling, e));
            return;
        }
    };
    if used != spelling.len() {
        report.inconclusive(&format!("reference reads only {} bytes of {:?}", used, spelling));
        return;
    }
    // the oracle does not trust one conversion routine: big integer arithmetic must agree with Rust's parser
    if let Lit::Float { value, digits, exp10, inf_form, .. } = &l {
        if !inf_form {
            let exact = lit::decimal_to_f64_bigint(digits, *exp10);
            report.count("oracle:float_crosschecked_bigint");
            if exact.to_bits() != value.to_bits() {
                report.inconclusive(&format!("oracle self check failed on {:?}: rust {:e} big-integer {:e}", spelling, value, exact));
                return;
            }
            let class = if *value == 0.0 {
                "zero"
            } else if value.is_infinite() {
                "overflow_to_inf"
            } else if *value < f64::MIN_POSITIVE {
                "subnormal"
            } else {
                "normal"
            };
            report.count(&format!("float_value:{}", class));
            let significant = {
                let t: Vec<u8> = digits.iter().copied().skip_while(|d| *d == b'0').collect();
                t.len() - t.iter().rev().take_while(|d| **d == b'0').count()
            };
            report.max("max:float_significant_digits", significant as u64);
        }
    }
    let class = literal_class(&l);
    report.count(&format!("literal:{}", class));
    let sig = |what: &str| -> String {
        if leading_point(spelling) {
            "literal:float:leading-point-not-lexed-as-one-literal".to_string()
        } else {
            literal_signature(&l, what)
        }
    };
    let text = format!("{}{}{}", before, spelling, after);
    let (lexed, base) = lex(&text, &[], report);
    let expect = expected_token(&l);
    let at = before.len() as u32;
    match lexed {
        Lexed::Tokens { tokens, unlex } => {
            report.evaluations += 1;
            report.distinct(hash_str(&text));
            if let Expect::Rejected = expect {
                let tok = tokens.iter().find(|t| t.start - base == at).map(|t| format!("{:?}", t.token)).unwrap_or_default();
                report.violation(
                    &sig("too-large-accepted"),
                    &format!("{:?} does not fit in 64 bits but was lexed as {}", spelling, tok),
                    witness().set("token", tok.as_str()),
                );
                return;
            }
            if let Some((sig, summary)) = check_tiling(&text, base, &tokens, &unlex) {
                report.violation(&sig, &summary, witness().set("seen", summary.as_str()));
                return;
            }
            let Some(tok) = tokens.iter().find(|t| t.start - base == at && t.end > t.start) else {
                report.violation(
                    &sig("span"),
                    &format!("no token starts where {:?} starts in {:?}", spelling, text),
                    witness().set("tokens", format!("{:?}", tokens.iter().map(|t| (&t.token, t.start, t.end)).collect::<Vec<_>>())),
                );
                return;
            };
            let Some(seen) = token_number(&tok.token) else {
                report.violation(
                    &sig("kind"),
                    &format!("{:?} lexed as {:?}, not as a numeric literal", spelling, tok.token),
                    witness().set("token", format!("{:?}", tok.token)),
                );
                return;
            };
            if tok.end - base != at + spelling.len() as u32 {
                report.violation(
                    &sig("span"),
                    &format!("{:?} in {:?}: the literal token {:?} spans {}..{} instead of {}..{}", spelling, text, tok.token, tok.start - base, tok.end - base, at, at + spelling.len() as u32),
                    witness().set("token", format!("{:?}", tok.token)),
                );
                return;
            }
            let (want, wrap) = match expect {
                Expect::Token(n) => (n, false),
                Expect::SignedWrap(n) => (n, true),
                Expect::Rejected => unreachable!(),
            };
            if wrap {
                // 2^63 <= value < 2^64 with an l suffix: the signed token cannot hold it. C gives such a literal an unsigned type; the property only
                // speaks of 64 bits. Undecided beyond the bit pattern.
                report.count("undecided:l_suffix_value_ge_2^63_compared_as_bit_pattern");
            }
            if !same_number(&want, &seen) {
                report.violation(
                    &sig("value"),
                    &format!("{:?} denotes {} but the token is {}", spelling, want.describe(), seen.describe()),
                    witness().set("want", want.describe()).set("token", seen.describe()),
                );
                return;
            }
            report.count("literal:value_exact");
            if report.samples.len() < 2 && spelling.len() > 12 && before.len() + after.len() > 0 && report.counters.contains_key("directed_literals") {
                report.sample(witness().set("token", seen.describe()));
            }
        }
        Lexed::LexError { reason, raw, file, rendered } => {
            report.distinct(hash_str(&text));
            match expect {
                Expect::Rejected => {
                    report.count(&format!("literal:rejected_as_too_large:{}", reason));
                    if let Some((sig, summary)) = check_diagnostic(&text, base, raw, &file, &rendered, report) {
                        report.violation(&sig, &summary, witness().set("diagnostic", rendered.clone().unwrap_or_default()));
                    }
                }
                _ => {
                    report.violation(
                        &sig("rejected"),
                        &format!("{:?} is a well formed literal that fits but lexing {:?} failed: {}", spelling, text, reason),
                        witness().set("diagnostic", rendered.clone().unwrap_or_default()),
                    );
                }
            }
        }
        Lexed::OtherError(e) => report.count(&format!("skipped:preprocessor_error:{}", e.lines().next().unwrap_or(""))),
        Lexed::Panic(c) => {
            // the property names this: a literal must be lexed or rejected with a diagnostic, not panic
            report.violation(
                &sig(&format!("panic:{}", c.signature())),
                &format!("lexing {:?} panicked at {}: {}", text, c.location, c.message),
                witness().set("panic", format!("{} {}", c.location, c.message)),
            );
        }
    }
}

// ------------------------------------------------------------------------------------------------
// Output leg (monitor 3)
// ------------------------------------------------------------------------------------------------

#[derive(Clone, Copy, Debug, PartialEq, Eq)]
enum Ty {
    Float,
    Half,
    Double,
    Int,
    Uint,
}

const ALL_TYS: [Ty; 5] = [Ty::Float, Ty::Half, Ty::Double, Ty::Int, Ty::Uint];

impl Ty {
    fn name(self) -> &'static str {
        match self {
            Ty::Float => "float",
            Ty::Half => "half",
            Ty::Double => "double",
            Ty::Int => "int",
            Ty::Uint => "uint",
        }
    }
    fn from_name(s: &str) -> Option<Ty> {
        ALL_TYS.iter().copied().find(|t| t.name() == s)
    }
    fn is_float(self) -> bool {
        matches!(self, Ty::Float | Ty::Half | Ty::Double)
    }
}

/// A typed value as the language sees it. Half values are carried in single precision (see assumptions).
#[derive(Clone, Copy, Debug, PartialEq)]
enum Val {
    LitInt(i128),
    I32(i32),
    U32(u32),
    I64(i64),
    U64(u64),
    LitFloat(f64),
    F16(f32),
    F32(f32),
    F64(f64),
}

#[derive(Clone, Copy, Debug, PartialEq)]
enum Conv {
    Exact(Val),
    /// out of range conversion to a signed integer: implementation defined, two's complement wrap assumed
    Wrapped(Val),
    Undefined,
}

fn as_real(v: Val) -> Option<f64> {
    Some(match v {
        Val::LitFloat(d) | Val::F64(d) => d,
        Val::F16(x) | Val::F32(x) => x as f64,
        _ => return None,
    })
}

fn as_integer(v: Val) -> Option<i128> {
    Some(match v {
        Val::LitInt(i) => i,
        Val::I32(i) => i as i128,
        Val::U32(i) => i as i128,
        Val::I64(i) => i as i128,
        Val::U64(i) => i as i128,
        _ => return None,
    })
}

/// The implicit / explicit conversion of a value to a scalar type
fn convert(v: Val, to: Ty) -> Conv {
    if let Some(i) = as_integer(v) {
        return match to {
            // integer to floating: nearest, ties to even (Rust's `as` does exactly that)
            Ty::Float => Conv::Exact(Val::F32(i as f32)),
            Ty::Half => Conv::Exact(Val::F16(i as f32)),
            Ty::Double => Conv::Exact(Val::F64(i as f64)),
            Ty::Uint => Conv::Exact(Val::U32(i.rem_euclid(1 << 32) as u32)),
            Ty::Int => {
                if i >= i32::MIN as i128 && i <= i32::MAX as i128 {
                    Conv::Exact(Val::I32(i as i32))
                } else {
                    Conv::Wrapped(Val::I32(i.rem_euclid(1 << 32) as u32 as i32))
                }
            }
        };
    }
    let d = as_real(v).unwrap();
    match to {
        Ty::Float => Conv::Exact(Val::F32(match v {
            Val::F16(x) | Val::F32(x) => x,
            _ => d as f32,
        })),
        Ty::Half => Conv::Exact(Val::F16(match v {
            Val::F16(x) | Val::F32(x) => x,
            _ => d as f32,
        })),
        Ty::Double => Conv::Exact(Val::F64(d)),
        Ty::Int => {
            let t = d.trunc();
            if t.is_finite() && t >= i32::MIN as f64 && t <= i32::MAX as f64 {
                Conv::Exact(Val::I32(t as i32))
            } else {
                Conv::Undefined
            }
        }
        Ty::Uint => {
            let t = d.trunc();
            if t.is_finite() && t >= 0.0 && t <= u32::MAX as f64 {
                Conv::Exact(Val::U32(t as u32))
            } else {
                Conv::Undefined
            }
        }
    }
}

fn negate(v: Val) -> Option<Val> {
    Some(match v {
        Val::LitInt(i) => Val::LitInt(-i),
        Val::I32(i) => Val::I32(i.checked_neg()?),
        Val::LitFloat(d) => Val::LitFloat(-d),
        Val::F16(x) => Val::F16(-x),
        Val::F32(x) => Val::F32(-x),
        Val::F64(d) => Val::F64(-d),
        // negating unsigned / 64 bit values is not exercised
        _ => return None,
    })
}

/// The typed value a literal spelling denotes (C / HLSL: unsuffixed literals adapt to their context, u is 32 bit unsigned when it fits)
fn literal_value(l: &Lit) -> Option<Val> {
    Some(match l {
        Lit::Int { value, suffix, .. } => {
            if *value > u64::MAX as u128 {
                return None;
            }
            match suffix {
                IntSuffix::None => Val::LitInt(*value as i128),
                IntSuffix::U => {
                    if *value <= u32::MAX as u128 {
                        Val::U32(*value as u32)
                    } else {
                        Val::U64(*value as u64)
                    }
                }
                IntSuffix::L => {
                    if *value > i64::MAX as u128 {
                        return None;
                    }
                    Val::I64(*value as i64)
                }
                IntSuffix::UL => Val::U64(*value as u64),
            }
        }
        Lit::Float { value, suffix, .. } => match suffix {
            FloatSuffix::None => Val::LitFloat(*value),
            FloatSuffix::F => Val::F32(*value as f32),
            FloatSuffix::H => Val::F16(*value as f32),
            FloatSuffix::L => Val::F64(*value),
        },
    })
}

/// Type both operands of `x * LIT` are brought to (usual arithmetic conversions, literals adapting to the other operand)
fn common_type(x: Ty, l: Val) -> Option<Ty> {
    Some(match l {
        Val::LitFloat(_) => {
            if x.is_float() {
                x
            } else {
                Ty::Float
            }
        }
        Val::F32(_) => match x {
            Ty::Double => Ty::Double,
            _ => Ty::Float,
        },
        Val::F16(_) => match x {
            Ty::Double => Ty::Double,
            Ty::Float => Ty::Float,
            _ => Ty::Half,
        },
        Val::F64(_) => Ty::Double,
        Val::LitInt(_) => x,
        Val::U32(_) => match x {
            Ty::Int | Ty::Uint => Ty::Uint,
            t => t,
        },
        _ => return None,
    })
}

#[derive(Clone, Debug, PartialEq)]
struct Program {
    /// 0 = static const, 1 = return, 2 = parameter * literal, 3 = literal / divisor in a static const
    context: u8,
    ty: Ty,
    spelling: String,
    negate: bool,
    /// divisor spelling of context 3
    divisor: String,
}

impl Program {
    fn lit_text(&self) -> String {
        format!("{}{}", if self.negate { "-" } else { "" }, self.spelling)
    }
    fn text(&self) -> String {
        let t = self.ty.name();
        match self.context {
            0 => format!("static const {} c10_v = {};\n", t, self.lit_text()),
            1 => format!("{} c10_f() {{ return {}; }}\n", t, self.lit_text()),
            2 => format!("double c10_f({} c10_x) {{ return c10_x * {}; }}\n", t, self.lit_text()),
            _ => format!("static const {} c10_v = {} / {};\n", t, self.lit_text(), self.divisor),
        }
    }
    fn to_json(&self) -> Json {
        Json::obj()
            .set("kind", "program")
            .set("context", self.context as i64)
            .set("type", self.ty.name())
            .set("spelling", self.spelling.as_str())
            .set("negate", self.negate)
            .set("divisor", self.divisor.as_str())
            .set("program", self.text())
    }
    fn from_json(j: &Json) -> Option<Program> {
        Some(Program {
            context: j.get("context")?.as_i64()? as u8,
            ty: Ty::from_name(j.get_str("type")?)?,
            spelling: j.get_str("spelling")?.to_string(),
            negate: j.get("negate").and_then(|b| b.as_bool()).unwrap_or(false),
            divisor: j.get_str("divisor").unwrap_or("").to_string(),
        })
    }
}

// ---- reading the emitted HLSL -------------------------------------------------------------------

struct Reader<'a> {
    s: &'a str,
    pos: usize,
}

#[derive(Debug)]
enum ReadError {
    /// a constant of floating type printed with an integer spelling: (text, suffix)
    IntegerSpelledFloat(String, char),
    Unrecognised(String),
    /// a conversion the language leaves undefined (float out of the range of an integer type)
    Undefined,
}

impl<'a> Reader<'a> {
    fn rest(&self) -> &'a str {
        &self.s[self.pos..]
    }
    fn skip_ws(&mut self) {
        while self.rest().starts_with(' ') {
            self.pos += 1;
        }
    }
    fn eat(&mut self, t: &str) -> bool {
        if self.rest().starts_with(t) {
            self.pos += t.len();
            true
        } else {
            false
        }
    }
    /// unary := '(' type ')' unary | '-' unary | '(' unary ')' | literal
    fn unary(&mut self, leaves: &mut Vec<(String, Val)>) -> Result<Val, ReadError> {
        self.skip_ws();
        if self.eat("(") {
            for ty in ALL_TYS {
                let save = self.pos;
                if self.eat(ty.name()) && self.eat(")") {
                    let inner = self.unary(leaves)?;
                    return match convert(inner, ty) {
                        Conv::Exact(v) | Conv::Wrapped(v) => Ok(v),
                        Conv::Undefined => Err(ReadError::Undefined),
                    };
                }
                self.pos = save;
            }
            let inner = self.unary(leaves)?;
            self.skip_ws();
            if !self.eat(")") {
                return Err(ReadError::Unrecognised(format!("expected ) at {:?}", clip(self.rest()))));
            }
            return Ok(inner);
        }
        if self.eat("-") {
            let inner = self.unary(leaves)?;
            return negate(inner).ok_or_else(|| ReadError::Unrecognised("negation of an unsigned value".into()));
        }
        self.leaf(leaves)
    }
    fn leaf(&mut self, leaves: &mut Vec<(String, Val)>) -> Result<Val, ReadError> {
        let rest = self.rest();
        match lit::read_literal(rest) {
            Ok((l, used)) => {
                let text = &rest[..used];
                self.pos += used;
                let v = literal_value(&l).ok_or_else(|| ReadError::Unrecognised(format!("literal {:?} has no 64 bit value", text)))?;
                leaves.push((text.to_string(), v));
                Ok(v)
            }
            Err(e) => {
                // digits directly followed by h: not a literal of HLSL at all
                let digits = rest.bytes().take_while(|b| b.is_ascii_digit()).count();
                if digits > 0 && matches!(rest.as_bytes().get(digits), Some(b'h' | b'H')) {
                    return Err(ReadError::IntegerSpelledFloat(rest[..digits + 1].to_string(), 'h'));
                }
                Err(ReadError::Unrecognised(format!("{} at {:?}", e, clip(rest))))
            }
        }
    }
    /// The literals of `[cast] ( a / b ) ;` in order, ignoring brackets and casts
    fn division_leaves(&mut self) -> Result<Vec<(String, Val)>, ReadError> {
        let mut leaves = Vec::new();
        loop {
            self.skip_ws();
            let rest = self.rest();
            if rest.is_empty() || rest == ";" {
                return Ok(leaves);
            }
            if self.eat("(") || self.eat(")") || self.eat("/") {
                continue;
            }
            if let Some(ty) = ALL_TYS.iter().find(|t| rest.starts_with(t.name())) {
                self.pos += ty.name().len();
                continue;
            }
            if rest.as_bytes()[0].is_ascii_digit() || rest.starts_with('.') {
                self.leaf(&mut leaves)?;
                continue;
            }
            return Err(ReadError::Unrecognised(format!("unexpected {:?}", clip(rest))));
        }
    }
}

/// Find the expression text that follows `marker` in the output
fn after_marker<'a>(source: &'a str, marker: &str) -> Option<&'a str> {
    let at = source.find(marker)?;
    let rest = &source[at + marker.len()..];
    let end = rest.find('\n').unwrap_or(rest.len());
    Some(&rest[..end])
}

fn values_equal(a: Val, b: Val, allow_zero_sign: bool) -> bool {
    match (a, b) {
        (Val::F32(x), Val::F32(y)) | (Val::F16(x), Val::F16(y)) => x.to_bits() == y.to_bits() || (allow_zero_sign && x == 0.0 && y == 0.0),
        (Val::F64(x), Val::F64(y)) => x.to_bits() == y.to_bits() || (allow_zero_sign && x == 0.0 && y == 0.0),
        (a, b) => a == b,
    }
}

fn describe_val(v: Val) -> String {
    match v {
        Val::F32(x) | Val::F16(x) => format!("{:?} ({:e}, bits {:#010x})", v, x, x.to_bits()),
        Val::F64(x) | Val::LitFloat(x) => format!("{:?} ({:e}, bits {:#018x})", v, x, x.to_bits()),
        _ => format!("{:?}", v),
    }
}

/// Monitor 3 on one program. `avoid_known` = skip the constructs of the open known findings (main workload).
fn examine_program(p: &Program, avoid_known: bool, report: &mut Report) {
    let parse = |s: &str| lit::read_literal(s).ok().filter(|(_, used)| *used == s.len()).map(|(l, _)| l);
    let Some(l) = parse(&p.spelling) else {
        report.inconclusive(&format!("output leg: reference cannot read {:?}", p.spelling));
        return;
    };
    let Some(mut src) = literal_value(&l) else {
        report.count("output:skipped:literal_without_64_bit_value");
        return;
    };
    if p.negate {
        match negate(src) {
            Some(v) => src = v,
            None => {
                report.count("output:skipped:negated_unsigned");
                return;
            }
        }
    }
    let divisor = if p.context == 3 {
        match parse(&p.divisor).and_then(|d| literal_value(&d)) {
            Some(d) => Some(d),
            None => {
                report.inconclusive(&format!("output leg: reference cannot read divisor {:?}", p.divisor));
                return;
            }
        }
    } else {
        None
    };
    // the type the literal's value is compared in
    let target = match p.context {
        0 | 1 => p.ty,
        2 => match common_type(p.ty, src) {
            Some(t) => t,
            None => {
                report.count("output:skipped:no_common_type_rule");
                return;
            }
        },
        _ => match (common_type(p.ty, src), divisor.and_then(|d| common_type(p.ty, d))) {
            // both operands are literals: compare each in the declared type when that is where they end up, otherwise skip
            (Some(a), Some(b)) if a == b => a,
            _ => {
                report.count("output:skipped:no_common_type_rule");
                return;
            }
        },
    };
    if avoid_known {
        let big_u = matches!(l, Lit::Int { suffix: IntSuffix::U, value, .. } if value > u32::MAX as u128);
        if big_u {
            report.count("output:avoided:u_suffix_above_32_bits(KF-C10-2)");
            return;
        }
    }
    let text = p.text();
    let witness = || p.to_json();
    report.evaluations += 1;
    let outcome = rs::compile_text(&text, &Opts::new(Tgt::Dx, Mode::NoPipeline));
    let key = format!("output:ctx{}:{}:{}", p.context, p.ty.name(), literal_class(&l));
    let source = match &outcome {
        Outcome::Ok(pipes) if pipes.len() == 1 => pipes[0].source.clone(),
        Outcome::Ok(p) => {
            report.count(&format!("output:skipped:{}_pipelines", p.len()));
            return;
        }
        Outcome::Diag(d) => {
            report.count(&format!("output:skipped:rejected:{}", d.lines().next().unwrap_or("").splitn(4, ':').last().unwrap_or("").trim()));
            return;
        }
        Outcome::Panic(c) => {
            // the compiler panicking on a literal is C08's business (64 bit suffixes are unimplemented, -2147483648 overflows)
            report.count(&format!("output:skipped:panic:{}", c.signature()));
            return;
        }
        Outcome::Budget { .. } => {
            report.count("output:skipped:budget");
            return;
        }
    };
    let marker = match p.context {
        0 | 3 => "c10_v = ",
        1 => "return ",
        _ => " * ",
    };
    let Some(expr) = after_marker(&source, marker) else {
        report.count("output:skipped:marker_not_found");
        return;
    };
    let mut reader = Reader { s: expr, pos: 0 };
    let mut leaves = Vec::new();
    let mut expected: Vec<Val> = vec![src];
    // (what the output denotes, the type it is compared in)
    let mut operands: Vec<(Result<Val, ReadError>, Option<Ty>)> = Vec::new();
    if p.context == 3 {
        expected.push(divisor.unwrap());
        match reader.division_leaves() {
            Ok(l) if l.len() == 2 => {
                for (_, v) in &l {
                    // each operand is compared in the type the output gives it; operands left untyped are compared exactly
                    let ty = match v {
                        Val::F32(_) => Some(Ty::Float),
                        Val::F16(_) => Some(Ty::Half),
                        Val::F64(_) | Val::LitFloat(_) => Some(Ty::Double),
                        Val::U32(_) => Some(Ty::Uint),
                        Val::I32(_) => Some(Ty::Int),
                        _ => None,
                    };
                    operands.push((Ok(*v), ty));
                }
                leaves = l;
            }
            Ok(_) => {
                report.count("output:skipped:division_folded_or_reshaped");
                return;
            }
            Err(e) => operands.push((Err(e), None)),
        }
    } else {
        let got = reader.unary(&mut leaves);
        if p.context != 2 && got.is_ok() && reader.rest() != ";" {
            report.count("output:skipped:unrecognised_expression_shape");
            return;
        }
        operands.push((got, Some(target)));
    }
    for (want_src, (got, compare_in)) in expected.iter().zip(operands.into_iter()) {
        let got = match got {
            Ok(v) => v,
            Err(ReadError::IntegerSpelledFloat(t, suffix)) => {
                report.violation(
                    &format!("output:floating-constant-printed-as-integer-spelling:{}", suffix),
                    &format!("{:?} compiles to {:?}: `{}` is digits with an {} suffix, not a floating literal", text.trim(), expr, t, suffix),
                    witness().set("output", source.as_str()),
                );
                return;
            }
            Err(ReadError::Undefined) => {
                report.count("undecided:conversion_undefined_in_the_language");
                return;
            }
            Err(ReadError::Unrecognised(why)) => {
                report.count("output:skipped:unrecognised_expression");
                let _ = why;
                return;
            }
        };
        // a floating constant printed as an l / L suffixed integer literal denotes a 64 bit integer: `1.0L / 3.0L` becomes `1L / 3L`
        if as_real(*want_src).is_some() {
            if let Some((t, _)) = leaves.iter().find(|(_, v)| matches!(v, Val::I64(_) | Val::U64(_))) {
                report.violation(
                    "output:floating-constant-printed-as-integer-spelling:L",
                    &format!("{:?} compiles to {:?}: `{}` is an integer literal of 64 bit type, not a floating literal", text.trim(), expr, t),
                    witness().set("output", source.as_str()),
                );
                return;
            }
        }
        let (want, seen) = match compare_in {
            Some(t) => (convert(*want_src, t), convert(got, t)),
            // untyped integer literals on both sides: exact comparison
            None => (Conv::Exact(*want_src), Conv::Exact(got)),
        };
        let target = compare_in.unwrap_or(target);
        match (want, seen) {
            (Conv::Exact(w), Conv::Exact(s)) | (Conv::Exact(w), Conv::Wrapped(s)) => {
                let zero_negated = p.negate;
                if !values_equal(w, s, false) {
                    if zero_negated && values_equal(w, s, true) {
                        // -0.0 is an expression, not a literal: the sign of a negated zero is C01's business
                        report.count("observed:negated_zero_printed_without_sign");
                    } else {
                        let sig = if matches!(l, Lit::Int { suffix: IntSuffix::U, value, .. } if value > u32::MAX as u128) {
                            "output:u-suffixed-literal-truncated-to-32-bits".to_string()
                        } else {
                            format!("output:value-changed:{}:{}", literal_class(&l), target.name())
                        };
                        report.violation(
                            &sig,
                            &format!("{:?} compiles to {:?}: the literal denotes {} as {} but the output denotes {}", text.trim(), expr, describe_val(w), target.name(), describe_val(s)),
                            witness().set("output", source.as_str()).set("want", describe_val(w)).set("seen", describe_val(s)),
                        );
                        return;
                    }
                }
            }
            (Conv::Wrapped(w), Conv::Exact(s)) | (Conv::Wrapped(w), Conv::Wrapped(s)) => {
                if values_equal(w, s, true) {
                    report.count("output:out_of_range_signed_conversion_wrapped_as_assumed");
                } else {
                    report.count("undecided:out_of_range_signed_conversion");
                    return;
                }
            }
            _ => {
                report.count("undecided:conversion_undefined_in_the_language");
                return;
            }
        }
    }
    report.count(&key);
    report.count("output:value_unchanged");
    report.distinct(hash_str(&text));
    if p.spelling.len() > 8 && p.context >= 2 && report.samples.iter().filter(|s| s.get_str("kind") == Some("program")).count() < 2 {
        report.sample(witness().set("output_expression", expr));
    }
}

fn generate_program(rng: &mut Rng) -> Program {
    let context = [0u8, 0, 1, 1, 2, 2, 3][rng.below(7)];
    let ty = *rng.pick(&ALL_TYS);
    let is_int_lit = rng.chance(3, 10);
    let spelling = if is_int_lit {
        loop {
            let (s, v) = random_int_spelling(rng, false);
            // 64 bit suffixes reach an unimplemented!() in the type checker: keep a few to see that, not more
            let long = s.ends_with(|c| c == 'l' || c == 'L') || s.to_lowercase().ends_with("lu");
            if v > u64::MAX as u128 || (long && !rng.chance(1, 20)) {
                continue;
            }
            break s;
        }
    } else if rng.chance(1, 25) {
        format!("1.{}#INF{}", if rng.chance(1, 2) { "0" } else { "" }, *rng.pick(&["", "f", "h", "L"]))
    } else {
        random_float_spelling(rng)
    };
    // float literals into integer types are only a side show
    let ty = if !is_int_lit && !ty.is_float() && rng.chance(2, 3) { Ty::Float } else { ty };
    let negate = context < 2 && rng.chance(1, 7);
    let divisor = if context == 3 {
        if is_int_lit {
            "3".to_string()
        } else {
            // same suffix as the literal so that both operands have one type
            let suffix = match lit::read_literal(&spelling) {
                Ok((Lit::Float { suffix: FloatSuffix::F, .. }, _)) => "f",
                Ok((Lit::Float { suffix: FloatSuffix::H, .. }, _)) => "h",
                Ok((Lit::Float { suffix: FloatSuffix::L, .. }, _)) => "L",
                _ => "",
            };
            format!("0.75{}", suffix)
        }
    } else {
        String::new()
    };
    Program { context, ty, spelling, negate, divisor }
}

// ------------------------------------------------------------------------------------------------
// Workload
// ------------------------------------------------------------------------------------------------

/// Spellings every run examines: the constants the property names, and the edges of the ranges
const DIRECTED_LITERALS: &[&str] = &[
    "0.0031308", "0.055", "0.0031308f", "0.055f", "0.055h", "0.055L", "18446744073709551615", "18446744073709551616", "18446744073709551616u", "18446744073709551615UL",
    "0xFFFFFFFFFFFFFFFF", "0x10000000000000000", "01777777777777777777777", "02000000000000000000000", "9223372036854775807l", "4294967296u", "0", "00", "0u", "1.#INF",
    "1.0#INFf", "1e+0000000000000000000000005", "1e-0000000000000000000000005f", "1.7976931348623159e308", "2.4703282292062327e-324", "16777217.000000001f", "0x0000000000000000000000001",
    "9999999999999999999999999", "0xfffffffffffffffffffffffff", "07777777777777777777777777", "1e5000", "1e-5000", "0e99999", "3.4028235677973366e38f", "1.", "5.e3", "1E2L",
];

fn run(ctx: &Ctx) -> Report {
    let n = ctx.tier.pick(640_000, 8_000_000);
    let seed = ctx.seed;
    let mut report = Report::new();
    for s in DIRECTED_LITERALS {
        for (b, a) in [("", ""), ("x = ", ";"), ("(", ".x")] {
            examine_literal(b, s, a, &mut report);
        }
        report.count("directed_literals");
    }
    let random = par::run_cases(ctx, n, |index, report| {
        let mut rng = Rng::for_case(seed, 0xC10, index);
        match index % 16 {
            0 => {
                let g = generate_text(&mut rng);
                report.count(&format!("text:eol_style:{}", ["lf", "crlf", "mixed"][g.eol_style as usize]));
                report.count_n("text:splices", g.splices as u64);
                report.count(if g.unlex_model.is_some() { "text:well_formed" } else { "text:with_malformed_piece" });
                report.max("max:text_bytes", g.text.len() as u64);
                if g.text.len() < 400 && g.splices > 0 && !report.samples.iter().any(|s| s.get_str("kind") == Some("text")) {
                    report.sample(text_witness(&g.text, &g.pre_files, &None));
                }
                examine_text(&g.text, &g.pre_files, &g.unlex_model, report);
            }
            1 => {
                let p = generate_program(&mut rng);
                examine_program(&p, true, report);
            }
            _ => {
                let spelling = if rng.chance(2, 5) { random_int_spelling(&mut rng, true).0 } else { random_float_spelling(&mut rng) };
                let before = *rng.pick(BEFORE);
                let after = *rng.pick(AFTER);
                examine_literal(before, &spelling, after, report);
            }
        }
    });
    report.merge(random);
    // every lexable clean text must have been lexed: a generator that produces unlexable "clean" texts has lost its power
    let unexpected: u64 = report.counters.iter().filter(|(k, _)| k.starts_with("skipped:unexpected_lex_error")).map(|(_, v)| *v).sum();
    let clean = report.counters.get("text:well_formed").copied().unwrap_or(0);
    if unexpected * 50 > clean.max(1) {
        report.inconclusive(&format!("{} of {} texts meant to be lexable were rejected by the lexer", unexpected, clean));
    }
    let unchanged = report.counters.get("output:value_unchanged").copied().unwrap_or(0);
    if unchanged < ctx.tier.pick(8_000, 100_000) {
        report.inconclusive(&format!("output leg reached a verdict on only {} programs", unchanged));
    }
    report
}

fn strs(j: &Json, key: &str) -> Vec<String> {
    j.get(key).and_then(|a| a.as_arr()).map(|a| a.iter().filter_map(|s| s.as_str().map(|s| s.to_string())).collect()).unwrap_or_default()
}

/// Run `f` on another thread and wait at most `secs` seconds for it (a literal with an astronomically large exponent must not hang the driver)
fn with_timeout(secs: u64, f: impl FnOnce() -> Report + Send + 'static) -> Option<Report> {
    let (tx, rx) = std::sync::mpsc::channel();
    let _ = std::thread::Builder::new().stack_size(64 << 20).spawn(move || {
        let _ = tx.send(f());
    });
    rx.recv_timeout(std::time::Duration::from_secs(secs)).ok()
}

fn replay(_ctx: &Ctx, witness: &Json) -> Report {
    let mut report = Report::new();
    match witness.get_str("kind").unwrap_or("") {
        "text" => {
            let text = witness.get_str("text").unwrap_or("").to_string();
            let pre = strs(witness, "pre_files");
            let model = witness.get_str("unlex_model").map(|s| s.to_string());
            examine_text(&text, &pre, &model, &mut report);
        }
        "literal" => {
            let b = witness.get_str("before").unwrap_or("").to_string();
            let s = witness.get_str("spelling").unwrap_or("").to_string();
            let a = witness.get_str("after").unwrap_or("").to_string();
            let shown = s.clone();
            match with_timeout(30, move || {
                let mut r = Report::new();
                examine_literal(&b, &s, &a, &mut r);
                r
            }) {
                Some(r) => report.merge(r),
                None => report.inconclusive(&format!("lexing {:?} did not finish within 30 s (non-termination is C08's business; nothing observed for C10)", shown)),
            }
        }
        "program" => match Program::from_json(witness) {
            Some(p) => examine_program(&p, false, &mut report),
            None => report.inconclusive("program witness is missing fields"),
        },
        other => report.inconclusive(&format!("unknown witness kind {:?}", other)),
    }
    report
}
