//! C10 - not built yet
