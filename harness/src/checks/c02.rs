//! C02 - MSL export preserves the meaning of every accepted program.
//!
//! Reference-model monitor: the syntax tree the Metal generator hands to the formatter (hook) is executed by
//! the C-like reference interpreter in its MSL dialect (references, metal:: builtins, as_type) and compared
//! with the source IR executed by irexec; plus structural monitors on the same tree (globals threaded to exactly
//! the functions that need them, by reference).

use crate::gen::prog;
use crate::json::Json;
use crate::oracle::cexec::{CExec, CTy, Dialect};
use crate::oracle::diffexec::{self, Truth};
use crate::oracle::irexec::Exec;
use crate::oracle::sample;
use crate::report::{Ctx, Report};
use crate::rng::{hash_str, Rng};
use crate::rs::{self, Front, Mode, Opts, Outcome, Tgt};
use crate::CheckDef;
use rssl::ir;
use std::collections::{BTreeMap, BTreeSet, HashMap};

pub fn def() -> CheckDef {
    CheckDef {
        id: "C02",
        salt: 0xC02,
        rule: "the same typed random programs as C01 without double (gen::prog), plus directed call-graph / aliasing programs over static and \
               groupshared globals; for every accepted program that the Metal backend does not reject with a diagnostic, every callable \
               function x 12 argument vectors is executed on the source IR (ground truth, both evaluation orders) and on the Metal syntax \
               tree from the exporter hook with the C-like interpreter (MSL dialect): return value, out/inout parameters and the final \
               contents of the static/groupshared storage passed by reference must be bit identical. Structural monitor: the extra \
               parameters of every emitted function equal the non-constant globals it transitively uses (independent walk of the IR), all \
               passed by reference. evaluations = samples compared + functions checked structurally; distinct_nontrivial = distinct \
               accepted programs with at least one compared sample",
        assumptions: &[
            "no Metal compiler exists in the sandbox: the tree handed to the formatter is interpreted (the printed text is additionally checked by C09/C05 scans); well-formedness of address spaces / attributes is not checked",
            "metal:: builtin semantics follow the Metal Shading Language specification; NaN/zero-sign cases where HLSL and Metal differ are discarded as unspecified",
            "functions are matched by name between source and emitted tree (renamed functions are skipped and counted)",
        ],
        min_distinct: (300, 8000),
        deadline_s: (90.0, 900.0),
        run,
        replay,
    }
}

/// For every implemented function: names of the static / groupshared, non-const globals it uses directly or through calls
pub fn needed_globals(m: &ir::Module) -> HashMap<u32, BTreeSet<String>> {
    fn walk_expr(e: &ir::Expression, globals: &mut BTreeSet<u32>, calls: &mut BTreeSet<u32>) {
        use ir::Expression as E;
        match e {
            E::Global(id) => {
                globals.insert(id.0);
            }
            E::TernaryConditional(a, b, c) => {
                walk_expr(a, globals, calls);
                walk_expr(b, globals, calls);
                walk_expr(c, globals, calls);
            }
            E::Sequence(v) => v.iter().for_each(|x| walk_expr(x, globals, calls)),
            E::Swizzle(a, _) | E::MatrixSwizzle(a, _) | E::StructMember(a, _, _) | E::ObjectMember(a, _) | E::Cast(_, a) => walk_expr(a, globals, calls),
            E::ArraySubscript(a, b) => {
                walk_expr(a, globals, calls);
                walk_expr(b, globals, calls);
            }
            E::Call(id, _, v) => {
                calls.insert(id.0);
                v.iter().for_each(|x| walk_expr(x, globals, calls));
            }
            E::IntrinsicOp(_, v) => v.iter().for_each(|x| walk_expr(x, globals, calls)),
            E::Constructor(_, slots) => slots.iter().for_each(|s| walk_expr(&s.expr, globals, calls)),
            _ => {}
        }
    }
    fn walk_init(i: &ir::Initializer, g: &mut BTreeSet<u32>, c: &mut BTreeSet<u32>) {
        match i {
            ir::Initializer::Expression(e) => walk_expr(e, g, c),
            ir::Initializer::Aggregate(v) => v.iter().for_each(|x| walk_init(x, g, c)),
        }
    }
    fn walk_block(b: &ir::ScopeBlock, g: &mut BTreeSet<u32>, c: &mut BTreeSet<u32>) {
        for s in &b.0 {
            use ir::StatementKind as K;
            match &s.kind {
                K::Expression(e) => walk_expr(e, g, c),
                K::Var(d) => {
                    if let Some(i) = &d.init {
                        walk_init(i, g, c)
                    }
                }
                K::Block(b) => walk_block(b, g, c),
                K::If(x, b) | K::While(x, b) | K::Switch(x, b) => {
                    walk_expr(x, g, c);
                    walk_block(b, g, c);
                }
                K::IfElse(x, a, b) => {
                    walk_expr(x, g, c);
                    walk_block(a, g, c);
                    walk_block(b, g, c);
                }
                K::For(init, x, inc, body) => {
                    match init {
                        ir::ForInit::Expression(e) => walk_expr(e, g, c),
                        ir::ForInit::Definitions(defs) => {
                            for d in defs {
                                if let Some(i) = &d.init {
                                    walk_init(i, g, c);
                                }
                            }
                        }
                        ir::ForInit::Empty => {}
                    }
                    if let Some(x) = x {
                        walk_expr(x, g, c);
                    }
                    if let Some(i) = inc {
                        walk_expr(i, g, c);
                    }
                    walk_block(body, g, c);
                }
                K::DoWhile(b, x) => {
                    walk_block(b, g, c);
                    walk_expr(x, g, c);
                }
                K::Return(Some(e)) => walk_expr(e, g, c),
                _ => {}
            }
        }
    }
    let mut direct: HashMap<u32, (BTreeSet<u32>, BTreeSet<u32>)> = HashMap::new();
    for id in m.function_registry.iter() {
        if let Some(imp) = m.function_registry.get_function_implementation(id).as_ref() {
            let mut g = BTreeSet::new();
            let mut c = BTreeSet::new();
            walk_block(&imp.scope_block, &mut g, &mut c);
            for p in &imp.params {
                if let Some(d) = &p.default_expr {
                    walk_expr(d, &mut g, &mut c);
                }
            }
            direct.insert(id.0, (g, c));
        }
    }
    // transitive closure
    let mut closed: HashMap<u32, BTreeSet<u32>> = direct.iter().map(|(k, v)| (*k, v.0.clone())).collect();
    loop {
        let mut changed = false;
        for (f, (_, calls)) in &direct {
            let mut add = BTreeSet::new();
            for c in calls {
                if let Some(g) = closed.get(c) {
                    add.extend(g.iter().cloned());
                }
            }
            let mine = closed.get_mut(f).unwrap();
            let before = mine.len();
            mine.extend(add);
            if mine.len() != before {
                changed = true;
            }
        }
        if !changed {
            break;
        }
    }
    let mut out = HashMap::new();
    for (f, gs) in closed {
        let mut names = BTreeSet::new();
        for g in gs {
            let def = &m.global_registry[g as usize];
            let is_const = m.type_registry.is_const(def.type_id);
            let threaded = match def.storage_class {
                ir::GlobalStorage::Static => !is_const,
                ir::GlobalStorage::GroupShared => true,
                ir::GlobalStorage::Extern => false,
            };
            if threaded && !def.is_intrinsic {
                names.insert(def.name.node.clone());
            }
        }
        out.insert(f, names);
    }
    out
}

pub fn examine_program(text: &str, origin: &str, seed: u64, report: &mut Report) -> bool {
    let src_ir = match rs::front_text(text, true) {
        Front::Ok((_, Some(ir))) => ir,
        Front::Ok(_) => return false,
        Front::Diag(_) => {
            report.count("program:rejected");
            return false;
        }
        Front::Panic(c) => {
            report.count(&format!("skipped:panic:{}", c.signature()));
            return false;
        }
    };
    report.count("program:accepted");
    let out = rs::compile_text(text, &Opts::new(Tgt::Msl, Mode::NoPipeline));
    let (tree, emitted) = match &out {
        Outcome::Ok(p) => match &p[0].tree {
            Some(t) => (t.clone(), p[0].source.clone()),
            None => {
                report.inconclusive("the exporter hook recorded no syntax tree");
                return false;
            }
        },
        Outcome::Diag(d) => {
            // allowed by the property: rejected by the Metal backend with a diagnostic
            let class: String = d.lines().next().unwrap_or("").split("metal generate:").nth(1).unwrap_or("other").trim().split('(').next().unwrap_or("").chars().take(40).collect();
            report.count(&format!("metal-backend-diagnostic:{}", class));
            return false;
        }
        Outcome::Panic(c) => {
            report.count(&format!("skipped:export-panic:{}", c.signature()));
            return false;
        }
        Outcome::Budget { .. } => return false,
    };
    let functions = diffexec::callable_functions(&src_ir);
    if functions.is_empty() {
        return false;
    }
    let globals = match diffexec::initial_globals(&src_ir) {
        Ok(g) => g,
        Err(t) => {
            report.count(&format!("skipped:global-init:{}", diffexec::trap_class(&t)));
            return false;
        }
    };
    let w = |function: &str, args: &[crate::oracle::val::Value], expected: &str, got: &str| -> Json {
        Json::obj()
            .set("origin", origin)
            .set("arg_seed", Json::Str(seed.to_string()))
            .set("program", text)
            .set("function", function)
            .set("arguments", Json::Arr(args.iter().map(|a| Json::str(format!("{}", a))).collect()))
            .set("source_semantics", expected)
            .set("emitted_semantics", got)
            .set("emitted", emitted.as_str())
    };

    // ---- structural monitor -------------------------------------------------------------------
    let needed = needed_globals(&src_ir);
    if let Ok(cexec) = CExec::new(&tree, Dialect::Msl) {
        let emitted_functions = cexec.plain_free_functions();
        for (name, id) in &functions {
            let imp = src_ir.function_registry.get_function_implementation(*id).as_ref().unwrap();
            let n = imp.params.len();
            let candidates: Vec<usize> = emitted_functions.iter().filter(|(q, _)| q == name).map(|(_, i)| *i).collect();
            if candidates.is_empty() {
                report.count("skipped:function-not-found-by-name");
                continue;
            }
            report.evaluations += 1;
            report.count("structure:functions-checked");
            let want = needed.get(&id.0).cloned().unwrap_or_default();
            for f in candidates {
                let info = cexec.param_info(f);
                let tagged = cexec.has_trampoline_tag(f);
                let user_params = if tagged { n + 1 } else { n };
                if info.len() < user_params {
                    report.violation("structure:lost-parameter", &format!("emitted {} has fewer parameters than the source function", name), w(name, &[], "", ""));
                    continue;
                }
                let mut have = BTreeSet::new();
                for (pname, is_ref, _) in &info[user_params..] {
                    if let Some(pn) = pname {
                        // the lane index / lane count of the wave intrinsics travel the same way, by value, under names of the exporter's own
                        if !is_ref && matches!(pn.as_str(), "thread_index_in_simdgroup" | "threads_per_simdgroup") {
                            report.count("structure:implicit-wave-parameter");
                            continue;
                        }
                        have.insert(pn.clone());
                        if !is_ref {
                            report.violation(
                                "structure:global-passed-by-value",
                                &format!("global {} is passed to {} by value", pn, name),
                                w(name, &[], &format!("needs {:?}", want), &format!("has {:?}", have)),
                            );
                        }
                    }
                }
                // a global whose name had to be changed by the name generator arrives as <name>_N
                let have: BTreeSet<String> = have
                    .into_iter()
                    .map(|h| {
                        if want.contains(&h) {
                            return h;
                        }
                        if let Some(pos) = h.rfind('_') {
                            if h[pos + 1..].chars().all(|c| c.is_ascii_digit()) && pos + 1 < h.len() && want.contains(&h[..pos]) {
                                return h[..pos].to_string();
                            }
                        }
                        h
                    })
                    .collect();
                // constant buffers and other bound resources are handed down as well; this monitor models static and groupshared storage only
                let resource_names: BTreeSet<String> = src_ir
                    .cbuffer_registry
                    .iter()
                    .map(|c| c.name.node.clone())
                    .chain(src_ir.global_registry.iter().filter(|g| g.storage_class == ir::GlobalStorage::Extern).map(|g| g.name.node.clone()))
                    .collect();
                // (a resource whose name had to be changed arrives as <name>_N as well)
                let is_resource = |h: &String| {
                    resource_names.contains(h)
                        || match h.rfind('_') {
                            Some(pos) => pos + 1 < h.len() && h[pos + 1..].chars().all(|c| c.is_ascii_digit()) && resource_names.contains(&h[..pos]),
                            None => false,
                        }
                };
                let have: BTreeSet<String> = have.into_iter().filter(|h| want.contains(h) || !is_resource(h)).collect();
                if have != want {
                    let missing: Vec<&String> = want.difference(&have).collect();
                    let extra: Vec<&String> = have.difference(&want).collect();
                    let sig = if !missing.is_empty() { "structure:global-not-threaded" } else { "structure:unneeded-global-threaded" };
                    report.violation(
                        sig,
                        &format!("function {} transitively uses globals {:?} but the emitted function receives {:?} (missing {:?}, extra {:?})", name, want, have, missing, extra),
                        w(name, &[], &format!("needs {:?}", want), &format!("has {:?}", have)),
                    );
                }
                report.count_n("structure:threaded-globals", have.len() as u64);
                report.max("max:threaded-globals-per-function", have.len() as u64);
            }
        }
    }

    // ---- execution monitor --------------------------------------------------------------------
    let mut compared_any = false;
    let proto = match Exec::new(&src_ir) {
        Ok(e) => e,
        Err(_) => return false,
    };
    for (fi, (name, id)) in functions.iter().enumerate() {
        let imp = src_ir.function_registry.get_function_implementation(*id).as_ref().unwrap();
        for k in 0..12u64 {
            let mut rng = Rng::for_case(seed, hash_str(name) ^ (fi as u64) << 8, k);
            let calm = k % 3 != 0;
            let mut args = Vec::new();
            let mut ok = true;
            for p in &imp.params {
                match sample::value_for(&proto, p.param_type.type_id, &mut rng, calm) {
                    Some(v) => args.push(v),
                    None => {
                        ok = false;
                        break;
                    }
                }
            }
            if !ok {
                report.count("skipped:parameter-type-not-modelled");
                break;
            }
            let truth = match diffexec::ground_truth(&src_ir, *id, &args) {
                Truth::Defined(o) => o,
                Truth::Skipped(why) => {
                    report.count(&format!("sample-skipped:{}", why.split(':').take(2).collect::<Vec<_>>().join(":")));
                    continue;
                }
            };
            match diffexec::run_tree(&tree, Dialect::Msl, name, &args, &globals) {
                Ok(got) => {
                    report.evaluations += 1;
                    compared_any = true;
                    report.count("compared:msl");
                    if let Some(d) = truth.diff(&got) {
                        // output in which a function writes to a parameter declared as a plain array: the copy the source passes
                        // has become the caller's array
                        let shape = if crate::oracle::decls::written_array_parameters(&tree).is_empty() { "" } else { ":callee-writes-array-parameter" };
                        report.violation(&format!("meaning-changed{}", shape), &format!("function {} computes a different result in the emitted Metal: {}", name, d), w(name, &args, &truth.describe(), &got.describe()));
                    }
                }
                Err(t) => {
                    let class = diffexec::trap_class(&t);
                    if class.starts_with("unsupported:") || class.starts_with("trap:unspecified") {
                        report.count(&format!("oracle-skipped:{}", class));
                        if std::env::var("VERIF_DEBUG").is_ok() {
                            eprintln!("=== msl oracle gave up on {} ({}): {:?}", name, origin, t);
                        }
                        continue;
                    }
                    report.evaluations += 1;
                    let detail = format!("{:?}", t);
                    if class == "ill-typed" {
                        report.violation(
                            "emitted-msl-ill-formed",
                            &format!("the emitted Metal for function {} is not well formed for the interpreter: {}", name, detail),
                            w(name, &args, &truth.describe(), &detail),
                        );
                    } else {
                        // a value that was never written, in output that declares a local initialised from its own name: the
                        // hidden outer entity of the source has become the new variable itself
                        let shape = if class == "trap:uninitialised" && !crate::oracle::decls::self_named_initialisers(&tree).is_empty() { ":local-initialised-from-its-own-name" } else { "" };
                        report.violation(
                            &format!("emitted-undefined:{}{}", class, shape),
                            &format!("function {} is defined on the source but the emitted Metal traps ({})", name, class),
                            w(name, &args, &truth.describe(), &detail),
                        );
                    }
                }
            }
        }
    }
    compared_any
}

/// Directed programs: call graph shapes over static globals, aliasing probes for out/inout
pub fn directed_programs() -> Vec<String> {
    let mut all = call_graph_programs();
    all.extend(crate::checks::c01::scoping_programs());
    all
}

fn call_graph_programs() -> Vec<String> {
    vec![
        // methods with default arguments that need a global, called through an object, from inside the struct and with every
        // number of defaults left out
        "static int g_calls = 0;\nstatic float g_acc = 0.5f;\nstruct S { int base; int mix(int a, int b = 7, int c = 9) { g_calls += 1; return base + a * 100 + b * 10 + c; } int twice(int a) { return mix(a) + mix(a, 1) + mix(a, 1, 2); } float scale(float f = 2.0f) { g_acc += f; return g_acc * f; } };\nint method_defaults(int x) { S s; s.base = 1; return s.mix(x) + s.mix(x, 2) + s.mix(x, 2, 3) + g_calls * 100000; }\nint method_inside(int x) { S s; s.base = 2; return s.twice(x) + g_calls * 100000; }\nfloat method_float(float x) { S s; s.base = 0; return s.scale() + s.scale(x) + g_acc; }\nint free_defaults(int x);\nint fd(int a, int b = 4, int c = 6) { g_calls += 2; return a + b * 10 + c * 100; }\nint free_defaults(int x) { return fd(x) + fd(x, 1) + fd(x, 1, 2) + g_calls * 100000; }\n".to_string(),
        // a scalar cast to a struct assigns every member the same value: the operand is evaluated once
        "struct P { int x; int y[2]; };\nstatic int gq = 0;\nint nextq() { gq += 1; return gq; }\nint cast_plain(int a) { P p = (P)(a * 2 + 1); return p.x * 100 + p.y[0] * 10 + p.y[1]; }\nint cast_call(int a) { P p = (P)(a + nextq()); return p.x * 100 + p.y[0] * 10 + p.y[1] + gq * 1000; }\nint cast_inc(int a) { int l = a; P p = (P)(l++ + 1); return p.x + p.y[0] + p.y[1] + l * 1000; }\nint cast_assign(int a) { int l = 0; P p = (P)(l = a + 3); return p.x + p.y[1] + l; }\n".to_string(),
        // ... and each of them alone: an exporter that refuses one of the four refuses the whole program above
        "struct P { int x; int y[2]; };\nstatic int gq = 0;\nint nextq() { gq += 1; return gq; }\nint cast_plain(int a) { P p = (P)(a * 2 + 1); return p.x * 100 + p.y[0] * 10 + p.y[1]; }\n".to_string(),
        "struct P { int x; int y[2]; };\nstatic int gq = 0;\nint nextq() { gq += 1; return gq; }\nint cast_call(int a) { P p = (P)(a + nextq()); return p.x * 100 + p.y[0] * 10 + p.y[1] + gq * 1000; }\n".to_string(),
        "struct P { int x; int y[2]; };\nstatic int gq = 0;\nint nextq() { gq += 1; return gq; }\nint cast_inc(int a) { int l = a; P p = (P)(l++ + 1); return p.x + p.y[0] + p.y[1] + l * 1000; }\n".to_string(),
        "struct P { int x; int y[2]; };\nstatic int gq = 0;\nint nextq() { gq += 1; return gq; }\nint cast_assign(int a) { int l = 0; P p = (P)(l = a + 3); return p.x + p.y[1] + l; }\n".to_string(),
        // the only use of a global / the only call of a function with inout parameters sits inside index brackets
        "static uint gi = 1u;\nstatic int table[4] = { 10, 20, 30, 40 };\nuint pick() { gi += 1u; return gi; }\nint only_in_index(int x) { int a[4] = { 1, 2, 3, 4 }; return a[gi & 3u] + x; }\nint call_in_index(int x) { int a[4] = { 5, 6, 7, 8 }; return a[pick() & 3u] + x; }\nint global_table(int x) { return table[(uint)x & 3u]; }\n".to_string(),
        "uint bump(inout uint a, inout uint b) { a += 1u; b += 20u; return a + b; }\nint inout_in_index(int x) { int a[4] = { 1, 2, 3, 4 }; uint v = (uint)x & 1u; return a[bump(v, v) & 3u] * 100 + (int)v; }\n".to_string(),
        "static int gm[3] = { 1, 2, 3 };\nstatic uint gk = 2u;\nint nested_index(int x) { return gm[(uint)gm[gk % 3u] % 3u] + x; }\nint write_index(int x) { gm[gk % 3u] = x; return gm[2]; }\n".to_string(),
        // transitive use through a chain; a function that does not need the global sits in between
        "static int g0 = 1;\nstatic float g1 = 2.0f;\ngroupshared float lds[4];\nint leaf(int x) { g0 += x; return g0; }\nint mid(int x) { return leaf(x) + 1; }\nint pure(int x) { return x * 2; }\nint top(int x) { lds[0] = (float)x; g1 = lds[0] + g1; return mid(pure(x)) + (int)g1; }\nint only_pure(int x) { return pure(x) + pure(x + 1); }\n".to_string(),
        // inout aliasing with a global the callee also reads
        "static int g0 = 5;\nvoid bump(inout int v) { v += 1; g0 += 10; v += g0; }\nint test_alias(int x) { g0 = x; bump(g0); return g0; }\nint test_local(int x) { int l = x; bump(l); return l + g0; }\n".to_string(),
        // in + inout of the same variable
        "void acc(int a, inout int b) { b += a; b += a; }\nint same(int x) { int v = x; acc(v, v); return v; }\n".to_string(),
        // out parameter written twice / read after write
        "void two(out int a, out int b) { a = 1; b = a + 1; a = b + 1; }\nint outs(int x) { int p; int q; two(p, q); return p * 10 + q + x; }\nint outs_same(int x) { int p; two(p, p); return p + x; }\n".to_string(),
        // vector swizzle passed to inout
        "void sw(inout float2 v) { v.x += 1.0f; v = v.yx; }\nfloat4 swz(float4 a) { sw(a.zw); sw(a.xy); return a; }\n".to_string(),
        // struct member and array element as out arguments, method that mutates
        "struct S { int a; int b[2]; int bump(int d) { a += d; return a; } };\nvoid set(out int v, int x) { v = x; }\nint members(int x) { S s = { 1, { 2, 3 } }; set(s.a, x); set(s.b[1], x + 1); return s.bump(2) + s.a + s.b[0] + s.b[1]; }\n".to_string(),
        // globals of several kinds used by several functions in different orders
        "static int ga = 1;\nstatic int gb = 2;\nstatic int gc = 3;\nstatic int gd = 4;\nstatic int ge = 5;\nint f1() { ga += gb; return ga; }\nint f2() { gc += gd; return gc; }\nint f3() { ge += f1() + f2(); return ge; }\nint f4(int x) { return f3() + f1() + x; }\nint f5(int x) { gd = x; return f2(); }\n".to_string(),
        // static const stays a constant and needs no threading
        "static const int kc = 7;\nstatic int gm = 0;\nint usesc(int x) { return x + kc; }\nint usesm(int x) { gm = x; return usesc(gm); }\n".to_string(),
        // recursion-free diamond
        "static float gs = 0.5f;\nfloat l(float x) { gs = gs * x; return gs; }\nfloat r(float x) { return x + gs; }\nfloat top2(float x) { return l(x) + r(x) + l(r(x)); }\n".to_string(),
        // default argument and overloads calling into global users
        "static uint gu = 3u;\nuint addg(uint x, uint y = 2u) { gu += x * y; return gu; }\nuint ov(uint x) { return addg(x); }\nuint ov(uint x, uint y) { return addg(x, y) + addg(y); }\nuint callov(uint x) { return ov(x) + ov(x, 3u); }\n".to_string(),
    ]
}

fn generated(seed: u64, index: u64) -> (String, Vec<&'static str>) {
    let mut rng = Rng::for_case(seed, 0x9e02, index);
    let mut cfg = prog::Config::default();
    cfg.allow_double = false;
    if index % 4 == 0 {
        cfg.rich = false;
    }
    let p = prog::generate(&mut rng, cfg);
    (p.render(), p.features)
}

/// Programs with a placeholder `@Q@` in front of the type of a parameter or local that is only read. A qualifier that does not
/// change what the function computes (`const`; `row_major` / `column_major` on a matrix that is only read element-wise through
/// the same source expressions) must not change whether the Metal exporter accepts the function (and with which diagnostic it
/// refuses it): the exporter decides by type, and the type with its qualifiers removed is the same.
const QUALIFIER_TEMPLATES: &[(&str, bool)] = &[
    ("float3 row1(@Q@float3x3 m) { return m[1]; }\n", true),
    ("float el(@Q@float2x2 m) { return m[1][0] + m[0][1]; }\n", true),
    ("float3 loc(float x) { @Q@float3x3 m = float3x3(1.0f, 2.0f, 3.0f, 4.0f, 5.0f, 6.0f, 7.0f, 8.0f, x); return m[2]; }\n", true),
    ("float2 dyn(@Q@float2x2 m, uint i) { return m[i & 1u]; }\n", true),
    ("float nsq(@Q@float2x3 m) { return m[1].z + m[0][2]; }\n", true),
    ("float4 mv(@Q@float4x4 m, float4 v) { return mul(m, v) + m[3]; }\n", true),
    ("struct S { float2x2 m; float k; };\nfloat sm(@Q@S s) { return s.m[1][1] + s.k; }\n", false),
    ("float vec(@Q@float4 a, uint i) { return a[i & 3u] + a.y; }\n", false),
    ("float arr(@Q@float a[4], uint i) { return a[i & 3u] + a[0]; }\n", false),
    ("float4 sw(@Q@float4 a) { return a.wzyx + a.xxyy; }\n", false),
    ("float call_in(float v) { return v * 2.0f; }\nfloat pass(@Q@float2x2 m) { return call_in(m[0][0]) + call_in(m[1].y); }\n", true),
];

fn qualifier_neutrality(index: usize, report: &mut Report) {
    let (template, is_matrix) = QUALIFIER_TEMPLATES[index];
    let compile = |q: &str| -> (String, String) {
        let text = template.replace("@Q@", q);
        match rs::compile_text(&text, &Opts::new(Tgt::Msl, Mode::NoPipeline)) {
            // (the text is not compared: removing a const makes conversions explicit, `(float)a.y`)
            Outcome::Ok(_) => ("accepted".to_string(), String::new()),
            Outcome::Diag(d) => (format!("rejected: {}", d.lines().next().unwrap_or("").split(": error: ").last().unwrap_or("")), String::new()),
            Outcome::Panic(c) => (format!("panic: {}", c.signature()), String::new()),
            Outcome::Budget { .. } => ("budget".to_string(), String::new()),
        }
    };
    let base = compile("");
    let qualifiers: &[&str] = if is_matrix { &["const ", "row_major ", "column_major ", "const row_major "] } else { &["const "] };
    for q in qualifiers {
        let with = compile(q);
        report.evaluations += 1;
        report.count(&format!("qualifier-neutrality:{}:{}", q.trim(), base.0.split(':').next().unwrap_or("")));
        if with != base {
            let what = if with.0 != base.0 { format!("verdict `{}` becomes `{}`", base.0, with.0) } else { "the emitted text differs beyond the qualifier".to_string() };
            report.violation(
                &format!("qualifier-changes-metal-export:{}", q.trim().replace(' ', "-")),
                &format!("adding `{}` to a value that is only read changes the Metal export: {} ({})", q.trim(), what, template.lines().last().unwrap_or("").trim()),
                Json::obj().set("origin", "qualifier-neutrality").set("arg_seed", "1").set("program", template.replace("@Q@", q)).set("program_without_qualifier", template.replace("@Q@", "")).set("without", base.0.as_str()).set("with", with.0.as_str()),
            );
        }
    }
    report.distinct(hash_str(template));
}

fn run(ctx: &Ctx) -> Report {
    let directed = directed_programs();
    let n_generated = ctx.tier.pick(3_000, 120_000);
    let n = directed.len() as u64 + n_generated;
    let seed = ctx.seed;
    let neutrality = crate::par::run_cases(ctx, QUALIFIER_TEMPLATES.len() as u64, |index, report| qualifier_neutrality(index as usize, report));
    let mut report = run_programs(ctx, directed, n, seed);
    report.merge(neutrality);
    report
}

fn run_programs(ctx: &Ctx, directed: Vec<String>, n: u64, seed: u64) -> Report {
    crate::par::run_cases(ctx, n, |index, report| {
        let (text, origin, features) = if (index as usize) < directed.len() {
            (directed[index as usize].clone(), format!("directed:{}", index), vec!["directed-call-graph"])
        } else {
            let gi = index - directed.len() as u64;
            let (t, f) = generated(seed, gi);
            (t, format!("generated:{}", gi), f)
        };
        if examine_program(&text, &origin, seed ^ index, report) {
            report.distinct(hash_str(&text));
            for f in features {
                report.count(&format!("feature:{}", f));
            }
            if report.want_sample() && index % 11 == 3 {
                report.sample(Json::obj().set("origin", origin).set("program", text));
            }
        }
    })
}

fn replay(ctx: &Ctx, witness: &Json) -> Report {
    let mut report = Report::new();
    let text = witness.get_str("program").unwrap_or("");
    let seed = witness.get_str("arg_seed").and_then(|s| s.parse::<u64>().ok()).unwrap_or(ctx.seed);
    examine_program(text, "replay", seed, &mut report);
    report
}

#[allow(dead_code)]
fn unused(_: BTreeMap<String, u32>) {}
