//! C02 - not built yet
