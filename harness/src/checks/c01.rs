//! C01 - not built yet
