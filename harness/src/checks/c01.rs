//! C01 - HLSL export preserves the meaning of every accepted program.
//!
//! Reference-model monitor: every generated program is type checked, every callable function is
//! executed by the reference interpreter `irexec` on the source IR (ground truth: RSSL's typed
//! semantics, evaluated left-to-right and right-to-left, undefined samples discarded), then the
//! emitted HLSL (DirectX and Vulkan flavour) is read back and the same function is executed on the
//! same arguments; return value, out/inout parameters and static globals must be bit identical.

use crate::gen::prog;
use crate::json::Json;
use crate::oracle::diffexec::{self, Truth};
use crate::oracle::irexec::Exec;
use crate::oracle::sample;
use crate::report::{Ctx, Report};
use crate::rng::{hash_str, Rng};
use crate::rs::{self, Front, Mode, Opts, Outcome, Tgt};
use crate::CheckDef;

pub fn def() -> CheckDef {
    CheckDef {
        id: "C01",
        salt: 0xC01,
        rule: "typed random programs of the executable, resource-free subset (gen::prog: scalars incl. half/double, vectors, structs with \
               methods, arrays, enums, static/static const globals, all statement forms, in/out/inout/default parameters, overloads, function \
               templates, namespaces, casts, swizzles, all operators, ternary, comma, pure math intrinsics) plus a directed table of \
               (outer operator, inner operator, side) and unary-chain shapes; every callable function x 12 argument vectors (boundary + random \
               values) is executed on the source IR and on the re-read emitted HLSL for both flavours. evaluations = (function, argument \
               vector, flavour) samples compared; distinct_nontrivial = distinct accepted program texts with at least one defined, compared sample",
        assumptions: &[
            "the reference interpreter irexec implements RSSL's typed semantics (DESIGN.md appendix A); undefined/unspecified behaviour traps and the sample is discarded",
            "the emitted HLSL is given meaning by rssl's own front end + irexec (oracle iii of DESIGN §5 C01): a fault that the front end repeats identically when reading the text back is not visible here; C09 checks the printer/parser pair on its own",
            "transcendental kernels are shared by both sides: only which intrinsic is called with which arguments is checked",
        ],
        min_distinct: (400, 10_000),
        deadline_s: (90.0, 900.0),
        run,
        replay,
    }
}

pub const FLAVOURS: [Tgt; 2] = [Tgt::Dx, Tgt::Vk];

/// Examine one program text: returns true when at least one sample was compared
pub fn examine_program(text: &str, origin: &str, seed: u64, report: &mut Report) -> bool {
    let (src_ir, _ast) = match rs::front_text(text, true) {
        Front::Ok((ast, Some(ir))) => (ir, ast),
        Front::Ok(_) => return false,
        Front::Diag(d) => {
            report.count("program:rejected");
            if std::env::var("VERIF_DEBUG").is_ok() {
                eprintln!("=== program rejected ({}): {}", origin, d);
            }
            let first = d.lines().next().unwrap_or("");
            let msg = first.splitn(4, ':').last().unwrap_or(first).trim();
            let class: String = msg.split(|c: char| c == '\'' || c == '`' || c == '(').next().unwrap_or(msg).chars().take(48).collect();
            report.count(&format!("rejected:{}", class.trim()));
            if report.counters.get("rejected_samples_kept").copied().unwrap_or(0) < 3 {
                report.count("rejected_samples_kept");
                report.notes.push(format!("example rejected program ({}): {}", origin, first));
            }
            return false;
        }
        Front::Panic(c) => {
            // a panic of the front end is C08's business; not evidence about meaning preservation
            report.count("program:front-end-panic");
            report.count(&format!("skipped:panic:{}", c.signature()));
            return false;
        }
    };
    report.count("program:accepted");
    let functions = diffexec::callable_functions(&src_ir);
    if functions.is_empty() {
        report.count("program:no-callable-function");
        return false;
    }
    let mut compared_any = false;
    for flavour in FLAVOURS {
        let out = rs::compile_text(text, &Opts::new(flavour, Mode::NoPipeline));
        let emitted = match &out {
            Outcome::Ok(p) => p[0].source.clone(),
            Outcome::Diag(d) => {
                report.count("export:diagnostic");
                report.count(&format!("export-diag:{}", d.lines().next().unwrap_or("").chars().take(60).collect::<String>()));
                continue;
            }
            Outcome::Panic(c) => {
                report.count(&format!("skipped:export-panic:{}", c.signature()));
                continue;
            }
            Outcome::Budget { .. } => {
                report.count("skipped:budget");
                continue;
            }
        };
        let out_ir = match rs::front_text(&emitted, true) {
            Front::Ok((_, Some(ir))) => ir,
            Front::Ok(_) => continue,
            Front::Diag(d) => {
                // C04 owns "emitted HLSL is accepted"; here the sample cannot be evaluated
                report.count("skipped:emitted-text-rejected");
                if std::env::var("VERIF_DEBUG").is_ok() {
                    eprintln!("=== emitted text rejected ({}): {}", origin, d);
                }
                report.count(&format!("emitted-rejected:{}", d.lines().next().unwrap_or("").splitn(4, ':').last().unwrap_or("").trim().chars().take(50).collect::<String>()));
                // ... except for one thing that is this property's business: a name in the emitted text that resolves to nothing
                // (every use must refer to the entity it referred to in the source). The C-like interpreter resolves names itself.
                if let Front::Ok(tree) = rs::parse_text(&emitted) {
                    let no_globals = std::collections::BTreeMap::new();
                    'functions: for (fi, (name, id)) in functions.iter().enumerate() {
                        let imp = src_ir.function_registry.get_function_implementation(*id).as_ref().unwrap();
                        let Ok(proto) = Exec::new(&src_ir) else { break };
                        for k in 0..4u64 {
                            let mut rng = Rng::for_case(seed, hash_str(name) ^ (fi as u64) << 8, k);
                            let mut args = Vec::new();
                            for p in &imp.params {
                                match sample::value_for(&proto, p.param_type.type_id, &mut rng, true) {
                                    Some(v) => args.push(v),
                                    None => continue 'functions,
                                }
                            }
                            if !matches!(diffexec::ground_truth(&src_ir, *id, &args), Truth::Defined(_)) {
                                continue;
                            }
                            if let Err(crate::oracle::val::Trap::IllTyped(msg)) = diffexec::run_tree(&tree, crate::oracle::cexec::Dialect::Hlsl, name, &args, &no_globals) {
                                if msg.starts_with("unknown identifier") {
                                    report.evaluations += 1;
                                    let w = witness(seed, text, origin, flavour, name, &args, &emitted, "defined", &msg);
                                    report.violation(
                                        "emitted-name-unresolved",
                                        &format!("function {} of the emitted {} uses a name that no declaration in scope provides: {}", name, flavour.name(), msg),
                                        w,
                                    );
                                    break 'functions;
                                }
                            }
                        }
                    }
                }
                continue;
            }
            Front::Panic(c) => {
                report.count(&format!("skipped:reread-panic:{}", c.signature()));
                continue;
            }
        };
        let out_functions = diffexec::callable_functions(&out_ir);
        // oracle (ii): the emitted text under C-like HLSL semantics, independent of rssl's type checker
        let out_tree = match rs::parse_text(&emitted) {
            Front::Ok(t) => Some(t),
            _ => None,
        };
        let no_globals = std::collections::BTreeMap::new();
        for (fi, (name, id)) in functions.iter().enumerate() {
            let Some((_, out_id)) = out_functions.iter().find(|(n, _)| n == name) else {
                report.count("skipped:function-not-found-by-name");
                continue;
            };
            let imp = src_ir.function_registry.get_function_implementation(*id).as_ref().unwrap();
            let proto = match Exec::new(&src_ir) {
                Ok(e) => e,
                Err(t) => {
                    report.count(&format!("skipped:global-init:{}", diffexec::trap_class(&t)));
                    break;
                }
            };
            for k in 0..12u64 {
                let mut rng = Rng::for_case(seed, hash_str(name) ^ (fi as u64) << 8, k);
                let calm = k % 3 != 0;
                let mut args = Vec::new();
                let mut ok = true;
                for p in &imp.params {
                    match sample::value_for(&proto, p.param_type.type_id, &mut rng, calm) {
                        Some(v) => args.push(v),
                        None => {
                            ok = false;
                            break;
                        }
                    }
                }
                if !ok {
                    report.count("skipped:parameter-type-not-modelled");
                    break;
                }
                let truth = match diffexec::ground_truth(&src_ir, *id, &args) {
                    Truth::Defined(o) => o,
                    Truth::Skipped(why) => {
                        report.count(&format!("sample-skipped:{}", why));
                        continue;
                    }
                };
                let got = match diffexec::run(&out_ir, *out_id, &args, false, 400_000) {
                    Ok(o) => o,
                    Err(t) => {
                        // the source is defined on this sample but the emitted program is not: meaning changed
                        let class = diffexec::trap_class(&t);
                        if class.starts_with("unsupported:") {
                            report.count(&format!("sample-skipped:emitted-{}", class));
                            continue;
                        }
                        report.evaluations += 1;
                        let w = witness(seed, text, origin, flavour, name, &args, &emitted, &truth.describe(), &format!("emitted program traps: {}", class));
                        report.violation(&format!("emitted-undefined:{}", class), &format!("function {} is defined on the source but the emitted {} traps ({})", name, flavour.name(), class), w);
                        continue;
                    }
                };
                report.evaluations += 1;
                compared_any = true;
                report.count(&format!("compared:{}", flavour.name()));
                if let Some(d) = truth.diff(&got) {
                    let w = witness(seed, text, origin, flavour, name, &args, &emitted, &truth.describe(), &got.describe());
                    report.violation("meaning-changed", &format!("function {} computes a different result after export to {}: {}", name, flavour.name(), d), w);
                }
                if let Some(tree) = &out_tree {
                    match diffexec::run_tree(tree, crate::oracle::cexec::Dialect::Hlsl, name, &args, &no_globals) {
                        Ok(got2) => {
                            report.count("compared:c-like-hlsl-semantics");
                            if let Some(d) = truth.diff(&got2) {
                                let w = witness(seed, text, origin, flavour, name, &args, &emitted, &truth.describe(), &got2.describe());
                                report.violation(
                                    "meaning-changed:c-like-semantics",
                                    &format!("function {} computes a different result when the emitted {} is evaluated with C-like HLSL semantics: {}", name, flavour.name(), d),
                                    w,
                                );
                            }
                        }
                        Err(t) => {
                            let class = diffexec::trap_class(&t);
                            if class == "trap:uninitialised" {
                                // the source function is defined on these arguments (oracle i ran it), the emitted text read with
                                // C-like scoping computes with a value that was never written
                                let w = witness(seed, text, origin, flavour, name, &args, &emitted, &truth.describe(), "reads a value that was never written");
                                let shape = if !crate::oracle::decls::self_named_initialisers(tree).is_empty() { ":local-initialised-from-its-own-name" } else { "" };
                                report.violation(
                                    &format!("emitted-undefined:c-like-semantics:trap:uninitialised{}", shape),
                                    &format!("function {} is defined on the source but the emitted {} read with C-like HLSL semantics computes with a value that was never written", name, flavour.name()),
                                    w,
                                );
                            }
                            report.count(&format!("oracle-ii-skipped:{}", class));
                            if std::env::var("VERIF_DEBUG").is_ok() {
                                eprintln!("=== oracle ii gave up on {} ({}): {:?}", name, origin, t);
                            }
                        }
                    }
                }
            }
        }
    }
    compared_any
}

fn witness(arg_seed: u64, text: &str, origin: &str, flavour: Tgt, function: &str, args: &[crate::oracle::val::Value], emitted: &str, expected: &str, got: &str) -> Json {
    Json::obj()
        .set("origin", origin)
        .set("arg_seed", Json::Str(arg_seed.to_string()))
        .set("program", text)
        .set("flavour", flavour.name())
        .set("function", function)
        .set("arguments", Json::Arr(args.iter().map(|a| Json::str(format!("{}", a))).collect()))
        .set("source_semantics", expected)
        .set("emitted_semantics", got)
        .set("emitted", emitted)
}

/// Directed shapes: every (outer, inner, side) operator pair and unary chains over small typed leaves
pub fn directed_programs() -> Vec<String> {
    let bin_int = ["+", "-", "*", "/", "%", "<<", ">>", "&", "|", "^", "<", "<=", ">", ">=", "==", "!=", "&&", "||"];
    let mut out = Vec::new();
    let mut body = String::new();
    let mut n = 0;
    let mut flush = |body: &mut String, out: &mut Vec<String>| {
        if !body.is_empty() {
            out.push(std::mem::take(body));
        }
    };
    // binary-in-binary, both sides, int operands (division guarded by | 1 would change the shape: operands are chosen non-zero instead)
    for outer in bin_int {
        for inner in bin_int {
            for side in 0..2 {
                let e = if side == 0 { format!("(a {} b) {} c", inner, outer) } else { format!("a {} (b {} c)", outer, inner) };
                body.push_str(&format!("int t{}(int a, int b, int c) {{ return (int)({}); }}\n", n, e));
                n += 1;
                if n % 40 == 0 {
                    flush(&mut body, &mut out);
                }
            }
        }
    }
    flush(&mut body, &mut out);
    // unary chains and unary next to binary
    let un = ["-", "+", "~", "!"];
    for a in un {
        for b in un {
            body.push_str(&format!("int u{}(int x) {{ return (int)({}({}x)); }}\n", n, a, b));
            n += 1;
            body.push_str(&format!("int u{}(int x, int y) {{ return (int)(x - ({}y)); }}\n", n, b));
            n += 1;
            body.push_str(&format!("int u{}(int x, int y) {{ return (int)(x + ({}y)); }}\n", n, b));
            n += 1;
            for c in un {
                body.push_str(&format!("int u{}(int x) {{ return (int)({}({}({}x))); }}\n", n, a, b, c));
                n += 1;
            }
        }
    }
    flush(&mut body, &mut out);
    // increments next to signs, ternary/assignment/comma nesting
    let misc = [
        "int m0(int x) { int y = x; return -(--y); }",
        "int m1(int x) { int y = x; return +(++y); }",
        "int m2(int x) { int y = x; return -(y--); }",
        "int m3(int x) { int y = x; return (y++) + (+x); }",
        "int m4(int x, int y) { return x - (-y); }",
        "int m5(int x, int y) { return x + (+y); }",
        "int m6(int x, int y) { int z = 0; return x > 0 ? (z = y) : x; }",
        "int m7(int x, int y) { int z = 0; return (x > 0 ? y : x) + z; }",
        "int m8(int x, int y) { return (x, y); }",
        "int m9(int x, int y) { int z; z = (x, y); return z; }",
        "int m10(int x, int y, int z) { return x > 0 ? y : z > 0 ? x : y; }",
        "int m11(int x, int y, int z) { return (x > 0 ? y : z) > 0 ? x : y; }",
        "int m12(int x) { return (int)(float)x; }",
        "float m13(int x) { return (float)x / 2; }",
        "float m14(int x) { return (float)(x / 2); }",
        "uint m15(uint x) { return x >> 1u << 1u; }",
        "uint m16(uint x) { return x >> (1u << 1u); }",
        "int m17(int x, int y) { return x * (y + 1) - x * y + 1; }",
        "int m18(int x, int y) { return -x * y; }",
        "int m19(int x, int y) { return -(x * y); }",
        "float m20(float x) { return -(-x); }",
        "float m21(float x) { return - -x; }",
        "int m22(int x) { return ~(~x); }",
        "bool m23(bool b) { return !(!b); }",
        "int m24(int x) { int y = x; y = -y; y = - -y; return y; }",
        "float m25(float x) { return 1.0f - -1.0f * x; }",
        "int m26(int x) { return 1 - -1; }",
        "int m27(int x) { return -2147483647 - 1 + x; }",
        "float m28(float x) { return x * 0.0031308f + 0.055f; }",
        "float m29(float x) { return x + 16777217.0f; }",
        "float m30(float x) { return x * 1e-7f; }",
        "half m31(half x) { return x + 2.0h; }",
        "double m32(double x) { return x + 1.0L; }",
        "double m33(double x) { return x * 0.1L; }",
        "uint m34(uint x) { return x + 4294967295u; }",
        "int m35(int x) { return x + 0x7FFFFFFF; }",
        "float m36(int x) { return x + 0.5; }",
        "int m37(int x) { int a[3] = { 1, 2, 3 }; return a[((uint)x) % 3u] - -a[0]; }",
    ];
    let mut chunk = String::new();
    for (i, m) in misc.iter().enumerate() {
        chunk.push_str(m);
        chunk.push('\n');
        if i % 10 == 9 {
            out.push(std::mem::take(&mut chunk));
        }
    }
    if !chunk.is_empty() {
        out.push(chunk);
    }
    for t in scoping_programs() {
        out.push(t);
    }
    out
}

/// Scoping: entities inside (nested) namespaces used from inside and outside, forward declarations (shared with C02 and C04)
pub fn scoping_programs() -> Vec<String> {
    let scoping = [
        "namespace A { static const float c = 2.0f; static float m = 1.0f; float k(float x) { return x * c + m; } }\nfloat s0(float x) { return A::c + x; }\nfloat s1(float x) { A::m = x; return A::k(x) + A::m; }\n",
        "namespace A { static const int c = 5; struct S { int v; int get() { return v + c; } }; enum E { P = 3, Q = 7 }; int k(int x) { S s; s.v = x; return s.get() + (int)Q; } }\nint s2(int x) { A::S s; s.v = x; return s.get() + A::k(x) + (int)A::E::Q + A::c; }\n",
        "namespace A { namespace B { static const int c = 5; int g(int x) { return x + c; } struct S { int v; }; } int k(int x) { return B::g(x) + B::c; } }\nint s3(int x) { A::B::S s; s.v = A::B::c; return A::B::g(x) + A::k(x) + s.v; }\n",
        "static const int c = 1;\nnamespace A { static const int c = 10; int k(int x) { return x + c; } }\nnamespace B { static const int c = 100; int k(int x) { return x + c + A::c; } }\nint s4(int x) { return c + A::c + B::c + A::k(x) + B::k(x); }\n",
        "int fwd(int a, int b);\nint s5(int x) { return fwd(x, 2); }\nint fwd(int a, int b) { return a * b + 1; }\n",
        "int dflt(int a, int b = 3);\nint dflt(int a, int b) { return a * b + 1; }\nint s6(int x) { return dflt(x) + dflt(x, 5); }\n",
        "int dflt2(int a, int b = 3) { return a * b + 1; }\nint s7(int x) { return dflt2(x) + dflt2(x, 5); }\n",
        // a constant buffer inside a namespace used from outside; one struct bound to two template parameters
        "namespace NS { cbuffer C { float4 cv; } float g() { return cv.y; } namespace In { cbuffer D { float dv; } } }\nfloat s10(float x) { return NS::cv.x + NS::g() + NS::In::dv + x; }\n",
        "struct Mat { float v; };\ntemplate<typename A, typename B> float addv(A a, B b) { return a.v + b.v * 2.0f; }\nfloat s11(float x) { Mat m; m.v = x; Mat n; n.v = x + 1.0f; return addv(m, n); }\n",
        // user names spelled like the names the exporters generate for an overload set / a reserved word
        "float weight(float x) { return x * 2.0f; }\nfloat weight(int x) { return (float)x + 0.5f; }\nfloat s8(float x) { float weight_0 = weight(x); float weight_1 = weight((int)x); return weight_0 + weight_1 * 4.0f + weight(weight_0); }\n",
        "static float kernel = 1.5f;\nstatic float technique = 2.5f;\nfloat s9(float x) { float kernel_0 = x; float technique_0 = x * 3.0f; kernel += 1.0f; return kernel - kernel_0 + technique * technique_0; }\n",
        // a local that hides a parameter / an outer local and is initialised from the entity it hides (RSSL: the name in the
        // initialiser still denotes the outer entity)
        "int s12(int x) { int r = 0; { int x = x + 1; r = x; } return r * 10 + x; }\n",
        "float s13(float x) { float y = x * 2.0f; for (int i = 0; i < 2; ++i) { float y = y + 1.0f; x += y; } return x + y; }\n",
        // an array passed by value and written by the callee: the caller's array is unchanged
        "void fill(int a[2], int v) { a[0] = v; a[1] += v; }\nint s14(int x) { int v[2] = { x, 2 }; fill(v, 5); return v[0] * 100 + v[1]; }\n",
        // a function template with out / inout parameters (the Metal exporter adds a wrapper per instantiation)
        "template<typename T> void setv(out T v, T w) { v = w; }\ntemplate<typename T> T bump(inout T v, T w) { v += w; return v; }\nint s15(int x) { int a[2]; setv(a[0], x); setv(a[1], 7); int r = bump(a[1], 2); return a[0] * 100 + a[1] * 10 + r; }\n",
        // a parameter that carries a semantic and a default value, an interpolation modifier and a default value
        "float s16(float x, float gain : GAIN = 2.0f, nointerpolation float bias : BIAS = 0.5f) { return x * gain + bias; }\nfloat s17(float x) { return s16(x) + s16(x, 3.0f) + s16(x, 3.0f, 1.0f); }\n",
    ];
    scoping.iter().map(|t| t.to_string()).collect()
}

pub fn generated_program(seed: u64, index: u64) -> (String, Vec<&'static str>) {
    let mut rng = Rng::for_case(seed, 0x9e01, index);
    let mut cfg = prog::Config::default();
    if index % 4 == 0 {
        cfg.rich = false;
    }
    let p = prog::generate(&mut rng, cfg);
    (p.render(), p.features)
}

fn run(ctx: &Ctx) -> Report {
    let directed = directed_programs();
    let n_generated = ctx.tier.pick(4_000, 150_000);
    let n = directed.len() as u64 + n_generated;
    let seed = ctx.seed;
    crate::par::run_cases(ctx, n, |index, report| {
        let (text, origin, features) = if (index as usize) < directed.len() {
            (directed[index as usize].clone(), format!("directed:{}", index), vec!["directed-operator-table"])
        } else {
            let gi = index - directed.len() as u64;
            let (t, f) = generated_program(seed, gi);
            (t, format!("generated:{}", gi), f)
        };
        let compared = examine_program(&text, &origin, seed ^ index, report);
        if compared {
            report.distinct(hash_str(&text));
            for f in features {
                report.count(&format!("feature:{}", f));
            }
            if report.want_sample() && index % 7 == 3 {
                report.sample(Json::obj().set("origin", origin).set("program", text));
            }
        }
    })
}

fn replay(ctx: &Ctx, witness: &Json) -> Report {
    let mut report = Report::new();
    let text = witness.get_str("program").unwrap_or("");
    // the recorded argument seed reproduces exactly the argument vectors of the original run
    let seed = witness.get_str("arg_seed").and_then(|s| s.parse::<u64>().ok()).unwrap_or(ctx.seed);
    examine_program(text, "replay", seed, &mut report);
    report
}
