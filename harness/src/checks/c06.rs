//! C06 - not built yet
