//! C06 - binding slots are allocated completely, contiguously and without overlap.
//!
//! Reference-model monitor + invariant monitor. Small programs made of global declarations (every
//! bindable object kind x array length x explicit group x static sampler, mixed with globals that
//! are not resources) are type checked by the real front end; then
//!   (a) the real `Module::assign_api_bindings` is run for the four target configurations and the
//!       default bind groups 0..2 (pipelines P0..P2 of the same text) and without pipeline, and
//!   (b) the real `rssl::compile` is run for the same configurations and the reflection metadata is read.
//! What comes back is compared field by field with `refbind`, a bump allocator written from the
//! property text, and - independently of that model - checked for disjointness, absence of gaps,
//! declaration order and completeness.

use crate::json::Json;
use crate::par::{self, guard};
use crate::report::{Ctx, Report, Tier};
use crate::rng::{hash_str, Rng};
use crate::rs::{self, Front, Mode, Opts, Outcome, Tgt, ALL_TARGETS};
use crate::CheckDef;
use std::collections::BTreeMap;

pub fn def() -> CheckDef {
    CheckDef {
        id: "C06",
        salt: 0xC06,
        rule: "a case is a sequence of global declarations; one declaration = (object kind: the 20 bindable object types incl. ConstantBuffer<T>, or a \
               cbuffer block) x array {none,1,2,3} x explicit group {none,0,1,2} x static sampler or not (356 options). Sequences of length <= 2 are \
               enumerated exhaustively (thorough: all 127093; quick: a deterministic, seed dependent 10% sample: one index out of every 10 consecutive ones); lengths 3-6 \
               (the rest of the quantifier's 'up to 6') are covered by dense random sampling and lengths 7-12 by random sampling (half of the random cases each). \
               Around and between the declarations globals that are not resources (static, static const, groupshared, plain constant, struct, function) are mixed in; \
               random cases also vary the spelling of the group (register(spaceN) / register(xI, spaceN) / [[rssl::bind_group(N)]] / [[vk::binding(I, N)]] / [[rssl::bind_group(N)]] with [[vk::binding(I)]] on either side), types named through a typedef (with the array dimension), language \
               register indices, const, template arguments, array length expressions, several declarators per declaration, namespaces, [[rssl::bindless]] and the \
               position of the entry point and pipelines. Unbounded arrays are excluded (quantifier); bind groups stay in 0..2 (groups >= 4 on Metal are C08's finding). \
               Every case is observed through Module::assign_api_bindings for 4 target configurations x {P0,P1,P2 (DefaultBindGroup 0,1,2), no pipeline}; every 8th case also \
               through rssl::compile (metadata) for the same 16 configurations. evaluations = executions of assign_api_bindings / compile that a monitor compared; \
               distinct_nontrivial = distinct program texts with at least one bindable resource that the front end accepted",
        assumptions: &[
            "the harness maps a target to its AssignBindingsParams the way compile() does (rs::Tgt::binding_params); path (b) goes through the real mapping in src/compile.rs",
            "declared names are reported unchanged in global_registry / cbuffer_registry / metadata (generated names are not reserved words and are unique)",
            "what a declaration 'needs' is taken from the property text: 1 slot per array element, 2 per element for raw and structured buffers on Metal",
        ],
        min_distinct: (12_000, 150_000),
        deadline_s: (60.0, 600.0),
        run,
        replay,
    }
}

// ------------------------------------------------------------------------------------------------
// The declared world (input of the reference model)
// ------------------------------------------------------------------------------------------------

#[derive(Clone, Copy, PartialEq, Eq, Debug, Hash, PartialOrd, Ord)]
pub enum Kind {
    Buffer,
    RWBuffer,
    ByteAddressBuffer,
    RWByteAddressBuffer,
    BufferAddress,
    RWBufferAddress,
    StructuredBuffer,
    RWStructuredBuffer,
    Texture2D,
    Texture2DArray,
    RWTexture2D,
    RWTexture2DArray,
    TextureCube,
    TextureCubeArray,
    Texture3D,
    RWTexture3D,
    ConstantBufferT,
    SamplerState,
    SamplerComparisonState,
    RaytracingAccelerationStructure,
    /// `cbuffer Name { ... }`
    CBufferBlock,
}

use Kind::*;

/// (kind, label, spellings of the type, HLSL register class)
const KINDS: [(Kind, &str, &[&str], char); 21] = [
    (Buffer, "Buffer", &["Buffer<float4>", "Buffer<uint>", "Buffer<float>"], 't'),
    (RWBuffer, "RWBuffer", &["RWBuffer<float4>", "RWBuffer<uint>"], 'u'),
    (ByteAddressBuffer, "ByteAddressBuffer", &["ByteAddressBuffer"], 't'),
    (RWByteAddressBuffer, "RWByteAddressBuffer", &["RWByteAddressBuffer"], 'u'),
    (BufferAddress, "BufferAddress", &["BufferAddress"], 't'),
    (RWBufferAddress, "RWBufferAddress", &["RWBufferAddress"], 'u'),
    (StructuredBuffer, "StructuredBuffer", &["StructuredBuffer<S0>", "StructuredBuffer<float4>", "StructuredBuffer<uint>"], 't'),
    (RWStructuredBuffer, "RWStructuredBuffer", &["RWStructuredBuffer<S0>", "RWStructuredBuffer<float4>"], 'u'),
    (Texture2D, "Texture2D", &["Texture2D", "Texture2D<float4>", "Texture2D<uint4>", "Texture2D<float>"], 't'),
    (Texture2DArray, "Texture2DArray", &["Texture2DArray", "Texture2DArray<float4>"], 't'),
    (RWTexture2D, "RWTexture2D", &["RWTexture2D<float4>", "RWTexture2D<uint>"], 'u'),
    (RWTexture2DArray, "RWTexture2DArray", &["RWTexture2DArray<float4>"], 'u'),
    (TextureCube, "TextureCube", &["TextureCube", "TextureCube<float4>"], 't'),
    (TextureCubeArray, "TextureCubeArray", &["TextureCubeArray", "TextureCubeArray<float4>"], 't'),
    (Texture3D, "Texture3D", &["Texture3D", "Texture3D<float4>"], 't'),
    (RWTexture3D, "RWTexture3D", &["RWTexture3D<float4>", "RWTexture3D<uint>"], 'u'),
    (ConstantBufferT, "ConstantBuffer<T>", &["ConstantBuffer<S0>", "ConstantBuffer<S1>"], 'b'),
    (SamplerState, "SamplerState", &["SamplerState"], 's'),
    (SamplerComparisonState, "SamplerComparisonState", &["SamplerComparisonState"], 's'),
    (RaytracingAccelerationStructure, "RaytracingAccelerationStructure", &["RaytracingAccelerationStructure"], 't'),
    (CBufferBlock, "cbuffer", &["cbuffer"], 'b'),
];

impl Kind {
    fn row(self) -> &'static (Kind, &'static str, &'static [&'static str], char) {
        KINDS.iter().find(|r| r.0 == self).unwrap()
    }
    pub fn label(self) -> &'static str {
        self.row().1
    }
    fn from_label(s: &str) -> Option<Kind> {
        KINDS.iter().find(|r| r.1 == s).map(|r| r.0)
    }
    /// "raw and structured buffers" of the property text
    fn is_raw_or_structured(self) -> bool {
        matches!(self, ByteAddressBuffer | RWByteAddressBuffer | BufferAddress | RWBufferAddress | StructuredBuffer | RWStructuredBuffer)
    }
    fn is_buffer_address(self) -> bool {
        matches!(self, BufferAddress | RWBufferAddress)
    }
    fn is_sampler(self) -> bool {
        matches!(self, SamplerState | SamplerComparisonState)
    }
}

/// One declared global, in declaration order: the only thing the reference model looks at
#[derive(Clone, Debug, PartialEq)]
pub struct Entry {
    pub name: String,
    /// None = not a bindable resource (then `what` says what it is)
    pub kind: Option<Kind>,
    pub what: String,
    pub array: Option<u32>,
    pub group: Option<u32>,
    pub static_sampler: bool,
}

impl Entry {
    /// Short class of the construct, used in signatures and histograms
    fn construct(&self) -> String {
        match self.kind {
            Some(k) => format!("{}{}{}", if self.static_sampler { "static " } else { "" }, k.label(), if self.array.is_some() { "[]" } else { "" }),
            None => self.what.clone(),
        }
    }
    fn to_json(&self) -> Json {
        Json::obj()
            .set("name", &self.name)
            .set("kind", self.kind.map(|k| k.label()).unwrap_or(""))
            .set("what", &self.what)
            .set("array", self.array.map(|a| a as i64).unwrap_or(-1))
            .set("group", self.group.map(|a| a as i64).unwrap_or(-1))
            .set("static_sampler", self.static_sampler)
    }
    fn from_json(j: &Json) -> Entry {
        let opt = |k: &str| j.get(k).and_then(|v| v.as_i64()).filter(|v| *v >= 0).map(|v| v as u32);
        Entry {
            name: j.get_str("name").unwrap_or("").to_string(),
            kind: Kind::from_label(j.get_str("kind").unwrap_or("")),
            what: j.get_str("what").unwrap_or("").to_string(),
            array: opt("array"),
            group: opt("group"),
            static_sampler: j.get("static_sampler").and_then(|v| v.as_bool()).unwrap_or(false),
        }
    }
}

// ------------------------------------------------------------------------------------------------
// refbind - the reference model, written from the property text
// ------------------------------------------------------------------------------------------------

/// What the property says distinguishes the four target configurations
#[derive(Clone, Copy, Debug)]
pub struct Cfg {
    /// raw and structured buffers take twice the slots; static samplers take none
    metal: bool,
    /// buffer addresses enabled (Vulkan + support_buffer_address)
    buffer_address: bool,
}

fn cfg_of(t: Tgt) -> Cfg {
    Cfg {
        metal: t == Tgt::Msl,
        buffer_address: t == Tgt::VkBa,
    }
}

#[derive(Clone, Copy, PartialEq, Eq, Debug)]
pub enum Loc {
    Index(u32),
    Inline(u32),
}

impl Loc {
    fn show(self) -> String {
        match self {
            Loc::Index(i) => format!("slot {}", i),
            Loc::Inline(o) => format!("inline offset {}", o),
        }
    }
    fn to_json(self) -> Json {
        match self {
            Loc::Index(i) => Json::obj().set("slot", i),
            Loc::Inline(o) => Json::obj().set("inline_offset", o),
        }
    }
}

#[derive(Clone, Debug)]
pub struct ExpBinding {
    /// index into the entries
    entry: usize,
    group: u32,
    loc: Loc,
    /// array length (1 without array)
    count: u32,
}

#[derive(Clone, Debug, PartialEq, Eq, PartialOrd, Ord)]
pub struct InlineBlock {
    group: u32,
    slot: u32,
    size: u32,
}

#[derive(Clone, Debug, Default)]
pub struct Expected {
    bindings: Vec<ExpBinding>,
    inline: Vec<InlineBlock>,
}

/// Slots one declaration needs on the target: N consecutive slots for an array of N; twice that for raw and
/// structured buffers on Metal
fn need(kind: Kind, count: u32, cfg: Cfg) -> u32 {
    count * if cfg.metal && kind.is_raw_or_structured() { 2 } else { 1 }
}

pub fn refbind(entries: &[Entry], cfg: Cfg, default_group: u32) -> Expected {
    let mut next_slot: BTreeMap<u32, u32> = BTreeMap::new();
    let mut inline_size: BTreeMap<u32, u32> = BTreeMap::new();
    let mut out = Expected::default();
    for (i, e) in entries.iter().enumerate() {
        // non-resource globals take no slot
        let Some(kind) = e.kind else { continue };
        // on Metal static samplers take no slot
        if e.static_sampler && cfg.metal {
            continue;
        }
        // resources without explicit group go to the pipeline's default group
        let group = e.group.unwrap_or(default_group);
        let count = e.array.unwrap_or(1);
        if cfg.buffer_address && kind.is_buffer_address() && e.array.is_none() {
            // each non-array buffer address takes 8 bytes at a distinct offset of the group's inline constant block
            let size = inline_size.entry(group).or_insert(0);
            out.bindings.push(ExpBinding {
                entry: i,
                group,
                loc: Loc::Inline(*size),
                count,
            });
            *size += 8;
        } else {
            let next = next_slot.entry(group).or_insert(0);
            out.bindings.push(ExpBinding {
                entry: i,
                group,
                loc: Loc::Index(*next),
                count,
            });
            *next += need(kind, count, cfg);
        }
    }
    // one inline constant block per group: size = sum, slot follows all other slots of the group
    for (group, size) in inline_size {
        out.inline.push(InlineBlock {
            group,
            slot: next_slot.get(&group).copied().unwrap_or(0),
            size,
        });
    }
    out
}

// ------------------------------------------------------------------------------------------------
// Observation of the real code
// ------------------------------------------------------------------------------------------------

#[derive(Clone, Debug)]
pub struct ObsBinding {
    name: String,
    group: u32,
    loc: Loc,
    /// descriptor_count of the metadata (path b); None on path a
    count: Option<Option<u32>>,
}

#[derive(Clone, Debug, Default)]
pub struct Observed {
    bindings: Vec<ObsBinding>,
    inline: Vec<InlineBlock>,
}

impl Observed {
    fn to_json(&self) -> Json {
        Json::obj()
            .set(
                "bindings",
                Json::Arr(
                    self.bindings
                        .iter()
                        .map(|b| {
                            let mut j = Json::obj().set("name", &b.name).set("group", b.group).set("location", b.loc.to_json());
                            if let Some(c) = b.count {
                                j.put("descriptor_count", c.map(|v| v as i64).unwrap_or(-1));
                            }
                            j
                        })
                        .collect(),
                ),
            )
            .set(
                "inline_blocks",
                Json::Arr(self.inline.iter().map(|b| Json::obj().set("group", b.group).set("slot", b.slot).set("size", b.size)).collect()),
            )
    }
}

fn loc_of(l: rssl::ApiLocation) -> Loc {
    match l {
        rssl::ApiLocation::Index(i) => Loc::Index(i),
        rssl::ApiLocation::InlineConstant(o) => Loc::Inline(o),
    }
}

fn pipeline_name(dg: Option<u32>) -> Option<String> {
    dg.map(|g| format!("P{}", g))
}

/// The module with pipeline P<dg> selected (no selection without pipeline), as compile() does before it assigns bindings
fn select(module: &rssl::ir::Module, dg: Option<u32>) -> Result<rssl::ir::Module, String> {
    let r = guard(|| {
        let m = module.clone();
        match pipeline_name(dg) {
            Some(p) => m.select_pipeline(&p).ok_or(format!("harness: pipeline {} not found", p)),
            None => Ok(m),
        }
    });
    match r {
        Ok(r) => r,
        Err(c) => Err(format!("harness: select_pipeline panicked: {}", c.signature())),
    }
}

/// Path (a): the real assign_api_bindings on the type checked module (pipeline already selected)
fn observe_direct(selected: &rssl::ir::Module, tgt: Tgt) -> Result<Observed, String> {
    let r = guard(|| {
        let m = selected.clone();
        let m = m.assign_api_bindings(&tgt.binding_params());
        let mut obs = Observed::default();
        for g in &m.global_registry {
            if let Some(b) = g.api_slot {
                obs.bindings.push(ObsBinding {
                    name: g.name.node.clone(),
                    group: b.set,
                    loc: loc_of(b.location),
                    count: None,
                });
            }
        }
        for c in &m.cbuffer_registry {
            if let Some(b) = c.api_binding {
                obs.bindings.push(ObsBinding {
                    name: c.name.node.clone(),
                    group: b.set,
                    loc: loc_of(b.location),
                    count: None,
                });
            }
        }
        for b in &m.inline_constant_buffers {
            obs.inline.push(InlineBlock {
                group: b.set,
                slot: b.api_location,
                size: b.size_in_bytes,
            });
        }
        obs
    });
    match r {
        Ok(o) => Ok(o),
        Err(c) => Err(format!("panic:{}", c.signature())),
    }
}

/// Path (b): what the caller of compile() gets
fn observe_metadata(md: &rssl::PipelineDescription) -> Observed {
    let mut obs = Observed::default();
    for (gi, g) in md.bind_groups.iter().enumerate() {
        for b in &g.bindings {
            obs.bindings.push(ObsBinding {
                name: b.name.clone(),
                group: gi as u32,
                loc: loc_of(b.api_binding),
                count: Some(b.descriptor_count),
            });
        }
        if let Some(i) = &g.inline_constants {
            obs.inline.push(InlineBlock {
                group: gi as u32,
                slot: i.api_location,
                size: i.size_in_bytes,
            });
        }
    }
    obs
}

// ------------------------------------------------------------------------------------------------
// Monitors
// ------------------------------------------------------------------------------------------------

struct Finding {
    signature: String,
    summary: String,
}

/// Monitor 1: field by field equality with refbind
fn monitor_refbind(entries: &[Entry], tgt: Tgt, dg: Option<u32>, obs: &Observed) -> Option<Finding> {
    let cfg = cfg_of(tgt);
    // without pipeline the default group is 0
    let exp = refbind(entries, cfg, dg.unwrap_or(0));
    let t = tgt.name();
    let fail = |sig: String, summary: String| Some(Finding { signature: sig, summary });

    // every observed binding belongs to exactly one declaration
    for (i, b) in obs.bindings.iter().enumerate() {
        if obs.bindings[..i].iter().any(|o| o.name == b.name) {
            return fail(format!("duplicate@{}", t), format!("{} is bound more than once", b.name));
        }
        match entries.iter().position(|e| e.name == b.name) {
            None => return fail(format!("unexpected:unknown-name@{}", t), format!("a binding for {} which was never declared", b.name)),
            Some(ei) => {
                if !exp.bindings.iter().any(|x| x.entry == ei) {
                    let e = &entries[ei];
                    return fail(
                        format!("unexpected:{}@{}", e.construct(), t),
                        format!("{} ({}) must take no slot but got group {} {}", e.name, e.construct(), b.group, b.loc.show()),
                    );
                }
            }
        }
    }
    // every expected binding is there, in the right place
    let mut last_in_group: BTreeMap<u32, String> = BTreeMap::new();
    for x in &exp.bindings {
        let e = &entries[x.entry];
        let Some(o) = obs.bindings.iter().find(|o| o.name == e.name) else {
            return fail(format!("missing:{}@{}", e.construct(), t), format!("{} ({}) received no binding", e.name, e.construct()));
        };
        if o.group != x.group {
            return fail(
                format!("group:{}@{}", e.construct(), t),
                format!("{} ({}) is in group {} but belongs to group {}", e.name, e.construct(), o.group, x.group),
            );
        }
        if o.loc != x.loc {
            let sig = match (x.loc, o.loc) {
                (Loc::Index(_), Loc::Index(_)) => {
                    format!("slot-after:{}@{}", last_in_group.get(&x.group).map(|s| s.as_str()).unwrap_or("start"), t)
                }
                (Loc::Inline(_), Loc::Inline(_)) => format!("inline-offset:{}@{}", e.construct(), t),
                _ => format!("location-kind:{}@{}", e.construct(), t),
            };
            return fail(sig, format!("{} ({}) in group {}: got {}, the property gives {}", e.name, e.construct(), x.group, o.loc.show(), x.loc.show()));
        }
        if let Some(c) = o.count {
            if c != Some(x.count) {
                return fail(
                    format!("count:{}@{}", e.construct(), t),
                    format!("{} ({}) reports descriptor_count {:?}, declared {}", e.name, e.construct(), c, x.count),
                );
            }
        }
        if let Loc::Index(_) = x.loc {
            last_in_group.insert(x.group, e.construct());
        }
    }
    // inline constant blocks
    let mut got = obs.inline.clone();
    got.sort();
    for x in &exp.inline {
        let same_group: Vec<&InlineBlock> = got.iter().filter(|b| b.group == x.group).collect();
        match same_group.as_slice() {
            [] => return fail(format!("inline-block-missing@{}", t), format!("group {} has buffer addresses but no inline constant block", x.group)),
            [b] => {
                if b.size != x.size {
                    return fail(format!("inline-block-size@{}", t), format!("inline block of group {} has size {}, the sum is {}", x.group, b.size, x.size));
                }
                if b.slot != x.slot {
                    return fail(
                        format!("inline-block-slot@{}", t),
                        format!("inline block of group {} sits at slot {}, the slot after all others is {}", x.group, b.slot, x.slot),
                    );
                }
            }
            _ => return fail(format!("inline-block-multiple@{}", t), format!("group {} has {} inline constant blocks", x.group, same_group.len())),
        }
    }
    for b in &got {
        if !exp.inline.iter().any(|x| x.group == b.group) {
            return fail(format!("inline-block-unexpected@{}", t), format!("group {} has an inline constant block but no buffer address uses it", b.group));
        }
    }
    None
}

/// Monitor 2: model free invariants per group, from what was observed and what each declaration needs
fn monitor_invariants(entries: &[Entry], tgt: Tgt, obs: &Observed) -> Option<Finding> {
    let cfg = cfg_of(tgt);
    let t = tgt.name();
    let fail = |sig: String, summary: String| Some(Finding { signature: sig, summary });
    let mut groups: Vec<u32> = obs.bindings.iter().map(|b| b.group).chain(obs.inline.iter().map(|b| b.group)).collect();
    groups.sort();
    groups.dedup();
    for g in groups {
        // (start, end, declaration position, name)
        let mut ranges: Vec<(u32, u32, usize, &str)> = Vec::new();
        let mut offsets: Vec<(u32, &str)> = Vec::new();
        for b in obs.bindings.iter().filter(|b| b.group == g) {
            let Some(pos) = entries.iter().position(|e| e.name == b.name) else { continue };
            let e = &entries[pos];
            let Some(kind) = e.kind else { continue };
            match b.loc {
                Loc::Index(start) => {
                    // prefer the reported descriptor count over the declared one
                    let count = b.count.flatten().unwrap_or(e.array.unwrap_or(1));
                    ranges.push((start, start + need(kind, count, cfg), pos, &b.name));
                }
                Loc::Inline(off) => offsets.push((off, &b.name)),
            }
        }
        ranges.sort();
        let mut end = 0;
        for (i, r) in ranges.iter().enumerate() {
            if r.0 < end {
                return fail(
                    format!("invariant:overlap@{}", t),
                    format!("group {}: {} [{}, {}) overlaps {} [{}, {})", g, r.3, r.0, r.1, ranges[i - 1].3, ranges[i - 1].0, ranges[i - 1].1),
                );
            }
            if r.0 > end {
                return fail(format!("invariant:gap@{}", t), format!("group {}: slots [{}, {}) before {} belong to nobody", g, end, r.0, r.3));
            }
            if i > 0 && ranges[i - 1].2 > r.2 {
                return fail(
                    format!("invariant:order@{}", t),
                    format!("group {}: {} was declared after {} but has the lower slot", g, ranges[i - 1].3, r.3),
                );
            }
            end = r.1;
        }
        offsets.sort();
        let blocks: Vec<&InlineBlock> = obs.inline.iter().filter(|b| b.group == g).collect();
        if offsets.is_empty() && blocks.is_empty() {
            continue;
        }
        if blocks.len() != 1 {
            return fail(
                format!("invariant:inline-block-count@{}", t),
                format!("group {}: {} buffer addresses at inline offsets but {} inline blocks", g, offsets.len(), blocks.len()),
            );
        }
        let block = blocks[0];
        for (i, o) in offsets.iter().enumerate() {
            if i > 0 && offsets[i - 1].0 + 8 > o.0 {
                return fail(
                    format!("invariant:inline-overlap@{}", t),
                    format!("group {}: {} at offset {} overlaps {} at offset {}", g, o.1, o.0, offsets[i - 1].1, offsets[i - 1].0),
                );
            }
            if o.0 + 8 > block.size {
                return fail(format!("invariant:inline-out-of-block@{}", t), format!("group {}: {} at offset {} is outside the block of {} bytes", g, o.1, o.0, block.size));
            }
        }
        if block.size != 8 * offsets.len() as u32 {
            return fail(
                format!("invariant:inline-size@{}", t),
                format!("group {}: block of {} bytes for {} buffer addresses", g, block.size, offsets.len()),
            );
        }
        if block.slot != end {
            return fail(
                format!("invariant:inline-slot@{}", t),
                format!("group {}: the inline block is at slot {} but the other slots are [0, {})", g, block.slot, end),
            );
        }
    }
    None
}

// ------------------------------------------------------------------------------------------------
// Cases: declarations and their text
// ------------------------------------------------------------------------------------------------

/// How the explicit group and the (irrelevant) language register index are spelled
#[derive(Clone, Copy, PartialEq, Eq, Debug)]
enum Spelling {
    /// nothing / `: register(spaceN)`
    Plain,
    /// `: register(t3)` / `: register(t3, spaceN)`
    Register(u32),
    /// nothing / `[[rssl::bind_group(N)]]`
    Attribute,
    /// `[[vk::binding(3)]]` / `[[vk::binding(3, N)]]`
    VkBinding(u32),
    /// `: register(t3)` plus `[[rssl::bind_group(N)]]`
    AttributeAndRegister(u32),
    /// `[[rssl::bind_group(N)]] [[vk::binding(3)]]`, or the two attributes the other way round
    AttributeAndVkBinding(u32, bool),
}

#[derive(Clone, Debug)]
struct ResDecl {
    kind: Kind,
    /// (name, array length, spelling of the array length: 0 literal, 1 expression, 2 named constant)
    declarators: Vec<(String, Option<u32>, u8)>,
    group: Option<u32>,
    spelling: Spelling,
    static_sampler: bool,
    type_variant: usize,
    is_const: bool,
    bindless: bool,
    namespace: Option<String>,
    /// the type (with the array dimension, if any) is named by a typedef in front of the declaration
    via_typedef: bool,
}

#[derive(Clone, Debug)]
enum Decl {
    Res(ResDecl),
    /// (flavour 0..6, name)
    Other(usize, String),
    /// entry point and pipelines
    Pipelines,
}

const OTHER_KINDS: [&str; 6] = [
    "nonresource:static",
    "nonresource:static-const",
    "nonresource:groupshared",
    "nonresource:plain-constant",
    "nonresource:struct",
    "nonresource:function",
];

fn array_text(len: Option<u32>, how: u8) -> String {
    match len {
        None => String::new(),
        Some(n) => match how {
            1 => format!("[{} + {}]", n - 1, 1),
            2 => format!("[k_len{}]", n),
            _ => format!("[{}]", n),
        },
    }
}

fn render_decl(d: &Decl, out: &mut String, entries: &mut Vec<Entry>) {
    match d {
        Decl::Pipelines => {
            out.push_str("[numthreads(1, 1, 1)]\nvoid main() {}\n");
            for g in 0..3 {
                out.push_str(&format!("Pipeline P{} {{ ComputeShader = main; DefaultBindGroup = {}; }}\n", g, g));
            }
        }
        Decl::Other(flavour, name) => {
            match flavour {
                0 => out.push_str(&format!("static uint {} = 1;\n", name)),
                1 => out.push_str(&format!("static const float4 {} = float4(1, 2, 3, 4);\n", name)),
                2 => out.push_str(&format!("groupshared float4 {}[4];\n", name)),
                3 => out.push_str(&format!("float4 {};\n", name)),
                4 => out.push_str(&format!("struct {} {{ float4 a; uint b; }};\n", name)),
                _ => out.push_str(&format!("float {}(float x) {{ return x + 1.0; }}\n", name)),
            }
            entries.push(Entry {
                name: name.clone(),
                kind: None,
                what: OTHER_KINDS[*flavour].to_string(),
                array: None,
                group: None,
                static_sampler: false,
            });
        }
        Decl::Res(r) => {
            let row = r.kind.row();
            let reg = row.3;
            let mut attrs = String::new();
            let mut annotation = String::new();
            match (r.spelling, r.group) {
                (Spelling::Plain, None) | (Spelling::Attribute, None) => {}
                (Spelling::Plain, Some(g)) => annotation = format!(" : register(space{})", g),
                (Spelling::Register(i), None) => annotation = format!(" : register({}{})", reg, i),
                (Spelling::Register(i), Some(g)) => annotation = format!(" : register({}{}, space{})", reg, i, g),
                (Spelling::Attribute, Some(g)) => attrs = format!("[[rssl::bind_group({})]] ", g),
                (Spelling::VkBinding(i), None) => attrs = format!("[[vk::binding({})]] ", i),
                (Spelling::VkBinding(i), Some(g)) => attrs = format!("[[vk::binding({}, {})]] ", i, g),
                (Spelling::AttributeAndRegister(i), None) => annotation = format!(" : register({}{})", reg, i),
                (Spelling::AttributeAndRegister(i), Some(g)) => {
                    attrs = format!("[[rssl::bind_group({})]] ", g);
                    annotation = format!(" : register({}{})", reg, i);
                }
                (Spelling::AttributeAndVkBinding(i, _), None) => attrs = format!("[[vk::binding({})]] ", i),
                (Spelling::AttributeAndVkBinding(i, false), Some(g)) => attrs = format!("[[rssl::bind_group({})]] [[vk::binding({})]] ", g, i),
                (Spelling::AttributeAndVkBinding(i, true), Some(g)) => attrs = format!("[[vk::binding({})]] [[rssl::bind_group({})]] ", i, g),
            }
            if r.bindless {
                attrs = format!("[[rssl::bindless]] {}", attrs);
            }
            if let Some(ns) = &r.namespace {
                out.push_str(&format!("namespace {} {{ ", ns));
            }
            if r.kind == CBufferBlock {
                let name = &r.declarators[0].0;
                out.push_str(&format!("{}cbuffer {}{} {{ float4 {}_m0; uint {}_m1; }}", attrs, name, annotation, name, name));
            } else {
                let ty = row.2[r.type_variant % row.2.len()];
                // (the front end refuses register() on an array type that comes from a typedef)
                let via_typedef = r.via_typedef && r.declarators.len() == 1 && (annotation.is_empty() || r.declarators[0].1.is_none());
                if via_typedef {
                    let (name, len, how) = &r.declarators[0];
                    out.push_str(&format!("typedef {} TD_{}{}; ", ty, name, array_text(*len, *how)));
                    out.push_str(&format!("{}{}TD_{} ", attrs, if r.is_const { "const " } else { "" }, name));
                } else {
                    out.push_str(&format!("{}{}{} ", attrs, if r.is_const { "const " } else { "" }, ty));
                }
                for (i, (name, len, how)) in r.declarators.iter().enumerate() {
                    if i > 0 {
                        out.push_str(", ");
                    }
                    let dims = if via_typedef { String::new() } else { array_text(*len, *how) };
                    out.push_str(&format!("{}{}{}", name, dims, annotation));
                    if r.static_sampler {
                        out.push_str(" = StaticSampler { Filter = MIN_MAG_MIP_LINEAR; }");
                    }
                }
                out.push(';');
            }
            if r.namespace.is_some() {
                out.push_str(" }");
            }
            out.push('\n');
            for (name, len, _) in &r.declarators {
                entries.push(Entry {
                    name: name.clone(),
                    kind: Some(r.kind),
                    what: String::new(),
                    array: *len,
                    group: r.group,
                    static_sampler: r.static_sampler,
                });
            }
        }
    }
}

#[derive(Clone, Debug)]
pub struct Case {
    pub family: &'static str,
    pub text: String,
    pub entries: Vec<Entry>,
}

fn render_case(family: &'static str, decls: &[Decl]) -> Case {
    let mut text = String::new();
    let mut entries = Vec::new();
    // prelude: types and constants the declarations may refer to (they are globals that take no slot, too)
    text.push_str("struct S0 { float4 v; uint w; };\nstruct S1 { float4x4 m; };\nstatic const uint k_len1 = 1;\nstatic const uint k_len2 = 2;\nstatic const uint k_len3 = 3;\n");
    for (name, what) in [("k_len1", 1), ("k_len2", 1), ("k_len3", 1)] {
        entries.push(Entry {
            name: name.to_string(),
            kind: None,
            what: OTHER_KINDS[what].to_string(),
            array: None,
            group: None,
            static_sampler: false,
        });
    }
    for d in decls {
        render_decl(d, &mut text, &mut entries);
    }
    Case { family, text, entries }
}

/// The 356 options of one declaration: (kind, array, group, static sampler)
fn options() -> Vec<(Kind, Option<u32>, Option<u32>, bool)> {
    let arrays = [None, Some(1), Some(2), Some(3)];
    let groups = [None, Some(0), Some(1), Some(2)];
    let mut out = Vec::new();
    for row in KINDS.iter() {
        let kind = row.0;
        for a in arrays {
            if kind == CBufferBlock && a.is_some() {
                // a cbuffer block has no array form
                continue;
            }
            for g in groups {
                out.push((kind, a, g, false));
                if kind.is_sampler() {
                    out.push((kind, a, g, true));
                }
            }
        }
    }
    out
}

/// Spellings a declaration admits (static samplers must not carry a language register index; the attribute forms go in front of the declaration)
fn spelling_for(choice: usize, index: u32, static_sampler: bool) -> Spelling {
    if static_sampler {
        return if choice % 2 == 0 { Spelling::Plain } else { Spelling::Attribute };
    }
    match choice % 7 {
        0 => Spelling::Plain,
        1 => Spelling::Register(index),
        2 => Spelling::Attribute,
        3 => Spelling::VkBinding(index),
        4 => Spelling::AttributeAndRegister(index),
        5 => Spelling::AttributeAndVkBinding(index, false),
        _ => Spelling::AttributeAndVkBinding(index, true),
    }
}

fn exhaustive_count(opts: usize) -> u64 {
    1 + opts as u64 + (opts as u64) * (opts as u64)
}

/// Case `index` of the enumeration of all sequences of length <= 2
fn exhaustive_case(index: u64, opts: &[(Kind, Option<u32>, Option<u32>, bool)]) -> Case {
    let n = opts.len() as u64;
    let picks: Vec<usize> = if index == 0 {
        vec![]
    } else if index <= n {
        vec![(index - 1) as usize]
    } else {
        let k = index - 1 - n;
        vec![(k / n) as usize, (k % n) as usize]
    };
    let mut decls: Vec<Decl> = Vec::new();
    for (pos, p) in picks.iter().enumerate() {
        let (kind, array, group, static_sampler) = opts[*p];
        let choice = (index as usize).wrapping_mul(7) + pos * 3;
        let name = if kind == CBufferBlock { format!("CB{}", pos) } else { format!("g_r{}", pos) };
        decls.push(Decl::Res(ResDecl {
            kind,
            declarators: vec![(name, array, 0)],
            group,
            spelling: spelling_for(choice, (index % 6) as u32 + pos as u32, static_sampler),
            static_sampler,
            type_variant: 0,
            is_const: false,
            bindless: false,
            namespace: None,
            via_typedef: kind != CBufferBlock && (index / 3) % 4 == 1,
        }));
    }
    // a global that is not a resource in front of / between / behind the declarations (6 cases out of 7)
    let f = (index % 7) as usize;
    if f > 0 {
        let at = ((index / 7) as usize) % (decls.len() + 1);
        decls.insert(at, Decl::Other(f - 1, format!("n_x{}", f)));
    }
    decls.push(Decl::Pipelines);
    render_case("exhaustive<=2", &decls)
}

fn random_case(rng: &mut Rng) -> Case {
    let long = rng.chance(1, 2);
    let len = if long { rng.range(7, 12) } else { rng.range(3, 6) } as usize;
    let mut decls: Vec<Decl> = Vec::new();
    let mut counter = 0;
    // a bias towards few groups and few kinds makes neighbours in the same group likely
    let focus_group: Option<Option<u32>> = if rng.chance(1, 3) { Some(if rng.chance(1, 2) { None } else { Some(rng.below(3) as u32) }) } else { None };
    for _ in 0..len {
        counter += 1;
        let kind = KINDS[rng.below(KINDS.len())].0;
        let static_sampler = kind.is_sampler() && rng.chance(2, 5);
        let mut group = if rng.chance(2, 5) { None } else { Some(rng.below(3) as u32) };
        if let Some(fg) = focus_group {
            if rng.chance(3, 4) {
                group = fg;
            }
        }
        let spelling = spelling_for(rng.below(14), rng.below(10) as u32, static_sampler);
        let mut declarators = Vec::new();
        let n_declarators = if kind != CBufferBlock && matches!(spelling, Spelling::Plain | Spelling::Attribute) && (group.is_none() || spelling == Spelling::Attribute) && rng.chance(1, 8) {
            2 + rng.below(2)
        } else {
            1
        };
        for _ in 0..n_declarators {
            let array = if kind == CBufferBlock || rng.chance(1, 2) { None } else { Some(1 + rng.below(3) as u32) };
            let name = if kind == CBufferBlock { format!("CB{}", counter) } else { format!("g_r{}", counter) };
            counter += 1;
            declarators.push((name, array, rng.below(4) as u8));
        }
        let any_array = declarators.iter().any(|d| d.1.is_some());
        decls.push(Decl::Res(ResDecl {
            kind,
            declarators,
            group,
            spelling,
            static_sampler,
            type_variant: rng.below(4),
            is_const: kind != CBufferBlock && rng.chance(1, 5),
            bindless: kind != CBufferBlock && !static_sampler && any_array && rng.chance(1, 6),
            namespace: if rng.chance(1, 12) { Some(format!("NS{}", counter)) } else { None },
            via_typedef: kind != CBufferBlock && rng.chance(1, 5),
        }));
    }
    // globals that are not resources, anywhere
    let fillers = rng.below(4);
    for i in 0..fillers {
        let at = rng.below(decls.len() + 1);
        decls.insert(at, Decl::Other(rng.below(6), format!("n_x{}", i)));
    }
    // entry point and pipelines: mostly at the end, sometimes earlier
    let at = if rng.chance(2, 3) { decls.len() } else { rng.below(decls.len() + 1) };
    decls.insert(at, Decl::Pipelines);
    render_case(if long { "random 7-12" } else { "random 3-6" }, &decls)
}

// ------------------------------------------------------------------------------------------------
// Running one case
// ------------------------------------------------------------------------------------------------

const DEFAULT_GROUPS: [Option<u32>; 4] = [Some(0), Some(1), Some(2), None];

fn dg_name(dg: Option<u32>) -> String {
    match dg {
        Some(g) => g.to_string(),
        None => "no-pipeline".to_string(),
    }
}

fn witness(case: &Case, tgt: Tgt, dg: Option<u32>, path: &str, obs: Option<&Observed>) -> Json {
    let exp = refbind(&case.entries, cfg_of(tgt), dg.unwrap_or(0));
    let mut j = Json::obj()
        .set("text", &case.text)
        .set("entries", Json::Arr(case.entries.iter().map(|e| e.to_json()).collect()))
        .set("target", tgt.name())
        .set("default_group", dg.map(|g| g as i64).unwrap_or(-1))
        .set("path", path)
        .set(
            "expected",
            Json::obj()
                .set(
                    "bindings",
                    Json::Arr(
                        exp.bindings
                            .iter()
                            .map(|b| {
                                Json::obj()
                                    .set("name", &case.entries[b.entry].name)
                                    .set("construct", case.entries[b.entry].construct())
                                    .set("group", b.group)
                                    .set("location", b.loc.to_json())
                                    .set("count", b.count)
                            })
                            .collect(),
                    ),
                )
                .set(
                    "inline_blocks",
                    Json::Arr(exp.inline.iter().map(|b| Json::obj().set("group", b.group).set("slot", b.slot).set("size", b.size)).collect()),
                ),
        );
    if let Some(o) = obs {
        j.put("observed", o.to_json());
    }
    j
}

/// Apply both monitors to one observation
fn judge(case: &Case, tgt: Tgt, dg: Option<u32>, path: &str, obs: &Observed, report: &mut Report) {
    report.evaluations += 1;
    for f in [monitor_refbind(&case.entries, tgt, dg, obs), monitor_invariants(&case.entries, tgt, obs)].into_iter().flatten() {
        let summary = format!("[{} default group {} via {}] {}", tgt.name(), dg_name(dg), path, f.summary);
        report.violation(&f.signature, &summary, witness(case, tgt, dg, path, Some(obs)));
    }
}

fn observe_and_judge_direct(case: &Case, selected: &rssl::ir::Module, tgt: Tgt, dg: Option<u32>, report: &mut Report) -> Option<Observed> {
    match observe_direct(selected, tgt) {
        Ok(obs) => {
            judge(case, tgt, dg, "assign_api_bindings", &obs, report);
            Some(obs)
        }
        Err(e) if e.starts_with("panic:") => {
            // the allocator itself gave up: no resource received a range
            report.evaluations += 1;
            report.violation(
                &format!("{}@{}", e.replace("panic:", "panic:assign_api_bindings:"), tgt.name()),
                &format!("[{} default group {}] assign_api_bindings panicked: {}", tgt.name(), dg_name(dg), e),
                witness(case, tgt, dg, "assign_api_bindings", None),
            );
            None
        }
        Err(e) => {
            report.inconclusive(&e);
            None
        }
    }
}

fn observe_and_judge_compile(case: &Case, tgt: Tgt, dg: Option<u32>, report: &mut Report) -> Option<Observed> {
    let mode = match pipeline_name(dg) {
        Some(p) => Mode::Named(p),
        None => Mode::NoPipeline,
    };
    let outcome = rs::compile_text(&case.text, &Opts::new(tgt, mode));
    match &outcome {
        Outcome::Ok(pipes) if pipes.len() == 1 => {
            let obs = observe_metadata(&pipes[0].metadata);
            judge(case, tgt, dg, "compile", &obs, report);
            report.count(&format!("compile:ok:{}", tgt.name()));
            Some(obs)
        }
        Outcome::Ok(p) => {
            report.count("skipped:compile-pipeline-count");
            report.notes.push(format!("compile returned {} pipelines for a named pipeline", p.len()));
            None
        }
        // whether compile succeeds at all is C08's business
        other => {
            report.count(&format!("skipped:compile-{}:{}", other.class(), tgt.name()));
            if report.notes.len() < 5 {
                report.notes.push(format!("compile did not succeed ({}): {}", tgt.name(), other.brief()));
            }
            None
        }
    }
}

fn run_case(case: &Case, with_compile: bool, report: &mut Report) {
    let module = match rs::typecheck_text(&case.text) {
        Front::Ok(m) => m,
        Front::Diag(d) => {
            report.count("skipped:rejected-by-front-end");
            if report.notes.len() < 5 {
                report.notes.push(format!("front end rejected a generated program: {} :: {}", d.lines().next().unwrap_or(""), case.text.replace('\n', " ")));
            }
            return;
        }
        Front::Panic(c) => {
            report.count("skipped:panic-in-front-end");
            if report.notes.len() < 5 {
                report.notes.push(format!("front end panicked on a generated program: {}", c.signature()));
            }
            return;
        }
    };
    let bindable = case.entries.iter().filter(|e| e.kind.is_some()).count();
    if bindable > 0 {
        report.distinct(hash_str(&case.text));
    }
    // what the workload contained
    report.count(&format!("family:{}", case.family));
    report.count(&format!("resources-per-case:{:02}", bindable));
    for e in &case.entries {
        report.count(&format!("decl:{}", e.construct()));
        if e.kind.is_some() {
            report.count(&format!(
                "decl-shape:array={},group={}",
                e.array.map(|a| a.to_string()).unwrap_or("none".into()),
                e.group.map(|a| a.to_string()).unwrap_or("none".into())
            ));
        }
    }
    for dg in DEFAULT_GROUPS {
        let selected = match select(&module, dg) {
            Ok(m) => m,
            Err(e) => {
                report.inconclusive(&e);
                continue;
            }
        };
        for tgt in ALL_TARGETS {
            let direct = observe_and_judge_direct(case, &selected, tgt, dg, report);
            if let Some(obs) = &direct {
                // what the monitors saw
                let mut per_group: BTreeMap<u32, u32> = BTreeMap::new();
                for b in &obs.bindings {
                    *per_group.entry(b.group).or_insert(0) += 1;
                }
                for (_, n) in per_group {
                    report.max("max:bindings-in-one-group", n as u64);
                    if n >= 2 {
                        report.count("observed:groups-with-2+-bindings");
                    }
                }
                for b in &obs.inline {
                    report.count(&format!("observed:inline-block-bytes:{:03}", b.size));
                }
                report.count_n(&format!("observed:bindings:{}", tgt.name()), obs.bindings.len() as u64);
            }
            if with_compile {
                let compiled = observe_and_judge_compile(case, tgt, dg, report);
                // both paths must tell the same story (they are compared to the same model; this is the direct cross check)
                if let (Some(a), Some(b)) = (&direct, &compiled) {
                    let mut x: Vec<(String, u32, Loc)> = a.bindings.iter().map(|o| (o.name.clone(), o.group, o.loc)).collect();
                    let mut y: Vec<(String, u32, Loc)> = b.bindings.iter().map(|o| (o.name.clone(), o.group, o.loc)).collect();
                    x.sort_by(|p, q| p.0.cmp(&q.0));
                    y.sort_by(|p, q| p.0.cmp(&q.0));
                    let mut ia = a.inline.clone();
                    let mut ib = b.inline.clone();
                    ia.sort();
                    ib.sort();
                    if x == y && ia == ib {
                        report.count("observed:compile-agrees-with-direct");
                    } else {
                        report.count("observed:compile-differs-from-direct");
                    }
                }
            }
        }
    }
}

// ------------------------------------------------------------------------------------------------
// Workload
// ------------------------------------------------------------------------------------------------

const COMPILE_EVERY: u64 = 8;

fn run(ctx: &Ctx) -> Report {
    let opts = options();
    let total = exhaustive_count(opts.len());
    let mut report = Report::new();

    // a few cases written out in full, with what the model expects for two of the configurations
    for (k, case) in [exhaustive_case(total - 1 - 4 * 357, &opts), exhaustive_case(77_777, &opts)]
        .into_iter()
        .chain((0..3).map(|i| random_case(&mut Rng::for_case(ctx.seed, 0xA06, i))))
        .enumerate()
    {
        let tgt = if k % 2 == 0 { Tgt::Msl } else { Tgt::VkBa };
        let mut j = witness(&case, tgt, Some(1), "sample", None);
        j.put("family", case.family);
        report.sample(j);
    }

    // part 1: all sequences of length <= 2
    let thorough = ctx.tier == Tier::Thorough;
    let planned: u64 = if thorough { total } else { (total + 9) / 10 };
    let mut part1 = par::run_cases(ctx, planned, |i, report| {
        let index = if thorough {
            i
        } else {
            // one index of every block of 10, chosen by the seed
            10 * i + Rng::for_case(ctx.seed, 0xE06, i).below(10) as u64
        };
        if index >= total {
            report.count("exhaustive:sample-index-past-the-end");
            return;
        }
        let case = exhaustive_case(index, &opts);
        run_case(&case, index % COMPILE_EVERY == 0, report);
    });
    let ran1 = part1.counters.get("cases_run").copied().unwrap_or(0);
    if thorough {
        part1.exhaustive = Some(ran1 == total);
    }
    part1.notes.push(format!("sequences of length <= 2: {} of {} enumerated ({} options per declaration)", ran1, total, opts.len()));
    report.merge(part1);

    // part 2: random sequences of length 3-12
    let n_random = ctx.tier.pick(8_000, 200_000);
    let part2 = par::run_cases(ctx, n_random, |i, report| {
        let mut rng = Rng::for_case(ctx.seed, 0xA06, i);
        let case = random_case(&mut rng);
        run_case(&case, i % COMPILE_EVERY == 0, report);
    });
    report.merge(part2);

    // the workload must consist of accepted programs and contain compile() observations
    let cases_run = report.counters.get("cases_run").copied().unwrap_or(0);
    let rejected = report.counters.get("skipped:rejected-by-front-end").copied().unwrap_or(0) + report.counters.get("skipped:panic-in-front-end").copied().unwrap_or(0);
    if rejected * 20 > cases_run {
        report.inconclusive(&format!("{} of {} generated programs were not accepted by the front end", rejected, cases_run));
    }
    let compiled: u64 = report.counters.iter().filter(|(k, _)| k.starts_with("compile:ok:")).map(|(_, v)| *v).sum();
    // every 8th case x 16 configurations; at least half of them must have been observed
    if compiled < cases_run / COMPILE_EVERY * 16 / 2 {
        report.inconclusive(&format!("only {} successful compile() observations in {} cases", compiled, cases_run));
    }
    // the generated programs are well formed: compile() failing on more than 2% of them hides the metadata from the monitors
    let not_compiled: u64 = report.counters.iter().filter(|(k, _)| k.starts_with("skipped:compile-")).map(|(_, v)| *v).sum();
    if not_compiled * 50 > compiled + not_compiled {
        report.inconclusive(&format!("compile() did not succeed on {} of {} generated programs x configurations", not_compiled, compiled + not_compiled));
    }
    report
}

// ------------------------------------------------------------------------------------------------
// Replay of one witness
// ------------------------------------------------------------------------------------------------

fn replay(_ctx: &Ctx, w: &Json) -> Report {
    let mut report = Report::new();
    let Some(text) = w.get_str("text") else {
        report.inconclusive("witness has no text");
        return report;
    };
    let entries: Vec<Entry> = w.get("entries").and_then(|e| e.as_arr()).map(|a| a.iter().map(Entry::from_json).collect()).unwrap_or_default();
    let case = Case {
        family: "replay",
        text: text.to_string(),
        entries,
    };
    let tgt = Tgt::from_name(w.get_str("target").unwrap_or(""));
    let dg = w.get("default_group").and_then(|v| v.as_i64()).filter(|v| *v >= 0).map(|v| v as u32);
    let path = w.get_str("path").unwrap_or("assign_api_bindings");
    if path == "compile" {
        if observe_and_judge_compile(&case, tgt, dg, &mut report).is_none() {
            report.inconclusive("compile did not succeed on the witness");
        }
    } else {
        match rs::typecheck_text(&case.text) {
            Front::Ok(m) => match select(&m, dg) {
                Ok(selected) => {
                    observe_and_judge_direct(&case, &selected, tgt, dg, &mut report);
                }
                Err(e) => report.inconclusive(&e),
            },
            Front::Diag(d) => report.inconclusive(&format!("front end rejects the witness: {}", d.lines().next().unwrap_or(""))),
            Front::Panic(c) => report.inconclusive(&format!("front end panics on the witness: {}", c.signature())),
        }
    }
    report
}
