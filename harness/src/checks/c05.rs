//! C05 - reflection metadata agrees with the emitted source.
//!
//! Invariant monitor. For every pipeline `rssl::compile` returns (targets DirectX / Vulkan / Vulkan with
//! buffer addresses / Metal x modes all / named / no-pipeline) the monitor reads the EMITTED program
//! independently of the metadata (HLSL: the emitted text is parsed again with rssl's parser, the syntax tree
//! handed to the formatter is the fallback; MSL: the syntax tree handed to the formatter plus a line scan of
//! the printed text for `[[id(n)]]`), extracts every externally bound declaration with its annotation,
//! declared type and array length, and compares that with the returned `PipelineDescription` and stages.
//! Reachability (for `is_used`) is computed by an own walk over the parsed SOURCE program.
//!
//! Nothing in here calls into rssl's binding / usage analysis code: the tables below are written from the
//! doc comments of `DescriptorType`, the HLSL register classes and the Metal type names.

use crate::corpus;
use crate::gen::c05_res;
use crate::json::Json;
use crate::par::guard;
use crate::report::{Ctx, Report};
use crate::rng::{hash_str, Rng};
use crate::rs::{self, Files, FilesHandler, Mode, Opts, Outcome, Pipe, Tgt};
use crate::CheckDef;
use rssl::ast;
use rssl::{ApiLocation, DescriptorType as DT, ShaderStage};
use std::collections::{BTreeSet, HashMap};

pub fn def() -> CheckDef {
    CheckDef {
        id: "C05",
        salt: 0xC05,
        rule: "inputs: generated programs (gen::c05_res: 0-12 resources of every object kind incl. arrays, bindless, static samplers, \
               bind_group attributes, register(xN, spaceM), namespaces; 0-2 cbuffers; 0-5 helper functions (default parameters, overloads by \
               arity, namespaces, struct methods, templates, resource parameters, parameters/locals shadowing a resource) calling each other; \
               1-4 compute/graphics pipelines whose entry points use random subsets of the resources directly or only through call chains; \
               identifiers drawn from names reserved in HLSL/MSL), plus every entry file of the tests/ corpus and every RSSL snippet of the \
               repository's unit tests. Each accepted input is compiled for {DirectX, Vulkan, Vulkan+buffer_address, Msl} x {all, no_pipeline, \
               named(each pipeline)}; every returned pipeline is examined. evaluations = compile() calls that returned pipelines; \
               distinct_nontrivial = distinct inputs (content hash) for which at least one metadata binding was compared with a declaration \
               of the emitted source. The generator does not emit unsized resource arrays (known finding: they get no slot and no \
               metadata entry on HLSL and are rejected on Metal) nor arrays of buffer addresses / bind groups >= 4 (panics, C08).",
        assumptions: &[
            "rssl's own parser reads the emitted HLSL back correctly (cross-checked against the syntax tree handed to the formatter)",
            "the MSL syntax tree recorded by the verif-hooks feature is the tree that was printed; the printed text is additionally scanned for [[id(n)]]",
            "reachability is syntactic (call graph + mentions), computed as an under- and an over-approximation; is_used is only judged where they decide",
        ],
        min_distinct: (300, 3000),
        deadline_s: (50.0, 540.0),
        run,
        replay,
    }
}

// =====================================================================================================
// 1. A neutral description of a program (used for the source program, the emitted HLSL and the MSL tree)
// =====================================================================================================

#[derive(Clone, Debug, PartialEq)]
enum TArg {
    Ty(Ty),
    Int(i64),
    Other,
}

#[derive(Clone, Debug, PartialEq, Default)]
struct Ty {
    /// `metal::texture2d`, `Texture2D`, ...
    name: String,
    args: Vec<TArg>,
    /// modifiers in source order, e.g. ["const"], ["constant"], ["static", "const"]
    mods: Vec<String>,
}

#[derive(Clone, Debug, PartialEq)]
enum ArrayLen {
    NotArray,
    Sized(u64),
    Unsized,
    /// several dimensions or a length the monitor cannot evaluate
    Unknown,
}

#[derive(Clone, Debug, PartialEq)]
struct Attr {
    name: String,
    args: Vec<Option<i64>>,
    raw: Vec<ast::Expression>,
}

#[derive(Clone, Debug, PartialEq)]
enum Storage {
    Extern,
    Static,
    GroupShared,
}

#[derive(Clone, Debug, PartialEq)]
enum Init {
    None,
    /// `= object.member`
    Member(String, String),
    StaticSampler,
    Other,
}

#[derive(Clone, Debug, PartialEq)]
struct Global {
    name: String,
    ns: Vec<String>,
    ty: Ty,
    array: ArrayLen,
    reference: bool,
    attrs: Vec<Attr>,
    /// register(<letter><index>, space<n>)
    register: Option<(Option<(char, u32)>, Option<u32>)>,
    storage: Storage,
    init: Init,
    /// Some for `cbuffer X { ... }`: names of the members
    cbuffer_members: Option<Vec<String>>,
}

#[derive(Clone, Debug, PartialEq)]
struct Field {
    name: String,
    ty: Ty,
    array: ArrayLen,
    reference: bool,
    attrs: Vec<Attr>,
}

#[derive(Clone, Debug)]
struct StructDef {
    name: String,
    ns: Vec<String>,
    fields: Vec<Field>,
    methods: Vec<usize>,
}

#[derive(Clone, Debug)]
struct Param {
    name: Option<String>,
    ty: Ty,
    attrs: Vec<Attr>,
    default: Option<ast::Expression>,
}

#[derive(Clone, Debug)]
struct Func {
    name: String,
    ns: Vec<String>,
    owner: Option<usize>,
    params: Vec<Param>,
    attrs: Vec<Attr>,
    body: Option<Vec<ast::Statement>>,
}

#[derive(Clone, Debug)]
struct PipelineDef {
    name: String,
    /// (stage, entry function name)
    stages: Vec<(ShaderStage, String)>,
}

#[derive(Clone, Debug, PartialEq)]
enum Sym {
    Global(usize),
    CbMember(usize),
    Func(usize),
    Type(Option<usize>),
    Other,
}

type Consts = HashMap<String, Option<i64>>;

#[derive(Default)]
struct Prog {
    globals: Vec<Global>,
    structs: Vec<StructDef>,
    funcs: Vec<Func>,
    pipelines: Vec<PipelineDef>,
    /// integer constants (`static const uint N = 4;`) by short name; None = defined twice with different values
    consts: Consts,
    /// namespace path -> name -> symbols declared at that level
    levels: HashMap<Vec<String>, HashMap<String, Vec<Sym>>>,
}

fn ident_string(id: &ast::ScopedIdentifier) -> String {
    id.identifiers.iter().map(|i| i.node.as_str()).collect::<Vec<_>>().join("::")
}

fn eval_int(e: &ast::Expression, consts: &Consts) -> Option<i64> {
    use ast::{BinOp, Expression as E, Literal as L, UnaryOp};
    match e {
        E::Literal(L::IntUntyped(v)) | E::Literal(L::IntUnsigned32(v)) | E::Literal(L::IntUnsigned64(v)) => i64::try_from(*v).ok(),
        E::Literal(L::IntSigned64(v)) => Some(*v),
        E::Identifier(id) => consts.get(&id.identifiers.last()?.node).copied().flatten(),
        E::UnaryOperation(UnaryOp::Plus, x) => eval_int(&x.node, consts),
        E::UnaryOperation(UnaryOp::Minus, x) => eval_int(&x.node, consts)?.checked_neg(),
        E::BinaryOperation(op, a, b) => {
            let (a, b) = (eval_int(&a.node, consts)?, eval_int(&b.node, consts)?);
            match op {
                BinOp::Add => a.checked_add(b),
                BinOp::Subtract => a.checked_sub(b),
                BinOp::Multiply => a.checked_mul(b),
                BinOp::Divide if b != 0 => a.checked_div(b),
                BinOp::Modulus if b != 0 => a.checked_rem(b),
                BinOp::LeftShift if (0..63).contains(&b) => a.checked_shl(b as u32),
                BinOp::RightShift if (0..63).contains(&b) => Some(a >> b),
                _ => None,
            }
        }
        E::Cast(_, x) => eval_int(&x.node, consts),
        E::Call(callee, targs, args) if targs.is_empty() && args.len() == 1 => match &callee.node {
            E::Identifier(id) if matches!(id.try_trivial().map(|n| n.node.as_str()), Some("uint" | "int" | "uint32_t" | "int32_t")) => eval_int(&args[0].node, consts),
            _ => None,
        },
        _ => None,
    }
}

fn ty_of(t: &ast::Type, consts: &Consts) -> Ty {
    let mut args = Vec::new();
    for a in t.layout.1.iter() {
        args.push(match a {
            ast::ExpressionOrType::Type(tid) => TArg::Ty(ty_of(&tid.base, consts)),
            ast::ExpressionOrType::Expression(e) => match (eval_int(&e.node, consts), &e.node) {
                (Some(v), _) => TArg::Int(v),
                // `metal::access::read_write` is an enumerator, the tree holds it as an expression
                (None, ast::Expression::Identifier(id)) => TArg::Ty(Ty {
                    name: ident_string(id),
                    ..Ty::default()
                }),
                (None, _) => TArg::Other,
            },
            ast::ExpressionOrType::Either(e, tid) => match eval_int(&e.node, consts) {
                Some(v) => TArg::Int(v),
                None => TArg::Ty(ty_of(&tid.base, consts)),
            },
        });
    }
    Ty {
        name: ident_string(&t.layout.0),
        args,
        mods: t.modifiers.modifiers.iter().map(|m| format!("{:?}", m.node)).collect(),
    }
}

struct DeclInfo {
    name: String,
    dims: Vec<Option<Option<i64>>>,
    reference: bool,
    attrs: Vec<Attr>,
}

fn attr_of(a: &ast::Attribute, consts: &Consts) -> Attr {
    Attr {
        name: a.name.iter().map(|n| n.node.as_str()).collect::<Vec<_>>().join("::"),
        args: a.arguments.iter().map(|e| eval_int(&e.node, consts)).collect(),
        raw: a.arguments.iter().map(|e| e.node.clone()).collect(),
    }
}

fn find_attr<'a>(attrs: &'a [Attr], name: &str) -> Option<&'a Attr> {
    attrs.iter().find(|a| a.name == name)
}

fn declarator_info(d: &ast::Declarator, consts: &Consts) -> Option<DeclInfo> {
    match d {
        ast::Declarator::Empty => None,
        ast::Declarator::Identifier(id, attrs) => Some(DeclInfo {
            name: id.identifiers.last()?.node.clone(),
            dims: Vec::new(),
            reference: false,
            attrs: attrs.iter().map(|a| attr_of(a, consts)).collect(),
        }),
        ast::Declarator::Pointer(p) => declarator_info(&p.inner, consts),
        ast::Declarator::Reference(r) => {
            let mut i = declarator_info(&r.inner, consts)?;
            i.reference = true;
            Some(i)
        }
        ast::Declarator::Array(a) => {
            let mut i = declarator_info(&a.inner, consts)?;
            i.dims.push(a.array_size.as_ref().map(|e| eval_int(&e.node, consts)));
            Some(i)
        }
    }
}

fn array_len(dims: &[Option<Option<i64>>]) -> ArrayLen {
    match dims {
        [] => ArrayLen::NotArray,
        [None] => ArrayLen::Unsized,
        [Some(Some(n))] if *n >= 0 => ArrayLen::Sized(*n as u64),
        _ => ArrayLen::Unknown,
    }
}

fn storage_of(t: &ast::Type) -> Storage {
    for m in &t.modifiers.modifiers {
        match m.node {
            ast::TypeModifier::Static => return Storage::Static,
            ast::TypeModifier::GroupShared => return Storage::GroupShared,
            // Metal: program scope constants live in the constant address space
            ast::TypeModifier::AddressSpace(_) => return Storage::Static,
            _ => {}
        }
    }
    Storage::Extern
}

fn register_of(annotations: &[ast::LocationAnnotation]) -> Option<(Option<(char, u32)>, Option<u32>)> {
    for a in annotations {
        if let ast::LocationAnnotation::Register(r) = a {
            let slot = r.slot.as_ref().map(|s| {
                let letter = match s.slot_type {
                    ast::RegisterType::T => 't',
                    ast::RegisterType::U => 'u',
                    ast::RegisterType::S => 's',
                    ast::RegisterType::B => 'b',
                };
                (letter, s.index)
            });
            return Some((slot, r.space));
        }
    }
    None
}

impl Prog {
    fn collect(module: &ast::Module) -> Prog {
        let mut p = Prog::default();
        p.collect_defs(&module.root_definitions, &[]);
        p
    }

    fn declare(&mut self, ns: &[String], name: &str, sym: Sym) {
        self.levels.entry(ns.to_vec()).or_default().entry(name.to_string()).or_default().push(sym);
    }

    fn collect_function(&mut self, f: &ast::FunctionDefinition, ns: &[String], owner: Option<usize>) -> usize {
        let consts = &self.consts;
        let params = f
            .params
            .iter()
            .map(|prm| {
                let info = declarator_info(&prm.declarator, consts);
                Param {
                    name: info.as_ref().map(|i| i.name.clone()),
                    ty: ty_of(&prm.param_type, consts),
                    attrs: info.map(|i| i.attrs).unwrap_or_default(),
                    default: prm.default_expr.clone(),
                }
            })
            .collect();
        let func = Func {
            name: f.name.node.clone(),
            ns: ns.to_vec(),
            owner,
            params,
            attrs: f.attributes.iter().map(|a| attr_of(a, consts)).collect(),
            body: f.body.clone(),
        };
        self.funcs.push(func);
        self.funcs.len() - 1
    }

    fn collect_defs(&mut self, defs: &[ast::RootDefinition], ns: &[String]) {
        self.levels.entry(ns.to_vec()).or_default();
        for d in defs {
            match d {
                ast::RootDefinition::Namespace(name, inner) => {
                    let mut path = ns.to_vec();
                    path.push(name.node.clone());
                    self.collect_defs(inner, &path);
                }
                ast::RootDefinition::Struct(sd) => {
                    let index = self.structs.len();
                    self.structs.push(StructDef {
                        name: sd.name.node.clone(),
                        ns: ns.to_vec(),
                        fields: Vec::new(),
                        methods: Vec::new(),
                    });
                    self.declare(ns, &sd.name.node, Sym::Type(Some(index)));
                    for m in &sd.members {
                        match m {
                            ast::StructEntry::Variable(v) => {
                                let ty = ty_of(&v.ty, &self.consts);
                                let attrs: Vec<Attr> = v.attributes.iter().map(|a| attr_of(a, &self.consts)).collect();
                                for def in &v.defs {
                                    if let Some(info) = declarator_info(&def.declarator, &self.consts) {
                                        let mut all = attrs.clone();
                                        all.extend(info.attrs.iter().cloned());
                                        self.structs[index].fields.push(Field {
                                            name: info.name,
                                            ty: ty.clone(),
                                            array: array_len(&info.dims),
                                            reference: info.reference,
                                            attrs: all,
                                        });
                                    }
                                }
                            }
                            ast::StructEntry::Method(f) => {
                                let fi = self.collect_function(f, ns, Some(index));
                                self.structs[index].methods.push(fi);
                            }
                        }
                    }
                }
                ast::RootDefinition::Enum(e) => {
                    self.declare(ns, &e.name.node, Sym::Type(None));
                    for v in &e.values {
                        self.declare(ns, &v.name.node, Sym::Other);
                    }
                }
                ast::RootDefinition::Typedef(t) => {
                    if let Some(info) = declarator_info(&t.declarator, &self.consts) {
                        self.declare(ns, &info.name, Sym::Type(None));
                    }
                }
                ast::RootDefinition::ConstantBuffer(cb) => {
                    let mut members = Vec::new();
                    for m in &cb.members {
                        for def in &m.defs {
                            if let Some(info) = declarator_info(&def.declarator, &self.consts) {
                                members.push(info.name);
                            }
                        }
                    }
                    let index = self.globals.len();
                    self.globals.push(Global {
                        name: cb.name.node.clone(),
                        ns: ns.to_vec(),
                        ty: Ty {
                            name: "cbuffer".into(),
                            ..Ty::default()
                        },
                        array: ArrayLen::NotArray,
                        reference: false,
                        attrs: cb.attributes.iter().map(|a| attr_of(a, &self.consts)).collect(),
                        register: register_of(&cb.location_annotations),
                        storage: Storage::Extern,
                        init: Init::None,
                        cbuffer_members: Some(members.clone()),
                    });
                    // the name of a cbuffer is not usable in expressions; its members are
                    for m in members {
                        self.declare(ns, &m, Sym::CbMember(index));
                    }
                }
                ast::RootDefinition::GlobalVariable(gv) => {
                    let ty = ty_of(&gv.global_type, &self.consts);
                    let attrs: Vec<Attr> = gv.attributes.iter().map(|a| attr_of(a, &self.consts)).collect();
                    let storage = storage_of(&gv.global_type);
                    for def in &gv.defs {
                        let Some(info) = declarator_info(&def.declarator, &self.consts) else { continue };
                        let init = match &def.init {
                            None => Init::None,
                            Some(ast::Initializer::StaticSampler(_)) => Init::StaticSampler,
                            Some(ast::Initializer::Expression(e)) => match &e.node {
                                ast::Expression::Member(obj, member) => match &obj.node {
                                    ast::Expression::Identifier(o) => Init::Member(ident_string(o), ident_string(member)),
                                    _ => Init::Other,
                                },
                                _ => Init::Other,
                            },
                            Some(_) => Init::Other,
                        };
                        // integer constants
                        if storage == Storage::Static && info.dims.is_empty() && ty.mods.iter().any(|m| m == "const" || m == "constant") {
                            if let Some(ast::Initializer::Expression(e)) = &def.init {
                                if let Some(v) = eval_int(&e.node, &self.consts) {
                                    let entry = self.consts.entry(info.name.clone()).or_insert(Some(v));
                                    if *entry != Some(v) {
                                        *entry = None;
                                    }
                                }
                            }
                        }
                        let index = self.globals.len();
                        let mut all = attrs.clone();
                        all.extend(info.attrs.iter().cloned());
                        self.globals.push(Global {
                            name: info.name.clone(),
                            ns: ns.to_vec(),
                            ty: ty.clone(),
                            array: array_len(&info.dims),
                            reference: info.reference,
                            attrs: all,
                            register: register_of(&def.location_annotations),
                            storage: storage.clone(),
                            init,
                            cbuffer_members: None,
                        });
                        self.declare(ns, &info.name, Sym::Global(index));
                    }
                }
                ast::RootDefinition::Function(f) => {
                    let fi = self.collect_function(f, ns, None);
                    self.declare(ns, &f.name.node, Sym::Func(fi));
                }
                ast::RootDefinition::Pipeline(pd) => {
                    let mut stages = Vec::new();
                    for prop in &pd.properties {
                        let stage = match prop.property.node.as_str() {
                            "VertexShader" => ShaderStage::Vertex,
                            "PixelShader" => ShaderStage::Pixel,
                            "ComputeShader" => ShaderStage::Compute,
                            "TaskShader" => ShaderStage::Task,
                            "MeshShader" => ShaderStage::Mesh,
                            _ => continue,
                        };
                        if let ast::PipelinePropertyValue::Single(ast::Expression::Identifier(id)) = &prop.value.node {
                            stages.push((stage, ident_string(id)));
                        }
                    }
                    self.pipelines.push(PipelineDef {
                        name: pd.name.node.clone(),
                        stages,
                    });
                }
            }
        }
    }

    /// Symbols a (possibly qualified) name denotes when it is written inside namespace `ns`
    fn lookup(&self, ns: &[String], id: &ast::ScopedIdentifier) -> Option<&Vec<Sym>> {
        let (last, scopes) = id.identifiers.split_last()?;
        let scopes: Vec<String> = scopes.iter().map(|s| s.node.clone()).collect();
        let start = if id.base == ast::ScopedIdentifierBase::Absolute { 0 } else { ns.len() };
        for k in (0..=start).rev() {
            let mut path: Vec<String> = ns[..k].to_vec();
            path.extend(scopes.iter().cloned());
            if let Some(level) = self.levels.get(&path) {
                if let Some(syms) = level.get(&last.node) {
                    return Some(syms);
                }
            }
        }
        None
    }
}

// =====================================================================================================
// 2. Reachability over the source program: which globals can the entry points of a pipeline reach?
//    `must` = certainly (scoping resolved, unique callee), `may` = possibly (any mention by name)
// =====================================================================================================

#[derive(Default, Clone)]
struct LocalUse {
    may_globals: BTreeSet<usize>,
    must_globals: BTreeSet<usize>,
    may_calls: BTreeSet<usize>,
    must_calls: BTreeSet<usize>,
}

struct Walker<'a> {
    prog: &'a Prog,
    func: &'a Func,
    /// local name -> name of its declared type
    scopes: Vec<HashMap<String, String>>,
    out: LocalUse,
}

impl<'a> Walker<'a> {
    fn local(&self, name: &str) -> Option<&String> {
        self.scopes.iter().rev().find_map(|s| s.get(name))
    }

    fn declare_local(&mut self, name: &str, ty: &str) {
        if let Some(s) = self.scopes.last_mut() {
            s.insert(name.to_string(), ty.to_string());
        }
    }

    fn may_mention(&mut self, last: &str) {
        for (i, g) in self.prog.globals.iter().enumerate() {
            let hit = match &g.cbuffer_members {
                Some(members) => members.iter().any(|m| m == last),
                None => g.name == last,
            };
            if hit {
                self.out.may_globals.insert(i);
            }
        }
    }

    fn may_call(&mut self, last: &str) {
        for (i, f) in self.prog.funcs.iter().enumerate() {
            if f.name == last {
                self.out.may_calls.insert(i);
            }
        }
    }

    /// What a name denotes at this point: Err(()) = a local / member (not a global symbol)
    fn resolve(&self, id: &ast::ScopedIdentifier) -> Result<Option<&'a Vec<Sym>>, ()> {
        if let Some(name) = id.try_trivial() {
            if self.local(&name.node).is_some() {
                return Err(());
            }
            if let Some(owner) = self.func.owner {
                let st = &self.prog.structs[owner];
                if st.fields.iter().any(|f| f.name == name.node) {
                    return Err(());
                }
            }
        }
        Ok(self.prog.lookup(&self.func.ns, id))
    }

    fn arity_ok(f: &Func, nargs: usize) -> bool {
        let required = f.params.iter().filter(|p| p.default.is_none()).count();
        required <= nargs && nargs <= f.params.len()
    }

    fn mention(&mut self, id: &ast::ScopedIdentifier, must: bool) {
        let Some(last) = id.identifiers.last() else { return };
        self.may_mention(&last.node);
        if !must {
            return;
        }
        if let Ok(Some(syms)) = self.resolve(id) {
            if syms.len() == 1 {
                match syms[0] {
                    Sym::Global(g) | Sym::CbMember(g) => {
                        self.out.must_globals.insert(g);
                    }
                    _ => {}
                }
            }
        }
    }

    fn call(&mut self, callee: &ast::Expression, nargs: usize, must: bool) {
        match callee {
            ast::Expression::Identifier(id) => {
                let Some(last) = id.identifiers.last() else { return };
                self.may_call(&last.node);
                self.may_mention(&last.node);
                if !must {
                    return;
                }
                // a sibling method called from inside a method
                if let (Some(name), Some(owner)) = (id.try_trivial(), self.func.owner) {
                    if self.local(&name.node).is_none() {
                        let methods: Vec<usize> = self.prog.structs[owner].methods.iter().copied().filter(|m| self.prog.funcs[*m].name == name.node).collect();
                        if !methods.is_empty() {
                            let fitting: Vec<usize> = methods.into_iter().filter(|m| Self::arity_ok(&self.prog.funcs[*m], nargs)).collect();
                            if fitting.len() == 1 {
                                self.out.must_calls.insert(fitting[0]);
                            }
                            return;
                        }
                    }
                }
                if let Ok(Some(syms)) = self.resolve(id) {
                    let candidates: Vec<usize> = syms
                        .iter()
                        .filter_map(|s| match s {
                            Sym::Func(f) if Self::arity_ok(&self.prog.funcs[*f], nargs) => Some(*f),
                            _ => None,
                        })
                        .collect();
                    if candidates.len() == 1 && syms.iter().all(|s| matches!(s, Sym::Func(_))) {
                        self.out.must_calls.insert(candidates[0]);
                    }
                }
            }
            ast::Expression::Member(object, method) => {
                self.expr(&object.node, must);
                let Some(last) = method.identifiers.last() else { return };
                self.may_call(&last.node);
                if !must {
                    return;
                }
                // `local.method()` where the local was declared with a user struct type
                if let ast::Expression::Identifier(obj) = &object.node {
                    if let Some(name) = obj.try_trivial() {
                        if let Some(ty) = self.local(&name.node).cloned() {
                            let structs: Vec<&StructDef> = self.prog.structs.iter().filter(|s| s.name == ty).collect();
                            if structs.len() == 1 {
                                let fitting: Vec<usize> = structs[0]
                                    .methods
                                    .iter()
                                    .copied()
                                    .filter(|m| self.prog.funcs[*m].name == last.node && Self::arity_ok(&self.prog.funcs[*m], nargs))
                                    .collect();
                                if fitting.len() == 1 {
                                    self.out.must_calls.insert(fitting[0]);
                                }
                            }
                        }
                    }
                }
            }
            other => self.expr(other, must),
        }
    }

    fn eot(&mut self, e: &ast::ExpressionOrType) {
        match e {
            ast::ExpressionOrType::Expression(x) | ast::ExpressionOrType::Either(x, _) => self.expr(&x.node, false),
            ast::ExpressionOrType::Type(_) => {}
        }
    }

    fn init(&mut self, i: &ast::Initializer, must: bool) {
        match i {
            ast::Initializer::Expression(e) => self.expr(&e.node, must),
            ast::Initializer::Aggregate(list) => {
                for x in list {
                    self.init(x, must);
                }
            }
            ast::Initializer::StaticSampler(_) => {}
        }
    }

    fn expr(&mut self, e: &ast::Expression, must: bool) {
        use ast::Expression as E;
        match e {
            E::Literal(_) => {}
            E::Identifier(id) => self.mention(id, must),
            E::UnaryOperation(_, x) => self.expr(&x.node, must),
            E::BinaryOperation(_, a, b) => {
                self.expr(&a.node, must);
                self.expr(&b.node, must);
            }
            E::TernaryConditional(a, b, c) => {
                self.expr(&a.node, must);
                self.expr(&b.node, must);
                self.expr(&c.node, must);
            }
            E::ArraySubscript(a, b) => {
                self.expr(&a.node, must);
                self.expr(&b.node, must);
            }
            E::Member(object, _) => self.expr(&object.node, must),
            E::Call(callee, targs, args) => {
                self.call(&callee.node, args.len(), must);
                for t in targs {
                    self.eot(t);
                }
                for a in args {
                    self.expr(&a.node, must);
                }
            }
            E::Cast(_, x) => self.expr(&x.node, must),
            E::BracedInit(_, inits) => {
                for i in inits {
                    self.init(i, must);
                }
            }
            // not evaluated: a mention at most
            E::SizeOf(x) => self.eot(x),
            E::AmbiguousParseBranch(branches) => {
                for b in branches {
                    self.expr(&b.expr.node, false);
                }
            }
        }
    }

    fn vardef(&mut self, vd: &ast::VarDef, must: bool) {
        let ty = vd.local_type.layout.0.identifiers.last().map(|i| i.node.clone()).unwrap_or_default();
        for d in &vd.defs {
            if let Some(i) = &d.init {
                self.init(i, must);
            }
            if let Some(info) = declarator_info(&d.declarator, &self.prog.consts) {
                self.declare_local(&info.name, &ty);
            }
        }
    }

    fn block(&mut self, stmts: &[ast::Statement], must: bool) {
        self.scopes.push(HashMap::new());
        for s in stmts {
            self.stmt(s, must);
        }
        self.scopes.pop();
    }

    fn stmt(&mut self, s: &ast::Statement, must: bool) {
        use ast::StatementKind as K;
        match &s.kind {
            K::Empty | K::Break | K::Continue | K::Discard => {}
            K::Expression(e) => self.expr(e, must),
            K::Var(vd) => self.vardef(vd, must),
            K::AmbiguousDeclarationOrExpression(vd, e) => {
                // language rule: it is a declaration when the specifier names a type
                let id = &vd.local_type.layout.0;
                let names_value = match self.resolve(id) {
                    Err(()) => true,
                    Ok(Some(syms)) => !syms.is_empty() && syms.iter().all(|s| matches!(s, Sym::Global(_) | Sym::CbMember(_) | Sym::Func(_) | Sym::Other)),
                    Ok(None) => false,
                };
                let names_type = matches!(self.resolve(id), Ok(Some(syms)) if !syms.is_empty() && syms.iter().all(|s| matches!(s, Sym::Type(_))));
                if names_value {
                    self.expr(e, must);
                } else if names_type {
                    self.vardef(vd, must);
                } else {
                    self.expr(e, false);
                    self.vardef(vd, false);
                }
            }
            K::Block(stmts) => self.block(stmts, must),
            K::If(c, t) => {
                self.expr(&c.node, must);
                self.block(std::slice::from_ref(t), must);
            }
            K::IfElse(c, t, f) => {
                self.expr(&c.node, must);
                self.block(std::slice::from_ref(t), must);
                self.block(std::slice::from_ref(f), must);
            }
            K::For(init, cond, inc, body) => {
                self.scopes.push(HashMap::new());
                match init {
                    ast::InitStatement::Empty => {}
                    ast::InitStatement::Expression(e) => self.expr(&e.node, must),
                    ast::InitStatement::Declaration(vd) => self.vardef(vd, must),
                }
                if let Some(c) = cond {
                    self.expr(&c.node, must);
                }
                if let Some(i) = inc {
                    self.expr(&i.node, must);
                }
                self.block(std::slice::from_ref(body), must);
                self.scopes.pop();
            }
            K::While(c, b) => {
                self.expr(&c.node, must);
                self.block(std::slice::from_ref(b), must);
            }
            K::DoWhile(b, c) => {
                self.block(std::slice::from_ref(b), must);
                self.expr(&c.node, must);
            }
            K::Switch(c, b) => {
                self.expr(&c.node, must);
                self.block(std::slice::from_ref(b), must);
            }
            K::Return(e) => {
                if let Some(e) = e {
                    self.expr(&e.node, must);
                }
            }
            K::CaseLabel(e, b) => {
                self.expr(&e.node, false);
                self.stmt(b, must);
            }
            K::DefaultLabel(b) => self.stmt(b, must),
        }
    }
}

struct Reach {
    may: BTreeSet<usize>,
    must: BTreeSet<usize>,
}

fn local_use(prog: &Prog, fi: usize) -> LocalUse {
    let func = &prog.funcs[fi];
    let mut w = Walker {
        prog,
        func,
        scopes: vec![HashMap::new()],
        out: LocalUse::default(),
    };
    for p in &func.params {
        if let Some(d) = &p.default {
            // evaluated at the call site when the argument is omitted: a possible use only
            w.expr(d, false);
        }
    }
    for p in &func.params {
        if let Some(n) = &p.name {
            w.declare_local(n, &p.ty.name);
        }
    }
    if let Some(body) = &func.body {
        let body = body.clone();
        w.block(&body, true);
    }
    w.out
}

fn reach(prog: &Prog, entries: &[usize]) -> Reach {
    let uses: Vec<LocalUse> = (0..prog.funcs.len()).map(|f| local_use(prog, f)).collect();
    let close = |may: bool| -> BTreeSet<usize> {
        let mut seen: BTreeSet<usize> = BTreeSet::new();
        let mut stack: Vec<usize> = entries.to_vec();
        let mut globals = BTreeSet::new();
        while let Some(f) = stack.pop() {
            if !seen.insert(f) {
                continue;
            }
            let u = &uses[f];
            globals.extend(if may { u.may_globals.iter() } else { u.must_globals.iter() });
            stack.extend(if may { u.may_calls.iter() } else { u.must_calls.iter() });
        }
        globals
    };
    Reach {
        may: close(true),
        must: close(false),
    }
}

// =====================================================================================================
// 3. Tables (written from the doc comments of DescriptorType, the HLSL register classes, Metal's types)
// =====================================================================================================

/// Descriptor types a declaration of this HLSL type can stand for. BufferAddress is documented as "raw buffer
/// address or ByteBuffer if raw addresses are disabled": a ByteAddressBuffer in the emitted text may be either.
fn hlsl_type_descriptors(ty: &str) -> Option<&'static [DT]> {
    Some(match ty {
        "cbuffer" | "ConstantBuffer" => &[DT::ConstantBuffer],
        "ByteAddressBuffer" => &[DT::ByteBuffer, DT::BufferAddress],
        "RWByteAddressBuffer" => &[DT::RwByteBuffer, DT::RwBufferAddress],
        "StructuredBuffer" => &[DT::StructuredBuffer],
        "RWStructuredBuffer" => &[DT::RwStructuredBuffer],
        "Buffer" => &[DT::TexelBuffer],
        "RWBuffer" => &[DT::RwTexelBuffer],
        "Texture2D" => &[DT::Texture2d],
        "Texture2DArray" => &[DT::Texture2dArray],
        "RWTexture2D" => &[DT::RwTexture2d],
        "RWTexture2DArray" => &[DT::RwTexture2dArray],
        "TextureCube" => &[DT::TextureCube],
        "TextureCubeArray" => &[DT::TextureCubeArray],
        "Texture3D" => &[DT::Texture3d],
        "RWTexture3D" => &[DT::RwTexture3d],
        "RaytracingAccelerationStructure" => &[DT::RaytracingAccelerationStructure],
        "SamplerState" => &[DT::SamplerState],
        "SamplerComparisonState" => &[DT::SamplerComparisonState],
        _ => return None,
    })
}

/// The descriptor type of a resource as declared in the SOURCE program (exact)
fn source_type_descriptor(ty: &str) -> Option<DT> {
    Some(match ty {
        "BufferAddress" => DT::BufferAddress,
        "RWBufferAddress" => DT::RwBufferAddress,
        "ByteAddressBuffer" => DT::ByteBuffer,
        "RWByteAddressBuffer" => DT::RwByteBuffer,
        other => {
            let set = hlsl_type_descriptors(other)?;
            if set.len() != 1 {
                return None;
            }
            set[0]
        }
    })
}

/// HLSL register class of a descriptor type: b = constant buffers, s = samplers, u = unordered access views,
/// t = shader resource views
fn register_class(dt: DT) -> Option<char> {
    Some(match dt {
        DT::ConstantBuffer => 'b',
        DT::SamplerState | DT::SamplerComparisonState => 's',
        DT::RwByteBuffer | DT::RwBufferAddress | DT::RwStructuredBuffer | DT::RwTexelBuffer | DT::RwTexture2d | DT::RwTexture2dArray | DT::RwTexture3d => 'u',
        DT::ByteBuffer
        | DT::BufferAddress
        | DT::StructuredBuffer
        | DT::TexelBuffer
        | DT::Texture2d
        | DT::Texture2dArray
        | DT::TextureCube
        | DT::TextureCubeArray
        | DT::Texture3d
        | DT::RaytracingAccelerationStructure => 't',
        DT::PushConstants | DT::InlineConstants => return None,
    })
}

/// Descriptor types an argument buffer member of this Metal type can stand for
fn msl_type_descriptors(ty: &Ty, reference: bool) -> Option<Vec<DT>> {
    if reference {
        // `constant T& name`: a pointer to constant data
        return if ty.mods.iter().any(|m| m == "constant") { Some(vec![DT::ConstantBuffer]) } else { None };
    }
    let read_write = ty.args.iter().any(|a| matches!(a, TArg::Ty(t) if t.name.ends_with("access::read_write") || t.name.ends_with("access::write")));
    let pick = |ro: DT, rw: DT| Some(vec![if read_write { rw } else { ro }]);
    match ty.name.as_str() {
        "metal::texture2d" => pick(DT::Texture2d, DT::RwTexture2d),
        "metal::texture2d_array" => pick(DT::Texture2dArray, DT::RwTexture2dArray),
        "metal::texture3d" => pick(DT::Texture3d, DT::RwTexture3d),
        "metal::texture_buffer" => pick(DT::TexelBuffer, DT::RwTexelBuffer),
        "metal::texturecube" if !read_write => Some(vec![DT::TextureCube]),
        "metal::texturecube_array" if !read_write => Some(vec![DT::TextureCubeArray]),
        "metal::sampler" => Some(vec![DT::SamplerState, DT::SamplerComparisonState]),
        "helper::ByteAddressBuffer" => Some(vec![DT::ByteBuffer, DT::BufferAddress]),
        "helper::RWByteAddressBuffer" => Some(vec![DT::RwByteBuffer, DT::RwBufferAddress]),
        "helper::StructuredBuffer" => Some(vec![DT::StructuredBuffer]),
        "helper::RWStructuredBuffer" => Some(vec![DT::RwStructuredBuffer]),
        "metal::raytracing::instance_acceleration_structure" | "metal::raytracing::acceleration_structure" => Some(vec![DT::RaytracingAccelerationStructure]),
        _ => None,
    }
}

// =====================================================================================================
// 4. Externally bound declarations of the emitted program
// =====================================================================================================

#[derive(Clone, Debug, PartialEq)]
enum Loc {
    Index(u32),
    Inline(u32),
    /// the declaration carries no (complete) annotation
    Missing,
}

#[derive(Clone, Debug)]
struct Bound {
    name: String,
    group: u32,
    loc: Loc,
    /// register letter (DirectX)
    letter: Option<char>,
    /// declared type as written (for messages)
    ty_text: String,
    /// None = the monitor's tables do not know the type
    allowed: Option<Vec<DT>>,
    array: ArrayLen,
}

#[derive(Clone, Debug)]
struct InlineBlock {
    global: String,
    group: u32,
    slot: Option<u32>,
    fields: usize,
}

struct Emitted {
    bound: Vec<Bound>,
    inline_blocks: Vec<InlineBlock>,
    /// things seen but not bound (for the evidence)
    unbound_plain: usize,
}

fn ty_text(ty: &Ty) -> String {
    let mut s = String::new();
    for m in &ty.mods {
        s.push_str(m);
        s.push(' ');
    }
    s.push_str(&ty.name);
    if !ty.args.is_empty() {
        s.push('<');
        for (i, a) in ty.args.iter().enumerate() {
            if i > 0 {
                s.push_str(", ");
            }
            match a {
                TArg::Ty(t) => s.push_str(&ty_text(t)),
                TArg::Int(v) => s.push_str(&v.to_string()),
                TArg::Other => s.push('?'),
            }
        }
        s.push('>');
    }
    s
}

fn u32_of(v: Option<i64>) -> Option<u32> {
    v.and_then(|v| u32::try_from(v).ok())
}

fn hlsl_emitted(prog: &Prog, vulkan: bool) -> Emitted {
    let mut out = Emitted {
        bound: Vec::new(),
        inline_blocks: Vec::new(),
        unbound_plain: 0,
    };
    // structs all of whose members carry [[vk::offset(n)]]: blocks of inline constants
    let inline_struct = |name: &str| -> Option<&StructDef> {
        let mut found = prog.structs.iter().filter(|s| s.name == name && !s.fields.is_empty() && s.fields.iter().all(|f| find_attr(&f.attrs, "vk::offset").is_some()));
        let first = found.next()?;
        if found.next().is_some() {
            return None;
        }
        Some(first)
    };
    for g in &prog.globals {
        if g.storage != Storage::Extern {
            continue;
        }
        let binding = find_attr(&g.attrs, "vk::binding");
        let known = hlsl_type_descriptors(&g.ty.name);
        let annotated = g.register.is_some() || binding.is_some();
        if known.is_none() && !annotated {
            // `uint g_x;`: lives in the implicit globals block, rssl assigns no binding to those
            out.unbound_plain += 1;
            continue;
        }
        let (group, loc, letter) = if vulkan {
            match binding {
                Some(a) => match (a.args.first().copied().flatten(), a.args.get(1).copied().flatten()) {
                    (Some(i), set) if a.args.len() <= 2 && (a.args.len() == 1 || set.is_some()) => match (u32::try_from(i), u32::try_from(set.unwrap_or(0))) {
                        (Ok(i), Ok(s)) => (s, Loc::Index(i), None),
                        _ => (0, Loc::Missing, None),
                    },
                    _ => (0, Loc::Missing, None),
                },
                None => (0, Loc::Missing, None),
            }
        } else {
            match &g.register {
                Some((Some((letter, index)), space)) => (space.unwrap_or(0), Loc::Index(*index), Some(*letter)),
                Some((None, space)) => (space.unwrap_or(0), Loc::Missing, None),
                None => (0, Loc::Missing, None),
            }
        };
        // the block of inline constants itself is described by BindGroup::inline_constants
        if g.ty.name == "ConstantBuffer" {
            if let Some(TArg::Ty(inner)) = g.ty.args.first() {
                if let Some(st) = inline_struct(&inner.name) {
                    out.inline_blocks.push(InlineBlock {
                        global: g.name.clone(),
                        group,
                        slot: match loc {
                            Loc::Index(i) => Some(i),
                            _ => None,
                        },
                        fields: st.fields.len(),
                    });
                    for f in &st.fields {
                        let offset = find_attr(&f.attrs, "vk::offset").and_then(|a| u32_of(a.args.first().copied().flatten()));
                        out.bound.push(Bound {
                            name: f.name.clone(),
                            group,
                            loc: offset.map(Loc::Inline).unwrap_or(Loc::Missing),
                            letter: None,
                            ty_text: format!("[[vk::offset]] {}", ty_text(&f.ty)),
                            // a 64 bit address in the block of inline constants
                            allowed: if f.ty.name == "uint64_t" { Some(vec![DT::BufferAddress, DT::RwBufferAddress]) } else { None },
                            array: f.array.clone(),
                        });
                    }
                    continue;
                }
            }
        }
        out.bound.push(Bound {
            name: g.name.clone(),
            group,
            loc,
            letter,
            ty_text: ty_text(&g.ty),
            allowed: known.map(|k| k.to_vec()),
            array: g.array.clone(),
        });
    }
    out
}

/// (struct name, id, member name) of every `[[id(n)]]` line of the printed Metal text
fn scan_msl_ids(text: &str) -> Vec<(String, u32, String)> {
    let mut out = Vec::new();
    let mut current = String::new();
    for line in text.lines() {
        let t = line.trim();
        if let Some(rest) = t.strip_prefix("struct ") {
            current = rest.split(|c: char| !(c.is_alphanumeric() || c == '_')).next().unwrap_or("").to_string();
        }
        let Some(pos) = t.find("[[id(") else { continue };
        let digits: String = t[pos + 5..].chars().take_while(|c| c.is_ascii_digit()).collect();
        let Ok(id) = digits.parse::<u32>() else { continue };
        // `... name;` or `... name[3];`
        let mut rest = t.trim_end_matches(';').trim_end();
        while rest.ends_with(']') {
            match rest.rfind('[') {
                Some(i) => rest = rest[..i].trim_end(),
                None => break,
            }
        }
        let name: String = rest.chars().rev().take_while(|c| c.is_alphanumeric() || *c == '_').collect::<Vec<_>>().into_iter().rev().collect();
        if !name.is_empty() {
            out.push((current.clone(), id, name));
        }
    }
    out
}

fn trailing_number(s: &str) -> Option<(String, u32)> {
    let digits: String = s.chars().rev().take_while(|c| c.is_ascii_digit()).collect::<Vec<_>>().into_iter().rev().collect();
    if digits.is_empty() || digits.len() == s.len() {
        return None;
    }
    Some((s[..s.len() - digits.len()].to_string(), digits.parse().ok()?))
}

/// `X` was renamed to `X_<n>`
fn is_renamed(original: &str, emitted: &str) -> bool {
    match emitted.strip_prefix(original).and_then(|r| r.strip_prefix('_')) {
        Some(d) => !d.is_empty() && d.chars().all(|c| c.is_ascii_digit()),
        None => false,
    }
}

fn msl_emitted(prog: &Prog, text: &str, report: &mut Report) -> Emitted {
    let mut out = Emitted {
        bound: Vec::new(),
        inline_blocks: Vec::new(),
        unbound_plain: 0,
    };
    // the printed text decides names and ids; the tree supplies the types
    let scanned = scan_msl_ids(text);
    let mut tree_triples = Vec::new();
    for st in &prog.structs {
        for f in &st.fields {
            if let Some(a) = find_attr(&f.attrs, "id") {
                if let Some(id) = u32_of(a.args.first().copied().flatten()) {
                    tree_triples.push((st.name.clone(), id, f.name.clone()));
                }
            }
        }
    }
    let (mut a, mut b) = (scanned.clone(), tree_triples);
    a.sort();
    b.sort();
    report.count(if a == b { "msl:text-scan-agrees-with-tree" } else { "msl:text-scan-differs-from-tree" });
    for (struct_name, id, member) in scanned {
        // argument buffer n is bound at [[buffer(n)]]; its struct is called ArgumentBuffer<n>
        let group = match trailing_number(&struct_name) {
            Some((_, n)) => n,
            None => {
                report.count("skipped:msl-id-member-outside-numbered-struct");
                continue;
            }
        };
        let field = prog.structs.iter().filter(|s| s.name == struct_name).flat_map(|s| s.fields.iter()).find(|f| f.name == member);
        let (allowed, array, text_ty) = match field {
            Some(f) => {
                // metal::array<T, N>
                if f.ty.name == "metal::array" {
                    match (f.ty.args.first(), f.ty.args.get(1)) {
                        (Some(TArg::Ty(inner)), Some(TArg::Int(n))) if *n >= 0 => (msl_type_descriptors(inner, false), ArrayLen::Sized(*n as u64), ty_text(&f.ty)),
                        _ => (None, ArrayLen::Unknown, ty_text(&f.ty)),
                    }
                } else {
                    (msl_type_descriptors(&f.ty, f.reference), f.array.clone(), format!("{}{}", ty_text(&f.ty), if f.reference { "&" } else { "" }))
                }
            }
            None => (None, ArrayLen::Unknown, "?".to_string()),
        };
        out.bound.push(Bound {
            name: member,
            group,
            loc: Loc::Index(id),
            letter: None,
            ty_text: text_ty,
            allowed,
            array,
        });
    }
    out
}

// =====================================================================================================
// 5. The monitor proper: one returned pipeline against its emitted source and the source program
// =====================================================================================================

struct Finding {
    signature: String,
    summary: String,
    detail: Json,
}

enum PipeId<'a> {
    /// no-pipeline mode: there are no entry points
    NoPipeline,
    Known(&'a PipelineDef),
    Unknown,
}

fn dt_name(dt: DT) -> String {
    format!("{:?}", dt)
}

fn match_source(src: &Prog, name: &str) -> Option<usize> {
    let bindable = |g: &Global| g.storage == Storage::Extern && (g.cbuffer_members.is_some() || hlsl_type_descriptors(&g.ty.name).is_some() || source_type_descriptor(&g.ty.name).is_some());
    let exact: Vec<usize> = src.globals.iter().enumerate().filter(|(_, g)| bindable(g) && g.name == name).map(|(i, _)| i).collect();
    if exact.len() == 1 {
        return Some(exact[0]);
    }
    if !exact.is_empty() {
        return None;
    }
    let renamed: Vec<usize> = src.globals.iter().enumerate().filter(|(_, g)| bindable(g) && is_renamed(&g.name, name)).map(|(i, _)| i).collect();
    if renamed.len() == 1 {
        Some(renamed[0])
    } else {
        None
    }
}

fn expected_count(a: &ArrayLen) -> Option<Option<u32>> {
    match a {
        ArrayLen::NotArray => Some(Some(1)),
        ArrayLen::Sized(n) => u32::try_from(*n).ok().map(Some),
        ArrayLen::Unsized => Some(None),
        ArrayLen::Unknown => None,
    }
}

fn numthreads_of(f: &Func, consts: &Consts) -> Option<Result<(u32, u32, u32), ()>> {
    let a = find_attr(&f.attrs, "numthreads")?;
    if a.raw.len() != 3 {
        return Some(Err(()));
    }
    let v: Vec<Option<u32>> = a.raw.iter().map(|e| u32_of(eval_int(e, consts))).collect();
    match (v[0], v[1], v[2]) {
        (Some(x), Some(y), Some(z)) => Some(Ok((x, y, z))),
        _ => Some(Err(())),
    }
}

/// ((block index, member name) declared in `struct InlineDescriptorN { ... }`, (block index, member name) read through
/// `g_inlineDescriptorN.<member>`), from the emitted text
pub fn inline_descriptor_names(text: &str) -> (Vec<(String, String)>, Vec<(String, String)>) {
    let mut members = Vec::new();
    let mut uses = Vec::new();
    let ident = |s: &str| -> String { s.chars().take_while(|c| c.is_ascii_alphanumeric() || *c == '_').collect() };
    let mut rest = text;
    while let Some(i) = rest.find("struct InlineDescriptor") {
        rest = &rest[i + "struct InlineDescriptor".len()..];
        let block = ident(rest);
        let Some(open) = rest.find('{') else { break };
        let Some(close) = rest[open..].find("};") else { break };
        for line in rest[open + 1..open + close].lines() {
            let line = line.trim().trim_end_matches(';');
            if let Some(name) = line.rsplit(|c: char| c.is_whitespace()).next() {
                let name = name.split('[').next().unwrap_or(name);
                if !name.is_empty() {
                    members.push((block.clone(), name.to_string()));
                }
            }
        }
        rest = &rest[open + close..];
    }
    let mut rest = text;
    while let Some(i) = rest.find("g_inlineDescriptor") {
        rest = &rest[i + "g_inlineDescriptor".len()..];
        let block = ident(rest);
        let after = &rest[block.len()..];
        if let Some(m) = after.strip_prefix('.') {
            uses.push((block, ident(m)));
        }
    }
    (members, uses)
}

fn examine_pipe(tgt: Tgt, pipe: &Pipe, src: Option<&Prog>, id: &PipeId, report: &mut Report) -> (Vec<Finding>, u64) {
    let mut findings: Vec<Finding> = Vec::new();
    let prefix = if tgt.is_hlsl() { "hlsl" } else { "msl" };
    let mut compared: u64 = 0;

    // ---- the inline descriptor blocks of Vulkan with buffer addresses: every `g_inlineDescriptorN.<m>` names a member --------
    if tgt.is_hlsl() {
        let (members, uses) = inline_descriptor_names(&pipe.source);
        for (block, member) in &uses {
            report.count("hlsl:inline-descriptor-member-uses");
            if !members.iter().any(|(b, m)| b == block && m == member) {
                findings.push(Finding {
                    signature: "hlsl:inline-descriptor-member-unknown".to_string(),
                    summary: format!("the emitted source reads `g_inlineDescriptor{}.{}` but struct InlineDescriptor{} declares no such member", block, member, block),
                    detail: Json::obj().set("declared", Json::from(members.iter().filter(|(b, _)| b == block).map(|(_, m)| m.clone()).collect::<Vec<String>>())),
                });
            }
        }
    }

    // ---- read the emitted program ---------------------------------------------------------------
    let tree_prog = pipe.tree.as_ref().map(Prog::collect);
    let (eprog, emitted) = if tgt.is_hlsl() {
        let vulkan = !matches!(tgt, Tgt::Dx);
        let text_prog = match rs::parse_text(&pipe.source) {
            rs::Front::Ok(m) => Some(Prog::collect(&m)),
            rs::Front::Diag(_) => {
                report.count("hlsl:emitted-text-not-parsed(diagnostic; C04's business) - tree used");
                None
            }
            rs::Front::Panic(_) => {
                report.count("hlsl:emitted-text-not-parsed(panic; C04's business) - tree used");
                None
            }
        };
        if let (Some(a), Some(b)) = (&text_prog, &tree_prog) {
            let (ea, eb) = (hlsl_emitted(a, vulkan), hlsl_emitted(b, vulkan));
            let same = format!("{:?}{:?}", ea.bound, ea.inline_blocks) == format!("{:?}{:?}", eb.bound, eb.inline_blocks);
            report.count(if same { "hlsl:parsed-text-agrees-with-tree" } else { "hlsl:parsed-text-differs-from-tree" });
        }
        let Some(p) = text_prog.or(tree_prog) else {
            report.count("skipped:no-emitted-program");
            return (findings, 0);
        };
        let e = hlsl_emitted(&p, vulkan);
        (p, e)
    } else {
        let Some(p) = tree_prog else {
            report.count("skipped:no-msl-tree");
            return (findings, 0);
        };
        let e = msl_emitted(&p, &pipe.source, report);
        (p, e)
    };
    let mut add = |what: &str, summary: String, detail: Json| {
        findings.push(Finding {
            signature: format!("{}:{}", prefix, what),
            summary,
            detail,
        });
    };
    report.count_n("emitted:bound-declarations", emitted.bound.len() as u64);
    report.count_n("emitted:plain-extern-globals-without-binding", emitted.unbound_plain as u64);

    // ---- bijection between metadata entries and bound declarations ------------------------------
    let mut described = vec![0u32; emitted.bound.len()];
    let groups = &pipe.metadata.bind_groups;
    // Documented by rssl (CompileArgs::no_pipeline_mode: "generating output without the pipeline boilerplate ... can be used
    // to extract bindings information"): on Metal the argument buffer structs are part of the entry point boilerplate and are
    // not emitted without a pipeline. There is then no declaration to compare the metadata with; only the comparison with the
    // source program (type, count, bindless flag, nothing used) remains.
    let boilerplate_omitted = !tgt.is_hlsl() && matches!(id, PipeId::NoPipeline) && emitted.bound.is_empty();
    if boilerplate_omitted {
        report.count("msl:no_pipeline-mode-emits-no-argument-buffers(documented) - metadata compared with the source program only");
    }
    for (g, group) in groups.iter().enumerate() {
        let g = g as u32;
        for m in &group.bindings {
            if boilerplate_omitted {
                if let Some(src) = src {
                    if let Some(si) = match_source(src, &m.name) {
                        let sg = &src.globals[si];
                        let dj = || Json::obj().set("group", g).set("binding", format!("{:?}", m));
                        let bindless = find_attr(&sg.attrs, "rssl::bindless").is_some();
                        if bindless != m.is_bindless {
                            add("bindless-flag-mismatch", format!("`{}`: is_bindless = {} disagrees with the source declaration", m.name, m.is_bindless), dj());
                        }
                        let sdt = if sg.cbuffer_members.is_some() { Some(DT::ConstantBuffer) } else { source_type_descriptor(&sg.ty.name) };
                        if sdt.is_some() && sdt != Some(m.descriptor_type) {
                            add("descriptor-type-mismatch:source", format!("`{}` is a `{}` in the source program but reported as {}", m.name, ty_text(&sg.ty), dt_name(m.descriptor_type)), dj());
                        }
                        if let Some(c) = expected_count(&sg.array) {
                            if c != m.descriptor_count {
                                add("descriptor-count-mismatch:source", format!("`{}`: source declares {:?}, metadata descriptor_count {:?}", m.name, sg.array, m.descriptor_count), dj());
                            }
                        }
                        report.count("source:declaration-matched(no emitted declaration)");
                    }
                }
                continue;
            }
            report.count(&format!("metadata:{}:{}", prefix, dt_name(m.descriptor_type)));
            let want = match m.api_binding {
                ApiLocation::Index(i) => Loc::Index(i),
                ApiLocation::InlineConstant(o) => Loc::Inline(o),
            };
            let by_name: Vec<usize> = (0..emitted.bound.len()).filter(|i| emitted.bound[*i].name == m.name).collect();
            let mut renamed = false;
            let chosen = match by_name.len() {
                0 => {
                    let at = (0..emitted.bound.len()).find(|i| {
                        let d = &emitted.bound[*i];
                        d.group == g && d.loc == want && is_renamed(&m.name, &d.name)
                    });
                    renamed = at.is_some();
                    at
                }
                1 => Some(by_name[0]),
                _ => {
                    report.count("metadata:name-declared-more-than-once(namespaces)");
                    by_name.iter().copied().find(|i| emitted.bound[*i].group == g && emitted.bound[*i].loc == want).or(Some(by_name[0]))
                }
            };
            let describe = || Json::obj().set("group", g).set("binding", format!("{:?}", m));
            let Some(i) = chosen else {
                add(
                    "binding-without-declaration",
                    format!("metadata describes `{}` (group {}, {:?}) but the emitted source declares no bound `{}`", m.name, g, m.api_binding, m.name),
                    describe(),
                );
                continue;
            };
            let d = &emitted.bound[i];
            described[i] += 1;
            compared += 1;
            if renamed {
                add(
                    "binding-name-not-declared:renamed-reserved-name",
                    format!("metadata calls the binding at group {} {:?} `{}`, the emitted source declares it as `{}`", g, m.api_binding, m.name, d.name),
                    describe().set("declared_as", d.name.as_str()),
                );
            }
            let dj = || describe().set("declaration", format!("{:?}", d));
            if d.loc == Loc::Missing {
                add(
                    "declaration-without-annotation",
                    format!("`{}` is described by the metadata but carries no binding annotation in the emitted source", d.name),
                    dj(),
                );
            } else {
                if d.group != g {
                    add("group-mismatch", format!("`{}`: metadata bind group {} but the emitted annotation says {}", m.name, g, d.group), dj());
                }
                if d.loc != want {
                    let what = match (&d.loc, &want) {
                        (Loc::Index(_), Loc::Index(_)) => "slot-mismatch",
                        (Loc::Inline(_), Loc::Inline(_)) => "inline-offset-mismatch",
                        _ => "location-kind-mismatch",
                    };
                    add(what, format!("`{}`: metadata says {:?}, the emitted source says {:?}", m.name, want, d.loc), dj());
                }
            }
            match &d.allowed {
                Some(allowed) => {
                    if !allowed.contains(&m.descriptor_type) {
                        add(
                            "descriptor-type-mismatch",
                            format!("`{}` is declared as `{}` but reported as {}", m.name, d.ty_text, dt_name(m.descriptor_type)),
                            dj(),
                        );
                    }
                }
                None => report.count(&format!("skipped:emitted-type-not-in-table:{}", d.ty_text.split('<').next().unwrap_or(""))),
            }
            if let (Some(letter), Some(class)) = (d.letter, register_class(m.descriptor_type)) {
                if letter != class {
                    add(
                        "register-class-mismatch",
                        format!("`{}` is reported as {} but bound to a `{}` register", m.name, dt_name(m.descriptor_type), letter),
                        dj(),
                    );
                }
            }
            match expected_count(&d.array) {
                Some(c) => {
                    if c != m.descriptor_count {
                        add(
                            "descriptor-count-mismatch",
                            format!("`{}`: declared {:?}, metadata descriptor_count {:?}", m.name, d.array, m.descriptor_count),
                            dj(),
                        );
                    }
                }
                None => report.count("skipped:array-length-not-evaluated"),
            }
            // against the source program
            if let Some(src) = src {
                match match_source(src, &m.name) {
                    Some(si) => {
                        let sg = &src.globals[si];
                        report.count("source:declaration-matched");
                        let bindless = find_attr(&sg.attrs, "rssl::bindless").is_some();
                        if bindless != m.is_bindless {
                            add(
                                "bindless-flag-mismatch",
                                format!("`{}`: is_bindless = {} but the source declaration {} [[rssl::bindless]]", m.name, m.is_bindless, if bindless { "has" } else { "has no" }),
                                dj(),
                            );
                        }
                        if bindless {
                            report.count("source:bindless-compared");
                        }
                        let sdt = if sg.cbuffer_members.is_some() { Some(DT::ConstantBuffer) } else { source_type_descriptor(&sg.ty.name) };
                        if let Some(sdt) = sdt {
                            if sdt != m.descriptor_type {
                                add(
                                    "descriptor-type-mismatch:source",
                                    format!("`{}` is a `{}` in the source program but reported as {}", m.name, ty_text(&sg.ty), dt_name(m.descriptor_type)),
                                    dj(),
                                );
                            }
                        }
                        if let Some(c) = expected_count(&sg.array) {
                            if c != m.descriptor_count {
                                add(
                                    "descriptor-count-mismatch:source",
                                    format!("`{}`: source declares {:?}, metadata descriptor_count {:?}", m.name, sg.array, m.descriptor_count),
                                    dj(),
                                );
                            }
                        }
                    }
                    None => report.count("skipped:source-declaration-not-identified"),
                }
            }
        }
    }
    for (i, d) in emitted.bound.iter().enumerate() {
        if described[i] == 0 {
            let what = if d.loc == Loc::Missing && d.array == ArrayLen::Unsized {
                "declaration-without-binding:unsized-array-without-annotation"
            } else if d.loc == Loc::Missing {
                "declaration-without-binding:no-annotation"
            } else {
                "declaration-without-binding"
            };
            add(
                what,
                format!("the emitted source declares the externally bound `{} {}` ({:?}, group {}) but no metadata entry describes it", d.ty_text, d.name, d.loc, d.group),
                Json::obj().set("declaration", format!("{:?}", d)),
            );
        } else if described[i] > 1 {
            add(
                "declaration-described-twice",
                format!("`{}` is described by {} metadata entries", d.name, described[i]),
                Json::obj().set("declaration", format!("{:?}", d)),
            );
        }
    }

    // ---- the block of inline constants ----------------------------------------------------------
    let ngroups = groups.len().max(emitted.inline_blocks.iter().map(|b| b.group as usize + 1).max().unwrap_or(0));
    for g in 0..ngroups {
        let meta = groups.get(g).and_then(|x| x.inline_constants.as_ref());
        let offsets: Vec<u32> = groups
            .get(g)
            .map(|x| {
                x.bindings
                    .iter()
                    .filter_map(|b| match b.api_binding {
                        ApiLocation::InlineConstant(o) => Some(o),
                        _ => None,
                    })
                    .collect()
            })
            .unwrap_or_default();
        let blocks: Vec<&InlineBlock> = emitted.inline_blocks.iter().filter(|b| b.group as usize == g).collect();
        let detail = || Json::obj().set("group", g).set("metadata", format!("{:?}", meta)).set("emitted_blocks", format!("{:?}", blocks)).set("offsets", format!("{:?}", offsets));
        match (meta, blocks.first()) {
            (None, None) => {
                if !offsets.is_empty() {
                    add("inline-constants-missing", format!("group {} has inline-constant bindings but no inline constant block", g), detail());
                }
            }
            (Some(_), None) => add("inline-constants-without-declaration", format!("group {} reports an inline constant block the emitted source does not declare", g), detail()),
            (None, Some(b)) => add("inline-block-without-metadata", format!("the emitted source declares the inline constant block `{}` for group {} but the metadata reports none", b.global, g), detail()),
            (Some(ic), Some(b)) => {
                report.count("inline-constants:compared");
                if b.slot != Some(ic.api_location) {
                    add("inline-constants-slot-mismatch", format!("group {}: block reported at slot {} but declared at {:?}", g, ic.api_location, b.slot), detail());
                }
                // one 64 bit address per buffer address binding
                if ic.size_in_bytes as usize != 8 * offsets.len() || ic.size_in_bytes as usize != 8 * b.fields {
                    add(
                        "inline-constants-size-mismatch",
                        format!("group {}: size_in_bytes {} with {} address bindings and {} declared members", g, ic.size_in_bytes, offsets.len(), b.fields),
                        detail(),
                    );
                }
                let mut sorted = offsets.clone();
                sorted.sort();
                sorted.dedup();
                if sorted.len() != offsets.len() || offsets.iter().any(|o| o % 8 != 0 || o + 8 > ic.size_in_bytes) {
                    add("inline-constants-offset-invalid", format!("group {}: offsets {:?} in a block of {} bytes", g, offsets, ic.size_in_bytes), detail());
                }
                if blocks.len() > 1 {
                    add("inline-block-declared-twice", format!("group {} has {} inline constant blocks", g, blocks.len()), detail());
                }
            }
        }
    }

    // ---- stages ---------------------------------------------------------------------------------
    for (si, s) in pipe.stages.iter().enumerate() {
        report.count(&format!("stage:{}:{:?}", prefix, s.stage));
        let defined: Vec<&Func> = eprog.funcs.iter().filter(|f| f.owner.is_none() && f.body.is_some() && f.name == s.entry_point).collect();
        let detail = || Json::obj().set("stage", format!("{:?}", s)).set("functions_defined", Json::from(eprog.funcs.iter().filter(|f| f.body.is_some()).map(|f| f.name.clone()).collect::<Vec<String>>()));
        let func: &Func = match defined.first() {
            Some(f) => {
                if defined.len() > 1 {
                    report.count("stage:entry-name-defined-more-than-once");
                }
                if !f.ns.is_empty() {
                    report.count("stage:entry-point-inside-namespace");
                }
                f
            }
            None => {
                let renamed: Vec<&Func> = eprog.funcs.iter().filter(|f| f.owner.is_none() && f.body.is_some() && is_renamed(&s.entry_point, &f.name)).collect();
                match renamed.first() {
                    Some(f) => {
                        add(
                            "entry-point-not-defined:renamed-reserved-name",
                            format!("stage {:?} reports entry point `{}`; the emitted source defines no such function (the exporter renamed it to `{}`)", s.stage, s.entry_point, f.name),
                            detail().set("renamed_to", f.name.as_str()),
                        );
                        f
                    }
                    None => {
                        add(
                            "entry-point-not-defined",
                            format!("stage {:?} reports entry point `{}`; the emitted source defines no such function", s.stage, s.entry_point),
                            detail(),
                        );
                        continue;
                    }
                }
            }
        };
        if tgt.is_hlsl() {
            match (s.thread_group_size, numthreads_of(func, &eprog.consts)) {
                (None, None) => report.count("stage:no-thread-group-size"),
                (Some(r), Some(Ok(e))) => {
                    report.count("stage:thread-group-size-compared");
                    if r != e {
                        add("thread-group-size-mismatch", format!("`{}`: reported {:?}, emitted [numthreads{:?}]", func.name, r, e), detail());
                    }
                }
                (_, Some(Err(()))) => report.count("skipped:numthreads-not-evaluated"),
                (Some(r), None) => add("thread-group-size-mismatch", format!("`{}`: reported {:?} but the emitted function has no [numthreads]", func.name, r), detail()),
                (None, Some(Ok(e))) => add("thread-group-size-mismatch", format!("`{}`: emitted [numthreads{:?}] but no size reported", func.name, e), detail()),
            }
        } else {
            // Metal: the stage is an attribute of the function, the group size [[max_total_threads_per_threadgroup(x * y * z)]]
            let stage_attr = match s.stage {
                ShaderStage::Compute => "kernel",
                ShaderStage::Vertex => "vertex",
                ShaderStage::Pixel => "fragment",
                ShaderStage::Mesh => "mesh",
                ShaderStage::Task => "object",
            };
            if find_attr(&func.attrs, stage_attr).is_none() {
                add("entry-point-stage-attribute-mismatch", format!("`{}` is reported as the {:?} stage but is not declared [[{}]]", func.name, s.stage, stage_attr), detail());
            }
            let needle = format!(" {}(", func.name);
            if !pipe.source.lines().any(|l| !l.starts_with(' ') && l.contains(&needle) && l.trim_end().ends_with('{')) {
                add("entry-point-not-in-text", format!("the printed text has no definition of `{}`", func.name), detail());
            }
            let attr = find_attr(&func.attrs, "max_total_threads_per_threadgroup");
            match (s.thread_group_size, attr) {
                (None, None) => report.count("stage:no-thread-group-size"),
                (Some(r), None) => add("thread-group-size-mismatch", format!("`{}`: reported {:?} but the kernel carries no thread group size", func.name, r), detail()),
                (None, Some(_)) => add("thread-group-size-mismatch", format!("`{}`: the kernel carries a thread group size but none is reported", func.name), detail()),
                (Some(r), Some(a)) => {
                    // (x * y) * z
                    let mut factors: Option<(u32, u32, u32)> = None;
                    if let Some(ast::Expression::BinaryOperation(ast::BinOp::Multiply, xy, z)) = a.raw.first() {
                        if let ast::Expression::BinaryOperation(ast::BinOp::Multiply, x, y) = &xy.node {
                            if let (Some(x), Some(y), Some(z)) = (u32_of(eval_int(&x.node, &eprog.consts)), u32_of(eval_int(&y.node, &eprog.consts)), u32_of(eval_int(&z.node, &eprog.consts))) {
                                factors = Some((x, y, z));
                            }
                        }
                    }
                    let total = a.args.first().copied().flatten();
                    match (factors, total) {
                        (Some(f), _) => {
                            report.count("stage:thread-group-size-compared");
                            if f != r {
                                add("thread-group-size-mismatch", format!("`{}`: reported {:?}, the kernel says {:?}", func.name, r, f), detail());
                            }
                        }
                        (None, Some(t)) => {
                            report.count("stage:thread-group-size-compared(product)");
                            if t != r.0 as i64 * r.1 as i64 * r.2 as i64 {
                                add("thread-group-size-mismatch", format!("`{}`: reported {:?}, the kernel says {} threads", func.name, r, t), detail());
                            }
                        }
                        (None, None) => report.count("skipped:numthreads-not-evaluated"),
                    }
                }
            }
        }
        // the function the source pipeline names for this stage kind (whatever the order the stages are written in)
        // (HLSL: the entry point is the user's function; Metal wraps it in a generated `<Stage>ShaderEntry`)
        if let (PipeId::Known(pd), true) = (id, tgt.is_hlsl()) {
            let named: Vec<&(ShaderStage, String)> = pd.stages.iter().filter(|(st, _)| *st == s.stage).collect();
            if named.len() == 1 {
                let short = named[0].1.rsplit("::").next().unwrap_or(&named[0].1);
                if s.entry_point == short || is_renamed(short, &s.entry_point) {
                    report.count("stage:entry-is-the-function-named-for-the-stage");
                } else {
                    add(
                        "stage-entry-mismatch",
                        format!("stage {:?} reports entry point `{}` but the pipeline names `{}` for that stage", s.stage, s.entry_point, short),
                        detail(),
                    );
                }
            }
        }
        // the size written in the source program
        if let (Some(src), PipeId::Known(pd)) = (src, id) {
            if let Some((_, entry)) = pd.stages.iter().find(|(st, _)| *st == s.stage).or(pd.stages.get(si)) {
                let short = entry.rsplit("::").next().unwrap_or(entry);
                let candidates: Vec<&Func> = src.funcs.iter().filter(|f| f.owner.is_none() && f.name == short).collect();
                if candidates.len() == 1 {
                    match (s.thread_group_size, numthreads_of(candidates[0], &src.consts)) {
                        (Some(r), Some(Ok(e))) if r != e => add("thread-group-size-mismatch:source", format!("`{}`: reported {:?}, the source says [numthreads{:?}]", short, r, e), detail()),
                        (None, Some(Ok(e))) => add("thread-group-size-mismatch:source", format!("`{}`: nothing reported, the source says [numthreads{:?}]", short, e), detail()),
                        (Some(r), None) => add("thread-group-size-mismatch:source", format!("`{}`: reported {:?}, the source has no [numthreads]", short, r), detail()),
                        (_, Some(Err(()))) => report.count("skipped:source-numthreads-not-evaluated"),
                        _ => report.count("stage:thread-group-size-agrees-with-source"),
                    }
                }
            }
        }
    }

    // ---- is_used against reachability in the source program --------------------------------------
    if let Some(src) = src {
        let entries: Option<Vec<usize>> = match id {
            PipeId::NoPipeline => Some(Vec::new()),
            PipeId::Unknown => None,
            PipeId::Known(pd) => {
                let mut v = Vec::new();
                let mut ok = true;
                for (_, entry) in &pd.stages {
                    let short = entry.rsplit("::").next().unwrap_or(entry);
                    let c: Vec<usize> = (0..src.funcs.len()).filter(|i| src.funcs[*i].owner.is_none() && src.funcs[*i].name == short && src.funcs[*i].body.is_some()).collect();
                    if c.len() == 1 {
                        v.push(c[0]);
                    } else {
                        ok = false;
                    }
                }
                if ok {
                    Some(v)
                } else {
                    None
                }
            }
        };
        match entries {
            None => report.count("skipped:used-flag(entry points not identified)"),
            Some(entries) => {
                let r = reach(src, &entries);
                for (g, group) in groups.iter().enumerate() {
                    for m in &group.bindings {
                        let Some(si) = match_source(src, &m.name) else { continue };
                        let (must, may) = (r.must.contains(&si), r.may.contains(&si));
                        report.count(if must == may {
                            if must {
                                "used-flag:decided-reachable"
                            } else {
                                "used-flag:decided-unreachable"
                            }
                        } else {
                            "used-flag:undecided(over- and under-approximation differ)"
                        });
                        report.count(&format!("used-flag:{}:reported-{}", prefix, if m.is_used { "used" } else { "unused" }));
                        let detail = || Json::obj().set("group", g).set("binding", format!("{:?}", m)).set("source_declaration", format!("{:?}", src.globals[si].name)).set("certainly_reachable", must).set("possibly_reachable", may);
                        if must && !m.is_used {
                            add("used-flag:reachable-reported-unused", format!("`{}` is reachable from the entry points of the pipeline but reported unused", m.name), detail());
                        }
                        if !tgt.is_hlsl() && m.is_used && !may {
                            add("used-flag:unreachable-reported-used", format!("`{}` is reported used but no entry point of the pipeline can reach it", m.name), detail());
                        }
                    }
                }
            }
        }
    }
    (findings, compared)
}

// =====================================================================================================
// 6. Workload
// =====================================================================================================

/// Preprocess + parse the source program the way compile() does for this target (own walk over the result)
fn parse_source(files: &Files, entry: &str, defines: &[(String, String)], msl: bool) -> Option<ast::Module> {
    let r = guard(|| {
        let mut sm = rssl::text::SourceManager::new();
        let mut handler = FilesHandler::new(files);
        let mut all: Vec<(&str, &str)> = vec![("__HLSL_VERSION", "2021"), ("RSSL_TARGET_HLSL", if msl { "0" } else { "1" }), ("RSSL_TARGET_MSL", if msl { "1" } else { "0" })];
        for (a, b) in defines {
            all.push((a.as_str(), b.as_str()));
        }
        let tokens = rssl::preprocess::preprocess(entry, &mut sm, &mut handler, &all).ok()?;
        let tokens = rssl::preprocess::prepare_tokens(&tokens);
        rssl::parser::parse(&tokens).ok()
    });
    r.ok().flatten()
}

struct Input<'a> {
    files: &'a Files,
    entry: &'a str,
    defines: &'a [(String, String)],
    origin: &'a str,
    /// corpus sets without pipelines are only compiled in no-pipeline mode
    pipelines_expected: bool,
}

fn witness(input: &Input, tgt: Tgt, mode: &Mode, index: usize, pipe: &Pipe, f: &Finding) -> Json {
    let mut w = Json::obj().set("origin", input.origin).set("entry", input.entry).set("target", tgt.name()).set("mode", mode.name()).set("pipeline_index", index);
    if input.files.total_len() <= 48 * 1024 {
        w.put("files", input.files.to_json());
    }
    w.put("defines", Json::Arr(input.defines.iter().map(|(a, b)| Json::Arr(vec![Json::str(a), Json::str(b)])).collect()));
    w.put("observed", f.detail.clone());
    w.put("stages", format!("{:?}", pipe.stages));
    w.put("metadata", format!("{:?}", pipe.metadata));
    let src: String = pipe.source.chars().take(24 * 1024).collect();
    w.put("emitted_source", src);
    w
}

/// Compile one input for one (target, mode) and examine every pipeline. Returns the number of bindings compared.
fn examine_config(input: &Input, tgt: Tgt, mode: &Mode, src: Option<&Prog>, report: &mut Report) -> u64 {
    let mut opts = Opts::new(tgt, mode.clone());
    opts.defines = input.defines.to_vec();
    let outcome = rs::compile(input.files, input.entry, &opts);
    let class = format!("compile:{}:{}:{}", if tgt.is_hlsl() { "hlsl" } else { "msl" }, if matches!(mode, Mode::NoPipeline) { "no_pipeline" } else if matches!(mode, Mode::All) { "all" } else { "named" }, outcome.class());
    report.count(&class);
    let pipes = match &outcome {
        Outcome::Ok(p) => p,
        Outcome::Panic(c) => {
            // totality is C08's property
            report.count(&format!("skipped:panic:{}", c.signature()));
            return 0;
        }
        _ => return 0,
    };
    report.evaluations += 1;
    let mut compared = 0;
    for (index, pipe) in pipes.iter().enumerate() {
        report.count("pipelines-examined");
        let id = match (mode, src) {
            (Mode::NoPipeline, _) => PipeId::NoPipeline,
            (_, None) => PipeId::Unknown,
            (Mode::Named(n), Some(s)) => {
                let c: Vec<&PipelineDef> = s.pipelines.iter().filter(|p| &p.name == n).collect();
                if c.len() == 1 {
                    PipeId::Known(c[0])
                } else {
                    PipeId::Unknown
                }
            }
            (Mode::All, Some(s)) => {
                // pipelines are compiled in source order
                if s.pipelines.len() == pipes.len() {
                    PipeId::Known(&s.pipelines[index])
                } else {
                    PipeId::Unknown
                }
            }
        };
        // the stages must be those of the pipeline definition, otherwise the identification is not trusted
        let id = match id {
            PipeId::Known(pd) => {
                let a: Vec<ShaderStage> = pd.stages.iter().map(|s| s.0).collect();
                let b: Vec<ShaderStage> = pipe.stages.iter().map(|s| s.stage).collect();
                if a == b {
                    PipeId::Known(pd)
                } else {
                    report.count("skipped:pipeline-not-identified");
                    PipeId::Unknown
                }
            }
            other => other,
        };
        let (findings, n) = examine_pipe(tgt, pipe, src, &id, report);
        compared += n;
        report.count_n("bindings-compared", n);
        for f in findings {
            let w = witness(input, tgt, mode, index, pipe, &f);
            report.violation(&f.signature, &format!("{} [{} {} pipeline {} of {}]", f.summary, tgt.name(), mode.name(), index, input.origin), w);
        }
    }
    compared
}

fn examine_input(input: &Input, report: &mut Report) -> u64 {
    let mut compared = 0;
    let src_hlsl = parse_source(input.files, input.entry, input.defines, false).map(|m| Prog::collect(&m));
    let src_msl = parse_source(input.files, input.entry, input.defines, true).map(|m| Prog::collect(&m));
    if src_hlsl.is_none() {
        report.count("input:source-not-parsed");
    }
    for tgt in rs::ALL_TARGETS {
        let src = if tgt.is_hlsl() { src_hlsl.as_ref() } else { src_msl.as_ref() };
        compared += examine_config(input, tgt, &Mode::NoPipeline, src, report);
        if !input.pipelines_expected {
            continue;
        }
        let names: Vec<String> = src.map(|s| s.pipelines.iter().map(|p| p.name.clone()).collect()).unwrap_or_default();
        if names.is_empty() {
            continue;
        }
        compared += examine_config(input, tgt, &Mode::All, src, report);
        let mut seen: Vec<&String> = Vec::new();
        for n in &names {
            if !seen.contains(&n) {
                seen.push(n);
                compared += examine_config(input, tgt, &Mode::Named(n.clone()), src, report);
            }
        }
    }
    compared
}

enum Case {
    Gen(u64),
    Corpus(usize, usize),
    Snippet(usize),
}

pub fn generated_program(seed: u64, index: u64) -> c05_res::ResProgram {
    let mut rng = Rng::for_case(seed, 0x5001, index);
    let mut p = c05_res::generate(&mut rng);
    // every fourth program: a use that is the only statement of a `for` body moves into the header of the loop (the increment
    // clause, or the condition through a comma expression) - the body of the loop is not the only place a loop uses things
    if index % 4 == 1 {
        let moved = move_uses_into_loop_headers(&p.text, index % 8 == 1);
        if moved.1 > 0 {
            p.text = moved.0;
            p.features.push("use-in-loop-header".to_string());
        }
    }
    p
}

fn move_uses_into_loop_headers(text: &str, into_increment: bool) -> (String, usize) {
    let lines: Vec<&str> = text.lines().collect();
    let mut out = String::new();
    let mut moved = 0;
    let mut i = 0;
    while i < lines.len() {
        let l = lines[i];
        if l.starts_with("    for (uint it") && l.ends_with(")") && i + 3 < lines.len() && lines[i + 1] == "    {" && lines[i + 3] == "    }" {
            let core = lines[i + 2].trim();
            let is_expression = core.ends_with(';') && !core.starts_with("float4 ") && !core.starts_with("uint ") && !core.contains('{');
            if is_expression {
                let e = &core[..core.len() - 1];
                let header = &l[..l.len() - 1];
                let parts: Vec<&str> = header.split("; ").collect();
                if parts.len() == 3 {
                    if into_increment {
                        out.push_str(&format!("{}; {}; {}, {})\n    {{\n    }}\n", parts[0], parts[1], parts[2], e));
                    } else {
                        out.push_str(&format!("{}; ({}, {}); {})\n    {{\n    }}\n", parts[0], e, parts[1], parts[2]));
                    }
                    moved += 1;
                    i += 4;
                    continue;
                }
            }
        }
        out.push_str(l);
        out.push('\n');
        i += 1;
    }
    (out, moved)
}

fn run(ctx: &Ctx) -> Report {
    let sets = corpus::load();
    let snippets = corpus::test_snippets();
    let mut cases: Vec<Case> = Vec::new();
    // the small inputs first: a deadline then cuts generated cases, not the corpus
    for (si, s) in sets.iter().enumerate() {
        for ei in 0..s.entries.len() {
            cases.push(Case::Corpus(si, ei));
        }
    }
    for i in 0..snippets.len() {
        cases.push(Case::Snippet(i));
    }
    for i in 0..ctx.tier.pick(2000, 30_000) {
        cases.push(Case::Gen(i));
    }
    let seed = ctx.seed;
    let mut report = crate::par::run_cases(ctx, cases.len() as u64, |index, report| {
        let none: Vec<(String, String)> = Vec::new();
        let (files, entry, defines, origin, pipelines_expected, features): (Files, String, Vec<(String, String)>, String, bool, Vec<String>) = match &cases[index as usize] {
            Case::Gen(i) => {
                let p = generated_program(seed, *i);
                report.max("max:generated-resources", p.resources as u64);
                (Files::single("main.rssl", &p.text), "main.rssl".into(), none, format!("gen::c05_res:{}", i), true, p.features)
            }
            Case::Corpus(si, ei) => {
                let s = &sets[*si];
                (s.files.clone(), s.entries[*ei].clone(), s.defines.clone(), format!("corpus:{}:{}", s.name, s.entries[*ei]), s.has_pipelines, vec!["corpus".into()])
            }
            Case::Snippet(i) => (Files::single("main.rssl", &snippets[*i]), "main.rssl".into(), none, format!("unit-test-snippet:{}", i), true, vec!["unit-test-snippet".into()]),
        };
        let input = Input {
            files: &files,
            entry: &entry,
            defines: &defines,
            origin: &origin,
            pipelines_expected,
        };
        let compared = examine_input(&input, report);
        if compared > 0 {
            let text = files.0.iter().find(|f| f.0 == entry).map(|f| f.1.as_str()).unwrap_or("");
            report.distinct(hash_str(text) ^ hash_str(origin.split(':').next().unwrap_or("")));
            for f in features {
                report.count(&format!("feature:{}", f));
            }
            if report.want_sample() && index % 211 == 7 {
                report.sample(Json::obj().set("origin", origin.as_str()).set("input_prefix", text.chars().take(1200).collect::<String>()));
            }
        } else {
            report.count("input:nothing-compared");
        }
    });
    if snippets.len() < 50 {
        report.inconclusive("could not read the unit-test snippets from /repo");
    }
    for needed in ["metadata:hlsl:Texture2d", "metadata:msl:Texture2d", "inline-constants:compared", "stage:thread-group-size-compared", "used-flag:decided-reachable", "used-flag:decided-unreachable", "source:bindless-compared"] {
        if report.counters.get(needed).copied().unwrap_or(0) == 0 {
            report.inconclusive(&format!("the workload never exercised `{}`", needed));
        }
    }
    report
}

fn replay(_ctx: &Ctx, witness: &Json) -> Report {
    let mut report = Report::new();
    let entry = witness.get_str("entry").unwrap_or("main.rssl").to_string();
    let mut defines = Vec::new();
    if let Some(d) = witness.get("defines").and_then(|d| d.as_arr()) {
        for kv in d {
            if let Some(kv) = kv.as_arr() {
                if kv.len() == 2 {
                    defines.push((kv[0].as_str().unwrap_or("").to_string(), kv[1].as_str().unwrap_or("").to_string()));
                }
            }
        }
    }
    let origin = witness.get_str("origin").unwrap_or("replay").to_string();
    let files = match witness.get("files") {
        Some(f) => Files::from_json(f),
        None => {
            let set = origin.split(':').nth(1).unwrap_or("");
            match corpus::load().into_iter().find(|s| s.name == set) {
                Some(s) => s.files,
                None => {
                    report.inconclusive("witness has no files and names no corpus set");
                    return report;
                }
            }
        }
    };
    let input = Input {
        files: &files,
        entry: &entry,
        defines: &defines,
        origin: &origin,
        pipelines_expected: true,
    };
    match (witness.get_str("target"), witness.get_str("mode")) {
        (Some(t), Some(m)) => {
            let tgt = Tgt::from_name(t);
            let src = parse_source(&files, &entry, &defines, !tgt.is_hlsl()).map(|m| Prog::collect(&m));
            examine_config(&input, tgt, &Mode::from_name(m), src.as_ref(), &mut report);
        }
        _ => {
            examine_input(&input, &mut report);
        }
    }
    report
}
