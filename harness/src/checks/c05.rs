//! C05 - not built yet
