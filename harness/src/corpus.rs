//! The repository's own shader corpus (tests/basic, tests/capsaicin, tests/ffx_fsr2), read from
//! /repo at run time so that checks always see the current working tree.

use crate::rs::Files;

pub struct CorpusSet {
    pub name: String,
    pub files: Files,
    /// entry file names (relative to the set root)
    pub entries: Vec<String>,
    pub defines: Vec<(String, String)>,
    /// entries define pipelines (tests/basic) or need no_pipeline_mode
    pub has_pipelines: bool,
}

pub fn repo_dir() -> std::path::PathBuf {
    std::env::var("VERIF_REPO").unwrap_or_else(|_| "/repo".to_string()).into()
}

fn walk(root: &std::path::Path, dir: &std::path::Path, out: &mut Vec<(String, String)>) {
    let Ok(rd) = std::fs::read_dir(dir) else { return };
    let mut entries: Vec<_> = rd.flatten().map(|e| e.path()).collect();
    entries.sort();
    for p in entries {
        if p.is_dir() {
            walk(root, &p, out);
        } else if let Ok(text) = std::fs::read_to_string(&p) {
            let rel = p.strip_prefix(root).unwrap().to_string_lossy().to_string();
            out.push((rel, text));
        }
    }
}

fn entries_from_mod_rs(text: &str) -> Vec<String> {
    // compile_file("name", FILES) possibly split over lines
    let mut out = Vec::new();
    let mut rest = text;
    while let Some(i) = rest.find("compile_file(") {
        rest = &rest[i + "compile_file(".len()..];
        if let Some(q1) = rest.find('"') {
            let after = &rest[q1 + 1..];
            if let Some(q2) = after.find('"') {
                let name = &after[..q2];
                if !out.iter().any(|n: &String| n == name) {
                    out.push(name.to_string());
                }
            }
        }
    }
    out
}

pub fn load() -> Vec<CorpusSet> {
    let tests = repo_dir().join("tests");
    let mut sets = Vec::new();
    let ext_defines = vec![("FFX_GPU".to_string(), "1".to_string()), ("FFX_HLSL".to_string(), "1".to_string()), ("globallycoherent".to_string(), "".to_string())];
    for name in ["capsaicin", "ffx_fsr2"] {
        let root = tests.join(name);
        let mut files = Vec::new();
        walk(&root, &root, &mut files);
        let modrs = files.iter().find(|f| f.0 == "mod.rs").map(|f| f.1.clone()).unwrap_or_default();
        files.retain(|f| f.0 != "mod.rs");
        sets.push(CorpusSet {
            name: name.to_string(),
            entries: entries_from_mod_rs(&modrs),
            files: Files(files),
            defines: ext_defines.clone(),
            has_pipelines: false,
        });
    }
    let root = tests.join("basic");
    let mut files = Vec::new();
    walk(&root, &root, &mut files);
    files.retain(|f| f.0.ends_with(".rssl"));
    let entries = files.iter().map(|f| f.0.clone()).collect();
    sets.push(CorpusSet {
        name: "basic".to_string(),
        entries,
        files: Files(files),
        defines: Vec::new(),
        has_pipelines: true,
    });
    sets
}

/// RSSL snippets embedded as string literals in the repository's unit tests: a seed corpus of
/// small programs that exercise every language feature the authors thought of.
pub fn test_snippets() -> Vec<String> {
    let repo = repo_dir();
    let mut out: Vec<String> = Vec::new();
    for rel in ["typer/tests/type_check_tests.rs", "typer/tests/evaluator_tests.rs", "hlsl/tests/exporter_tests.rs", "msl/tests/msl_export_tests.rs"] {
        let Ok(text) = std::fs::read_to_string(repo.join(rel)) else { continue };
        for lit in rust_string_literals(&text) {
            if lit.len() >= 8 && (lit.contains(';') || lit.contains('{')) && !out.contains(&lit) {
                out.push(lit);
            }
        }
    }
    out
}

/// Extract "..." and r#"..."# literals from Rust source (good enough for the test files)
pub fn rust_string_literals(text: &str) -> Vec<String> {
    let b = text.as_bytes();
    let mut out = Vec::new();
    let mut i = 0;
    while i < b.len() {
        // line comments
        if b[i] == b'/' && i + 1 < b.len() && b[i + 1] == b'/' {
            while i < b.len() && b[i] != b'\n' {
                i += 1;
            }
            continue;
        }
        // char literal like '"'
        if b[i] == b'\'' && i + 2 < b.len() && b[i + 2] == b'\'' {
            i += 3;
            continue;
        }
        if b[i] == b'r' && i + 1 < b.len() && (b[i + 1] == b'"' || b[i + 1] == b'#') {
            let mut j = i + 1;
            let mut hashes = 0;
            while j < b.len() && b[j] == b'#' {
                hashes += 1;
                j += 1;
            }
            if j < b.len() && b[j] == b'"' {
                let start = j + 1;
                let mut closing = String::from("\"");
                for _ in 0..hashes {
                    closing.push('#');
                }
                if let Some(end) = text[start..].find(&closing) {
                    out.push(text[start..start + end].to_string());
                    i = start + end + closing.len();
                    continue;
                }
            }
        }
        if b[i] == b'"' {
            let mut j = i + 1;
            let mut s: Vec<u8> = Vec::new();
            while j < b.len() && b[j] != b'"' {
                if b[j] == b'\\' && j + 1 < b.len() {
                    match b[j + 1] {
                        b'n' => s.push(b'\n'),
                        b't' => s.push(b'\t'),
                        b'r' => s.push(b'\r'),
                        b'0' => s.push(0),
                        b'\n' => {
                            // line continuation: skip following whitespace
                            j += 2;
                            while j < b.len() && (b[j] == b' ' || b[j] == b'\n' || b[j] == b'\t') {
                                j += 1;
                            }
                            continue;
                        }
                        c => s.push(c),
                    }
                    j += 2;
                } else {
                    s.push(b[j]);
                    j += 1;
                }
            }
            out.push(String::from_utf8_lossy(&s).to_string());
            i = j + 1;
            continue;
        }
        i += 1;
    }
    out
}
