//! Generator for programs with resource globals of every object kind, cbuffers, register/space
//! annotations, bind-group attributes, static samplers, struct templates and 0-4 pipelines.

use crate::rng::Rng;

#[derive(Clone, Debug)]
pub struct Resource {
    pub name: String,
    pub kind: &'static str,
    pub decl: String,
    /// an expression statement that uses the resource
    pub use_stmt: String,
}

pub const OBJECT_KINDS: &[&str] = &[
    "Texture2D",
    "Texture2D<float4>",
    "Texture2D<uint>",
    "Texture2DArray",
    "Texture2DArray<float2>",
    "RWTexture2D<float4>",
    "RWTexture2D<float>",
    "RWTexture2DArray<float4>",
    "TextureCube",
    "TextureCubeArray<float4>",
    "Texture3D",
    "RWTexture3D<float4>",
    "Buffer<float4>",
    "Buffer<uint>",
    "RWBuffer<float4>",
    "RWBuffer<uint>",
    "ByteAddressBuffer",
    "RWByteAddressBuffer",
    "BufferAddress",
    "RWBufferAddress",
    "StructuredBuffer<Elem>",
    "RWStructuredBuffer<Elem>",
    "StructuredBuffer<float4>",
    "RWStructuredBuffer<uint>",
    "ConstantBuffer<Elem>",
    "SamplerState",
    "SamplerComparisonState",
    "RaytracingAccelerationStructure",
];

pub struct DeclProgram {
    pub text: String,
    pub resources: Vec<Resource>,
    pub pipelines: Vec<String>,
    pub features: Vec<String>,
}

fn register_letter(kind: &str) -> char {
    if kind.starts_with("RW") {
        'u'
    } else if kind.starts_with("Sampler") {
        's'
    } else if kind.starts_with("ConstantBuffer") {
        'b'
    } else {
        't'
    }
}

pub fn generate(rng: &mut Rng, max_resources: usize, max_pipelines: usize) -> DeclProgram {
    let mut text = String::new();
    let mut features: Vec<String> = Vec::new();
    text.push_str("struct Elem\n{\n    float4 a;\n    uint b;\n};\n\n");
    if rng.chance(1, 3) {
        text.push_str("template<typename T>\nstruct Pair\n{\n    T first;\n    T second;\n    T sum() { return first + second; }\n};\n\n");
        features.push("struct-template".into());
    }
    if rng.chance(1, 3) {
        text.push_str("enum Mode\n{\n    ModeA,\n    ModeB = 4,\n};\n\n");
        features.push("enum".into());
    }
    let n = rng.below(max_resources + 1);
    let mut resources = Vec::new();
    let mut used_registers: Vec<(char, u32, u32)> = Vec::new();
    for i in 0..n {
        let kind = *rng.pick(OBJECT_KINDS);
        let name = format!("g_res{}", i);
        let mut decl = String::new();
        // attributes
        let group = if rng.chance(1, 3) { Some(rng.below(3) as u32) } else { None };
        let array = if rng.chance(1, 5) && !kind.starts_with("ConstantBuffer") && !kind.contains("Address") && !kind.starts_with("Raytracing") { Some(1 + rng.below(3)) } else { None };
        let bindless = array.is_some() && rng.chance(1, 3);
        let style = rng.below(3);
        if let (Some(g), 0) = (group, style) {
            decl.push_str(&format!("[[rssl::bind_group({})]]\n", g));
            features.push("bind_group-attribute".into());
        }
        if bindless {
            decl.push_str("[[rssl::bindless]]\n");
            features.push("bindless".into());
        }
        // the type, or the whole array type, named by a typedef (the front end refuses register() on an array type that comes from a typedef)
        let has_register = (group.is_some() && style == 1) || style == 2;
        let via_typedef = rng.chance(1, 5) && !(array.is_some() && has_register);
        if via_typedef {
            let dims = match array {
                Some(a) => format!("[{}]", if bindless { 1024 } else { a }),
                None => String::new(),
            };
            decl = format!("typedef {} TD_res{}{};\n{}", kind, i, dims, decl);
            features.push(if array.is_some() { "resource-array-typedef" } else { "resource-typedef" }.into());
        }
        if rng.chance(1, 2) {
            decl.push_str("const ");
        }
        if via_typedef {
            decl.push_str(&format!("TD_res{}", i));
        } else {
            decl.push_str(kind);
        }
        decl.push(' ');
        decl.push_str(&name);
        if let Some(a) = array {
            if !via_typedef {
                decl.push_str(&format!("[{}]", if bindless { 1024 } else { a }));
            }
            features.push("resource-array".into());
        }
        match (group, style) {
            (Some(g), 1) => {
                decl.push_str(&format!(" : register(space{})", g));
                features.push("register-space".into());
            }
            (g, 2) => {
                // explicit register slot: keep them unique per (letter, space)
                let letter = register_letter(kind);
                let space = g.unwrap_or(0);
                let mut slot = rng.below(8) as u32;
                while used_registers.contains(&(letter, slot, space)) {
                    slot += 1;
                }
                used_registers.push((letter, slot, space));
                if g.is_some() {
                    decl.push_str(&format!(" : register({}{}, space{})", letter, slot, space));
                } else {
                    decl.push_str(&format!(" : register({}{})", letter, slot));
                }
                features.push("register-slot".into());
            }
            _ => {}
        }
        if kind == "SamplerState" && array.is_none() && rng.chance(1, 3) {
            decl.push_str(" = StaticSampler\n{\n    Filter = MIN_MAG_MIP_LINEAR;\n    AddressU = Clamp;\n    AddressV = Clamp;\n}");
            features.push("static-sampler".into());
        }
        decl.push_str(";\n");
        let use_stmt = format!("{};", name);
        text.push_str(&decl);
        resources.push(Resource {
            name,
            kind,
            decl,
            use_stmt,
        });
    }
    // cbuffers
    let ncb = rng.below(3);
    for i in 0..ncb {
        let space = if rng.chance(1, 3) { format!(" : register(b{}, space{})", 4 + i, rng.below(3)) } else { String::new() };
        text.push_str(&format!("cbuffer Constants{}{}\n{{\n    float4 cb{}_a;\n    uint cb{}_b;\n    float2 cb{}_c[2];\n}}\n\n", i, space, i, i, i));
        resources.push(Resource {
            name: format!("Constants{}", i),
            kind: "cbuffer",
            decl: String::new(),
            use_stmt: format!("cb{}_a;", i),
        });
        features.push("cbuffer".into());
    }
    // plain globals
    if rng.chance(1, 2) {
        text.push_str("static uint s_counter = 0u;\ngroupshared float lds_data[16];\nstatic const float k_scale = 0.5f;\n\n");
        features.push("static-and-groupshared".into());
    }
    if rng.chance(1, 3) {
        text.push_str("namespace Util\n{\n    float twice(float x) { return x * 2.0f; }\n    namespace Inner { static const int k = 3; }\n}\n\n");
        features.push("namespace".into());
    }
    // helper functions using random subsets of the resources
    let nhelpers = rng.below(3);
    let mut helper_names = Vec::new();
    for h in 0..nhelpers {
        let name = format!("helper{}", h);
        text.push_str(&format!("void {}()\n{{\n", name));
        for r in &resources {
            if rng.chance(1, 3) {
                text.push_str(&format!("    {}\n", r.use_stmt));
            }
        }
        if h > 0 && rng.chance(1, 2) {
            text.push_str(&format!("    helper{}();\n", h - 1));
        }
        text.push_str("}\n\n");
        helper_names.push(name);
    }
    // entry points and pipelines
    let np = rng.below(max_pipelines + 1);
    let mut pipelines = Vec::new();
    for p in 0..np {
        let kind = rng.below(4);
        let mut body = String::new();
        for r in &resources {
            if rng.chance(1, 3) {
                body.push_str(&format!("    {}\n", r.use_stmt));
            }
        }
        if !helper_names.is_empty() && rng.chance(1, 2) {
            body.push_str(&format!("    {}();\n", rng.pick(&helper_names)));
        }
        let pname = format!("Pipe{}", p);
        let group = if rng.chance(1, 3) { format!("    DefaultBindGroup = {};\n", rng.below(3)) } else { String::new() };
        match kind {
            0 => {
                let threads = *rng.pick(&["1, 1, 1", "8, 8, 1", "64, 1, 1", "4, 4, 4"]);
                text.push_str(&format!("[numthreads({})]\nvoid CSMain{}(uint3 dtid : SV_DispatchThreadID)\n{{\n{}}}\n\n", threads, p, body));
                text.push_str(&format!("Pipeline {}\n{{\n    ComputeShader = CSMain{};\n{}}}\n\n", pname, p, group));
                features.push("compute-pipeline".into());
            }
            _ => {
                text.push_str(&format!(
                    "void VSMain{}(uint vid : SV_VertexID, out float4 o_pos : SV_Position, out float2 o_uv : TEXCOORD)\n{{\n    o_pos = float4(0, 0, 0, 1);\n    o_uv = float2(0.5f, 0.5f);\n{}}}\n\n",
                    p, body
                ));
                text.push_str(&format!("float4 PSMain{}(float2 i_uv : TEXCOORD) : SV_Target0\n{{\n{}    return float4(i_uv, 0, 1);\n}}\n\n", p, body));
                text.push_str(&format!("Pipeline {}\n{{\n    VertexShader = VSMain{};\n    PixelShader = PSMain{};\n{}}}\n\n", pname, p, p, group));
                features.push("graphics-pipeline".into());
            }
        }
        pipelines.push(pname);
    }
    if np == 0 {
        // a plain function so that something uses the resources
        let mut body = String::new();
        for r in &resources {
            if rng.chance(1, 2) {
                body.push_str(&format!("    {}\n", r.use_stmt));
            }
        }
        text.push_str(&format!("void main_entry()\n{{\n{}}}\n", body));
    }
    features.sort();
    features.dedup();
    DeclProgram {
        text,
        resources,
        pipelines,
        features,
    }
}
