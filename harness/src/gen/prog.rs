//! Typed random program generator for the executable, resource-free subset (DESIGN.md §5 "Common").
//!
//! Programs are generated as text with identifier placeholders (`\u{1}<n>\u{2}`) so the same program
//! can be rendered under different injective renamings (C15). Programs are kept *defined*: locals
//! initialised, out parameters written first, loops bounded, indices reduced modulo the length, integer
//! divisors forced non-zero, at most one side-effecting sub-expression per full expression (on a variable
//! that is not read elsewhere in it). The type checker may still reject some programs: those are
//! counted and skipped by the checks.

use crate::oracle::val::Kind;
use crate::rng::Rng;

#[derive(Clone, Debug, PartialEq)]
pub enum Ty {
    Void,
    Num(Kind, u8), // lanes 1 = scalar, 2..4 vector
    Struct(usize),
    Enum(usize),
    Array(Box<Ty>, usize),
}

impl Ty {
    pub fn is_num(&self) -> bool {
        matches!(self, Ty::Num(..))
    }
}

#[derive(Clone, Copy, Debug, PartialEq, Eq)]
pub enum IdKind {
    Local,
    Param,
    Global,
    Function,
    Method,
    Struct,
    Member,
    Enum,
    EnumValue,
    Namespace,
    TemplateParam,
}

#[derive(Clone, Debug)]
pub struct Ident {
    pub kind: IdKind,
    /// default (neutral) spelling
    pub name: String,
}

#[derive(Clone, Debug)]
pub struct Program {
    /// text with placeholders
    pub template: String,
    pub idents: Vec<Ident>,
    /// names (ident indices) of the functions meant to be called by the monitors
    pub entries: Vec<usize>,
    pub features: Vec<&'static str>,
    /// identifiers that are declared several times (overload sets) or are templates: their emitted names get suffixes by design
    pub multi: Vec<usize>,
    /// for global-scope-like entities declared inside a namespace: the identifier of the (innermost) namespace
    pub ns_of: Vec<Option<usize>>,
}

impl Program {
    pub fn render_with(&self, names: &dyn Fn(usize, &Ident) -> String) -> String {
        let mut out = String::with_capacity(self.template.len());
        let mut chars = self.template.chars();
        while let Some(c) = chars.next() {
            if c == '\u{1}' {
                let mut n = 0usize;
                for d in chars.by_ref() {
                    if d == '\u{2}' {
                        break;
                    }
                    n = n * 10 + d.to_digit(10).unwrap_or(0) as usize;
                }
                out.push_str(&names(n, &self.idents[n]));
            } else {
                out.push(c);
            }
        }
        out
    }

    pub fn render(&self) -> String {
        self.render_with(&|_, id| id.name.clone())
    }

    pub fn entry_names(&self) -> Vec<String> {
        self.entries.iter().map(|i| self.idents[*i].name.clone()).collect()
    }
}

#[derive(Clone, Debug)]
pub struct Config {
    pub allow_double: bool,
    pub allow_half: bool,
    pub max_functions: usize,
    pub max_statements: usize,
    pub max_expr_depth: usize,
    /// structs, enums, templates, overloads, namespaces, methods
    pub rich: bool,
}

impl Default for Config {
    fn default() -> Config {
        Config {
            allow_double: true,
            allow_half: true,
            max_functions: 6,
            max_statements: 8,
            max_expr_depth: 4,
            rich: true,
        }
    }
}

#[derive(Clone, Debug)]
struct Var {
    id: usize,
    ty: Ty,
    writable: bool,
    /// qualification needed where the variable is used (globals declared inside a namespace, seen from outside)
    prefix: String,
}

impl Var {
    fn path(&self) -> String {
        format!("{}{}", self.prefix, ph(self.id))
    }
}

#[derive(Clone, Debug)]
struct StructInfo {
    id: usize,
    members: Vec<(usize, Ty)>,
    /// (method ident, return type, param types, mutates)
    methods: Vec<(usize, Ty, Vec<Ty>)>,
}

#[derive(Clone, Debug)]
struct EnumInfo {
    id: usize,
    values: Vec<usize>,
    /// the value of each enumerator
    nums: Vec<i64>,
    /// qualification needed outside the namespace that declares the enum
    prefix: String,
}

#[derive(Clone, Debug)]
struct FuncInfo {
    id: usize,
    /// qualified prefix (namespace placeholder + ::) when called from outside
    prefix: String,
    ret: Ty,
    /// (type, modifier 0=in 1=out 2=inout, has default)
    params: Vec<(Ty, u8, bool)>,
    template: bool,
}

pub struct Gen<'r> {
    rng: &'r mut Rng,
    cfg: Config,
    idents: Vec<Ident>,
    counters: [usize; 11],
    structs: Vec<StructInfo>,
    enums: Vec<EnumInfo>,
    in_index: bool,
    globals: Vec<Var>,
    /// (identifier, namespace identifier) for entities declared inside namespaces
    ns_marks: Vec<(usize, usize)>,
    funcs: Vec<FuncInfo>,
    /// scopes of local variables
    scopes: Vec<Vec<Var>>,
    /// variable reserved for the side effect of the current full expression
    reserved: Option<usize>,
    side_effect_budget: u32,
    features: Vec<&'static str>,
    multi: Vec<usize>,
    loop_depth: usize,
    /// inside a struct method: member variables of `this`
    this_members: Vec<Var>,
    current_ret: Ty,
    in_switch: bool,
}

fn ph(id: usize) -> String {
    format!("\u{1}{}\u{2}", id)
}

pub fn kind_name(k: Kind) -> &'static str {
    match k {
        Kind::Bool => "bool",
        Kind::Int => "int",
        Kind::UInt => "uint",
        Kind::Half => "half",
        Kind::Float => "float",
        Kind::Double => "double",
        _ => "int",
    }
}

impl<'r> Gen<'r> {
    pub fn new(rng: &'r mut Rng, cfg: Config) -> Gen<'r> {
        Gen {
            rng,
            cfg,
            idents: Vec::new(),
            counters: [0; 11],
            structs: Vec::new(),
            enums: Vec::new(),
            in_index: false,
            globals: Vec::new(),
            ns_marks: Vec::new(),
            funcs: Vec::new(),
            scopes: Vec::new(),
            reserved: None,
            side_effect_budget: 0,
            features: Vec::new(),
            multi: Vec::new(),
            loop_depth: 0,
            this_members: Vec::new(),
            current_ret: Ty::Void,
            in_switch: false,
        }
    }

    fn feature(&mut self, f: &'static str) {
        if !self.features.contains(&f) {
            self.features.push(f);
        }
    }

    fn ident(&mut self, kind: IdKind) -> usize {
        let (prefix, slot) = match kind {
            IdKind::Local => ("v", 0),
            IdKind::Param => ("p", 1),
            IdKind::Global => ("g", 2),
            IdKind::Function => ("fn", 3),
            IdKind::Method => ("m", 4),
            IdKind::Struct => ("St", 5),
            IdKind::Member => ("mb", 6),
            IdKind::Enum => ("En", 7),
            IdKind::EnumValue => ("EV", 8),
            IdKind::Namespace => ("Ns", 9),
            IdKind::TemplateParam => ("TP", 10),
        };
        let n = self.counters[slot];
        self.counters[slot] += 1;
        self.idents.push(Ident {
            kind,
            name: format!("{}{}", prefix, n),
        });
        self.idents.len() - 1
    }

    // ---------------------------------------------------------------------------------------------
    // types
    // ---------------------------------------------------------------------------------------------

    fn num_kinds(&self) -> Vec<Kind> {
        let mut k = vec![Kind::Int, Kind::UInt, Kind::Float, Kind::Float, Kind::Int, Kind::Bool];
        if self.cfg.allow_half {
            k.push(Kind::Half);
        }
        if self.cfg.allow_double {
            k.push(Kind::Double);
        }
        k
    }

    fn random_num(&mut self) -> Ty {
        let kinds = self.num_kinds();
        let k = *self.rng.pick(&kinds);
        let lanes = if self.rng.chance(2, 3) { 1 } else { 2 + self.rng.below(3) as u8 };
        Ty::Num(k, lanes)
    }

    fn random_type(&mut self, allow_aggregate: bool) -> Ty {
        if allow_aggregate && self.cfg.rich {
            let r = self.rng.below(12);
            if r == 0 && !self.structs.is_empty() {
                return Ty::Struct(self.rng.below(self.structs.len()));
            }
            if r == 1 && !self.enums.is_empty() {
                return Ty::Enum(self.rng.below(self.enums.len()));
            }
            if r == 2 {
                let inner = self.random_num();
                return Ty::Array(Box::new(inner), 2 + self.rng.below(3));
            }
        }
        self.random_num()
    }

    pub fn type_name(&self, ty: &Ty) -> String {
        match ty {
            Ty::Void => "void".into(),
            Ty::Num(k, 1) => kind_name(*k).into(),
            Ty::Num(k, n) => format!("{}{}", kind_name(*k), n),
            Ty::Struct(i) => ph(self.structs[*i].id),
            Ty::Enum(i) => format!("{}{}", self.enums[*i].prefix, ph(self.enums[*i].id)),
            Ty::Array(inner, _) => self.type_name(inner),
        }
    }

    fn array_suffix(ty: &Ty) -> String {
        match ty {
            Ty::Array(_, n) => format!("[{}]", n),
            _ => String::new(),
        }
    }

    // ---------------------------------------------------------------------------------------------
    // literals
    // ---------------------------------------------------------------------------------------------

    fn literal(&mut self, k: Kind) -> String {
        match k {
            Kind::Bool => if self.rng.chance(1, 2) { "true" } else { "false" }.to_string(),
            Kind::Int => {
                let v = *self.rng.pick(&[0i64, 1, 2, 3, 5, 7, 10, 31, 32, 100, 255, 1000, 65535, 2147483647, 12345, 4, 6, 9]);
                if self.rng.chance(1, 8) {
                    format!("0x{:X}", v)
                } else {
                    format!("{}", v)
                }
            }
            Kind::UInt => {
                let v = *self.rng.pick(&[0u64, 1, 2, 3, 5, 8, 16, 31, 32, 255, 1024, 65536, 4294967295, 2147483648, 77]);
                if self.rng.chance(1, 8) {
                    format!("0x{:X}u", v)
                } else {
                    format!("{}u", v)
                }
            }
            Kind::Half => format!("{}h", self.rng.pick(&["0.0", "1.0", "0.5", "2.0", "1.5", "0.25", "3.0", "100.0", "0.125", "65504.0", "0.1", "2.7"])),
            Kind::Float => {
                let base = *self.rng.pick(&["0.0", "1.0", "0.5", "2.0", "1.5", "0.25", "3.0", "1e3", "0.1", "3.14159", "2.5e-3", "16777216.0", "0.0031308", "0.055", "1e10", "7.0", "1.0e-7", "123.456"]);
                match self.rng.below(4) {
                    0 => base.to_string(),
                    _ => format!("{}f", base),
                }
            }
            Kind::Double => format!("{}L", self.rng.pick(&["0.0", "1.0", "0.5", "2.0", "1.5", "1e100", "0.1", "3.0", "2.25"])),
            _ => "1".to_string(),
        }
    }

    // ---------------------------------------------------------------------------------------------
    // variables in scope
    // ---------------------------------------------------------------------------------------------

    fn visible_vars(&self) -> Vec<Var> {
        let mut out = Vec::new();
        for s in &self.scopes {
            out.extend(s.iter().cloned());
        }
        out.extend(self.globals.iter().cloned());
        out.extend(self.this_members.iter().cloned());
        out
    }

    /// Readable leaf expressions of numeric kind k with `lanes` lanes: (text)
    fn readable_of(&mut self, k: Kind, lanes: u8) -> Vec<String> {
        let vars = self.visible_vars();
        let mut out = Vec::new();
        for v in &vars {
            if Some(v.id) == self.reserved {
                continue;
            }
            self.collect_paths(&v.path(), &v.ty, k, lanes, &mut out, 0);
        }
        out
    }

    fn collect_paths(&self, base: &str, ty: &Ty, k: Kind, lanes: u8, out: &mut Vec<String>, depth: usize) {
        if depth > 3 {
            return;
        }
        match ty {
            Ty::Num(vk, vl) => {
                if *vk == k {
                    if *vl == lanes {
                        out.push(base.to_string());
                    } else if *vl > 1 && lanes < *vl {
                        // swizzle down
                        let comps = ["x", "y", "z", "w"];
                        if lanes == 1 {
                            out.push(format!("{}.{}", base, comps[(base.len() + depth) % *vl as usize]));
                        } else {
                            let mut s = String::new();
                            for i in 0..lanes {
                                s.push_str(comps[((base.len() + i as usize) % *vl as usize)]);
                            }
                            out.push(format!("{}.{}", base, s));
                        }
                    }
                }
            }
            Ty::Struct(i) => {
                for (mid, mty) in &self.structs[*i].members {
                    self.collect_paths(&format!("{}.{}", base, ph(*mid)), mty, k, lanes, out, depth + 1);
                }
            }
            Ty::Array(inner, n) => {
                self.collect_paths(&format!("{}[{}]", base, (base.len() + depth) % n), inner, k, lanes, out, depth + 1);
            }
            _ => {}
        }
    }

    /// Writable numeric l-values: (text, kind, lanes, root var id)
    fn writable_nums(&self) -> Vec<(String, Kind, u8, usize)> {
        let mut out = Vec::new();
        let mut vars = Vec::new();
        for s in &self.scopes {
            vars.extend(s.iter().cloned());
        }
        vars.extend(self.globals.iter().cloned());
        vars.extend(self.this_members.iter().cloned());
        for v in &vars {
            if !v.writable {
                continue;
            }
            self.collect_writable(&v.path(), &v.ty, v.id, &mut out, 0);
        }
        out
    }

    fn collect_writable(&self, base: &str, ty: &Ty, root: usize, out: &mut Vec<(String, Kind, u8, usize)>, depth: usize) {
        if depth > 2 {
            return;
        }
        match ty {
            Ty::Num(k, l) => {
                out.push((base.to_string(), *k, *l, root));
                if *l > 1 {
                    let comps = ["x", "y", "z", "w"];
                    out.push((format!("{}.{}", base, comps[(base.len()) % *l as usize]), *k, 1, root));
                    if *l >= 3 {
                        out.push((format!("{}.{}{}", base, comps[(base.len() + 1) % *l as usize], comps[(base.len() + 2) % *l as usize]), *k, 2, root));
                    }
                }
            }
            Ty::Struct(i) => {
                for (mid, mty) in &self.structs[*i].members {
                    self.collect_writable(&format!("{}.{}", base, ph(*mid)), mty, root, out, depth + 1);
                }
            }
            Ty::Array(inner, n) => {
                self.collect_writable(&format!("{}[{}]", base, base.len() % n), inner, root, out, depth + 1);
            }
            _ => {}
        }
    }

    // ---------------------------------------------------------------------------------------------
    // expressions
    // ---------------------------------------------------------------------------------------------

    /// Expression of exactly numeric type (k, lanes)
    fn expr(&mut self, k: Kind, lanes: u8, depth: usize) -> String {
        let leaf = depth == 0 || self.rng.chance(1, 5);
        if leaf {
            return self.leaf(k, lanes);
        }
        let d = depth - 1;
        let choice = self.rng.below(100);
        match k {
            Kind::Bool => match choice {
                0..=24 => {
                    // comparison of numeric operands
                    let ok = *self.rng.pick(&[Kind::Int, Kind::UInt, Kind::Float, Kind::Int, Kind::Float, Kind::Half, Kind::Double]);
                    let ok = self.fix_kind(ok);
                    let op = *self.rng.pick(&["<", "<=", ">", ">=", "==", "!="]);
                    self.feature("compare");
                    format!("{} {} {}", self.sub(ok, lanes, d), op, self.sub(ok, lanes, d))
                }
                25..=39 if lanes == 1 => {
                    let op = if self.rng.chance(1, 2) { "&&" } else { "||" };
                    self.feature("logical");
                    format!("{} {} {}", self.sub(Kind::Bool, 1, d), op, self.sub(Kind::Bool, 1, d))
                }
                40..=49 => {
                    self.feature("logical-not");
                    format!("!{}", self.sub(Kind::Bool, lanes, d))
                }
                50..=59 if lanes == 1 => self.ternary(k, lanes, d),
                60..=69 => self.cast_from_other(k, lanes, d),
                70..=76 if lanes == 1 => {
                    let n = 2 + self.rng.below(3) as u8;
                    self.feature("any-all");
                    format!("{}({})", if self.rng.chance(1, 2) { "any" } else { "all" }, self.expr(Kind::Bool, n, d))
                }
                77..=84 => self.call_user(k, lanes, d),
                85..=88 => {
                    self.feature("isnan-isinf");
                    format!("{}({})", if self.rng.chance(1, 2) { "isnan" } else { "isinf" }, self.expr(Kind::Float, lanes, d))
                }
                _ => self.leaf(k, lanes),
            },
            _ => match choice {
                0..=29 => {
                    let ops: &[&str] = if k.is_float() { &["+", "-", "*", "/", "+", "-", "*"] } else { &["+", "-", "*", "/", "%", "&", "|", "^", "<<", ">>", "+", "-", "*"] };
                    let op = *self.rng.pick(ops);
                    self.feature("arithmetic");
                    let lhs = self.sub(k, lanes, d);
                    let rhs = if !k.is_float() && (op == "/" || op == "%") {
                        // never zero: low bit forced
                        self.feature("guarded-division");
                        let one = if k == Kind::UInt { "1u" } else { "1" };
                        format!("({} | {})", self.sub(k, lanes, d), one)
                    } else {
                        self.sub(k, lanes, d)
                    };
                    format!("{} {} {}", lhs, op, rhs)
                }
                30..=37 => {
                    // rssl does not accept ~ on vectors
                    let op = if self.rng.chance(1, 4) {
                        "+"
                    } else if k.is_float() || lanes > 1 || self.rng.chance(1, 2) {
                        "-"
                    } else {
                        "~"
                    };
                    self.feature("unary");
                    // a sign directly over a sign or over a prefix increment / decrement: the parentheses are not part of the
                    // tree, so the exporters have to keep the operator characters apart themselves
                    let inner = if self.rng.chance(1, 5) {
                        self.feature("unary-over-unary");
                        match self.rng.below(3) {
                            0 => format!("{}{}", op, self.sub(k, lanes, d)),
                            1 => format!("{}{}", if op == "+" { "-" } else { "+" }, self.sub(k, lanes, d)),
                            _ => self.side_effect(k, lanes, d),
                        }
                    } else {
                        self.sub(k, lanes, d)
                    };
                    if inner.starts_with('-') || inner.starts_with('+') || inner.starts_with('~') {
                        format!("{}({})", op, inner)
                    } else {
                        format!("{}{}", op, inner)
                    }
                }
                38..=45 if lanes == 1 || self.rng.chance(1, 2) => self.ternary(k, lanes, d),
                46..=57 => self.cast_from_other(k, lanes, d),
                58..=64 if lanes > 1 => self.constructor(k, lanes, d),
                65..=76 => self.intrinsic(k, lanes, d),
                77..=86 => self.call_user(k, lanes, d),
                87..=90 if lanes == 1 => {
                    self.feature("comma");
                    let ok = self.fix_kind(Kind::Int);
                    format!("({}, {})", self.sub(ok, 1, d), self.sub(k, lanes, d))
                }
                91..=94 => self.side_effect(k, lanes, d),
                _ => self.leaf(k, lanes),
            },
        }
    }

    fn fix_kind(&self, k: Kind) -> Kind {
        match k {
            Kind::Half if !self.cfg.allow_half => Kind::Float,
            Kind::Double if !self.cfg.allow_double => Kind::Float,
            k => k,
        }
    }

    /// Sub-expression in parentheses when it is not a primary
    fn sub(&mut self, k: Kind, lanes: u8, depth: usize) -> String {
        let e = self.expr(k, lanes, depth);
        if is_primary(&e) {
            e
        } else {
            format!("({})", e)
        }
    }

    fn leaf(&mut self, k: Kind, lanes: u8) -> String {
        let reads = self.readable_of(k, lanes);
        if !reads.is_empty() && self.rng.chance(3, 4) {
            let path = self.rng.pick(&reads).clone();
            // now and then the constant subscript becomes a computed one (kept inside the bounds the constant showed):
            // globals, calls and side effects then sit inside index brackets
            if !self.in_index && self.rng.chance(1, 5) {
                if let Some(open) = path.find('[') {
                    if let Some(close) = path[open..].find(']') {
                        if let Ok(c) = path[open + 1..open + close].parse::<u32>() {
                            self.in_index = true;
                            let e = self.expr(Kind::UInt, 1, 1);
                            self.in_index = false;
                            self.feature("computed-subscript");
                            return format!("{}[(uint)({}) % {}u]{}", &path[..open], e, c + 1, &path[open + close + 1..]);
                        }
                    }
                }
            }
            return path;
        }
        if lanes == 1 {
            if k != Kind::Bool && !self.enums.is_empty() && k == Kind::Int && self.rng.chance(1, 10) {
                let e = self.rng.below(self.enums.len());
                let v = *self.rng.pick(&self.enums[e].values.clone());
                self.feature("enum-to-int");
                return format!("(int){}{}::{}", self.enums[e].prefix, ph(self.enums[e].id), ph(v));
            }
            self.literal(k)
        } else {
            // vector literal through a constructor or a splat cast
            if self.rng.chance(1, 3) {
                self.feature("splat-cast");
                format!("({}{}){}", kind_name(k), lanes, self.literal(k))
            } else {
                let mut parts = Vec::new();
                for _ in 0..lanes {
                    parts.push(self.literal(k));
                }
                self.feature("constructor");
                format!("{}{}({})", kind_name(k), lanes, parts.join(", "))
            }
        }
    }

    fn ternary(&mut self, k: Kind, lanes: u8, d: usize) -> String {
        self.feature("ternary");
        format!("{} ? {} : {}", self.sub(Kind::Bool, 1, d), self.sub(k, lanes, d), self.sub(k, lanes, d))
    }

    fn cast_from_other(&mut self, k: Kind, lanes: u8, d: usize) -> String {
        let kinds = self.num_kinds();
        let from = *self.rng.pick(&kinds);
        if from == k {
            return self.leaf(k, lanes);
        }
        // conversions that can trap for large values stay close to small operands: fine, traps are discarded
        let inner = self.sub(from, lanes, d);
        if self.rng.chance(1, 3) {
            // implicit conversion through a typed context is generated by the statement level; here use a constructor style cast
            self.feature("constructor-cast");
            if lanes == 1 {
                format!("{}({})", kind_name(k), inner)
            } else {
                format!("{}{}({})", kind_name(k), lanes, inner)
            }
        } else {
            self.feature("c-cast");
            let tn = if lanes == 1 { kind_name(k).to_string() } else { format!("{}{}", kind_name(k), lanes) };
            format!("({}){}", tn, inner)
        }
    }

    fn constructor(&mut self, k: Kind, lanes: u8, d: usize) -> String {
        self.feature("constructor");
        // split lanes into parts
        let mut parts = Vec::new();
        let mut left = lanes;
        while left > 0 {
            let take = 1 + self.rng.below(left as usize) as u8;
            let take = if take == lanes { 1 } else { take };
            parts.push(self.expr(k, take, d));
            left -= take;
        }
        format!("{}{}({})", kind_name(k), lanes, parts.join(", "))
    }

    fn intrinsic(&mut self, k: Kind, lanes: u8, d: usize) -> String {
        if k == Kind::Double {
            // rssl has no double overloads of the math intrinsics (calls are ambiguous)
            return self.leaf(k, lanes);
        }
        self.feature("intrinsic");
        if k.is_float() {
            let pick = self.rng.below(19);
            let a = self.expr(k, lanes, d);
            match pick {
                0 => format!("abs({})", a),
                1 => format!("min({}, {})", a, self.expr(k, lanes, d)),
                2 => format!("max({}, {})", a, self.expr(k, lanes, d)),
                3 => format!("floor({})", a),
                4 => format!("ceil({})", a),
                5 => format!("trunc({})", a),
                6 => format!("saturate({})", a),
                7 => format!("sqrt(abs({}))", a),
                8 => format!("lerp({}, {}, {})", a, self.expr(k, lanes, d), self.expr(k, lanes, d)),
                9 => format!("step({}, {})", a, self.expr(k, lanes, d)),
                10 if lanes == 1 && k == Kind::Float => {
                    let n = 2 + self.rng.below(3) as u8;
                    format!("dot({}, {})", self.expr(k, n, d), self.expr(k, n, d))
                }
                11 => format!("frac({})", a),
                12 if k == Kind::Float => format!("asfloat(asuint({}))", a),
                13 if lanes == 3 && k == Kind::Float => format!("cross({}, {})", a, self.expr(k, 3, d)),
                14 => format!("clamp({}, {}, {})", a, self.literal_splat(k, lanes, "0.0"), self.literal_splat(k, lanes, "4.0")),
                _ => {
                    // second table: transcendental and selection intrinsics (float and half only)
                    if k == Kind::Double {
                        return format!("abs({})", a);
                    }
                    let one = self.literal_splat(k, lanes, "1.0");
                    match self.rng.below(11) {
                        0 => format!("rsqrt(abs({}) + {})", a, one),
                        1 => format!("rcp({} + {})", a, self.literal_splat(k, lanes, "16.0")),
                        2 => format!("exp2({})", a),
                        3 => format!("log2(abs({}) + {})", a, one),
                        4 => format!("sin({})", a),
                        5 => format!("cos({})", a),
                        6 => format!("pow(abs({}), {})", a, self.expr(k, lanes, d)),
                        7 => format!("fmod({}, {})", a, self.expr(k, lanes, d)),
                        8 => format!("select({}, {}, {})", self.expr(Kind::Bool, lanes, d), a, self.expr(k, lanes, d)),
                        _ => format!("abs({})", a),
                    }
                }
            }
        } else if k == Kind::Bool {
            self.leaf(k, lanes)
        } else {
            let pick = self.rng.below(10);
            let a = self.expr(k, lanes, d);
            match pick {
                0 => format!("min({}, {})", a, self.expr(k, lanes, d)),
                1 => format!("max({}, {})", a, self.expr(k, lanes, d)),
                2 if k == Kind::Int => format!("abs({})", a),
                3 if k == Kind::UInt => format!("countbits({})", a),
                4 if k == Kind::UInt => format!("reversebits({})", a),
                5 if k == Kind::UInt => format!("firstbitlow({})", a),
                6 if k == Kind::UInt => format!("asuint(asfloat({} & 0x7F7FFFFFu))", a),
                7 if k == Kind::Int => format!("asint(asfloat(({}) & 0x7F7FFFFF))", a),
                8 if k == Kind::Int => {
                    let fk = if self.cfg.allow_half && self.rng.chance(1, 3) { Kind::Half } else { Kind::Float };
                    format!("sign({})", self.expr(fk, lanes, d))
                }
                _ => format!("min({}, {})", a, self.expr(k, lanes, d)),
            }
        }
    }

    fn literal_splat(&mut self, k: Kind, lanes: u8, base: &str) -> String {
        let lit = match k {
            Kind::Half => format!("{}h", base),
            Kind::Float => format!("{}f", base),
            Kind::Double => format!("{}L", base),
            _ => base.to_string(),
        };
        if lanes == 1 {
            lit
        } else {
            format!("({}{}){}", kind_name(k), lanes, lit)
        }
    }

    fn call_user(&mut self, k: Kind, lanes: u8, d: usize) -> String {
        let want = Ty::Num(k, lanes);
        let candidates: Vec<usize> = (0..self.funcs.len()).filter(|i| self.funcs[*i].ret == want).collect();
        if candidates.is_empty() {
            // method of a struct typed variable?
            return self.call_method(k, lanes, d).unwrap_or_else(|| self.leaf(k, lanes));
        }
        let fi = *self.rng.pick(&candidates);
        let f = self.funcs[fi].clone();
        let mut args = Vec::new();
        let mut ok = true;
        let nparams = f.params.len();
        // drop trailing defaulted arguments sometimes
        let mut upto = nparams;
        while upto > 0 && f.params[upto - 1].2 && self.rng.chance(1, 2) {
            upto -= 1;
            self.feature("default-argument-used");
        }
        for (ty, modifier, _) in f.params.iter().take(upto) {
            match (ty, modifier) {
                (Ty::Num(pk, pl), 0) => {
                    let e = self.expr(*pk, *pl, d.min(1));
                    let overloaded = self.funcs.iter().filter(|o| o.id == f.id).count() > 1;
                    if overloaded {
                        // untyped literals would make the call ambiguous: give the argument its exact type
                        let tn = if *pl == 1 { kind_name(*pk).to_string() } else { format!("{}{}", kind_name(*pk), pl) };
                        args.push(format!("({})({})", tn, e));
                    } else {
                        args.push(e);
                    }
                }
                (Ty::Num(pk, pl), _) => {
                    // out / inout need an lvalue of exactly that type which nothing else in this expression touches
                    let ws: Vec<_> = self
                        .writable_nums()
                        .into_iter()
                        .filter(|w| w.1 == *pk && w.2 == *pl && Some(w.3) != self.reserved && !w.0.contains('.') && !w.0.contains('['))
                        .collect();
                    if ws.is_empty() || self.side_effect_budget == 0 {
                        ok = false;
                        break;
                    }
                    let w = self.rng.pick(&ws).clone();
                    self.side_effect_budget -= 1;
                    self.reserved = Some(w.3);
                    self.feature("out-argument");
                    args.push(w.0);
                }
                (other, 0) => {
                    let vars: Vec<Var> = self.visible_vars().into_iter().filter(|v| v.ty == *other && Some(v.id) != self.reserved).collect();
                    if vars.is_empty() {
                        ok = false;
                        break;
                    }
                    args.push(self.rng.pick(&vars).path());
                }
                _ => {
                    ok = false;
                    break;
                }
            }
        }
        if !ok {
            return self.leaf(k, lanes);
        }
        self.feature("user-call");
        if f.template {
            self.feature("template-call");
            if self.rng.chance(1, 2) {
                return format!("{}{}<{}>({})", f.prefix, ph(f.id), self.type_name(&want), args.join(", "));
            }
        }
        format!("{}{}({})", f.prefix, ph(f.id), args.join(", "))
    }

    fn call_method(&mut self, k: Kind, lanes: u8, d: usize) -> Option<String> {
        let want = Ty::Num(k, lanes);
        let vars = self.visible_vars();
        let mut options = Vec::new();
        for v in &vars {
            if Some(v.id) == self.reserved {
                continue;
            }
            if let Ty::Struct(si) = &v.ty {
                for (mid, ret, params) in &self.structs[*si].methods {
                    if *ret == want && v.writable {
                        options.push((v.id, *mid, params.clone()));
                    }
                }
            }
        }
        if options.is_empty() || self.side_effect_budget == 0 {
            return None;
        }
        let (vid, mid, params) = self.rng.pick(&options).clone();
        // a method may mutate its object: treat the object as this expression's side-effect variable
        self.side_effect_budget -= 1;
        self.reserved = Some(vid);
        let mut args = Vec::new();
        for p in &params {
            if let Ty::Num(pk, pl) = p {
                args.push(self.expr(*pk, *pl, d.min(1)));
            }
        }
        self.feature("method-call");
        Some(format!("{}.{}({})", ph(vid), ph(mid), args.join(", ")))
    }

    fn side_effect(&mut self, k: Kind, lanes: u8, d: usize) -> String {
        if self.side_effect_budget == 0 || k == Kind::Bool {
            return self.leaf(k, lanes);
        }
        let ws: Vec<_> = self.writable_nums().into_iter().filter(|w| w.1 == k && w.2 == lanes && Some(w.3) != self.reserved).collect();
        if ws.is_empty() {
            return self.leaf(k, lanes);
        }
        let w = self.rng.pick(&ws).clone();
        self.side_effect_budget -= 1;
        // all later reads of this variable in the same full expression are excluded
        self.reserved = Some(w.3);
        self.feature("side-effect-subexpression");
        match self.rng.below(6) {
            0 => format!("{}++", w.0),
            1 => format!("{}--", w.0),
            2 => format!("(++{})", w.0),
            3 => format!("(--{})", w.0),
            4 => format!("({} = {})", w.0, self.sub(k, lanes, d.min(1))),
            _ => {
                let op = if k.is_float() { *self.rng.pick(&["+=", "-=", "*="]) } else { *self.rng.pick(&["+=", "-=", "*=", "&=", "|=", "^=", "<<=", ">>="]) };
                format!("({} {} {})", w.0, op, self.sub(k, lanes, d.min(1)))
            }
        }
    }

    /// A full expression of a numeric type, starting a fresh side-effect budget.
    /// The side-effect variable must not be read anywhere in the expression: since reservation happens when the side effect
    /// is generated, text generated *before* it could already read the variable; that case is repaired by regenerating.
    fn full_expr(&mut self, k: Kind, lanes: u8) -> String {
        for _ in 0..4 {
            self.reserved = None;
            self.side_effect_budget = 1;
            let depth = 1 + self.rng.below(self.cfg.max_expr_depth);
            let e = self.expr(k, lanes, depth);
            let ok = match self.reserved {
                None => true,
                Some(id) => e.matches(&ph(id)).count() <= 1,
            };
            self.reserved = None;
            if ok {
                return e;
            }
        }
        self.reserved = None;
        self.side_effect_budget = 0;
        let e = self.expr(k, lanes, 2);
        e
    }

    fn full_expr_of(&mut self, ty: &Ty) -> String {
        match ty {
            Ty::Num(k, l) => {
                // sometimes give an expression of another numeric kind and rely on the implicit conversion
                if self.rng.chance(1, 6) && *k != Kind::Bool {
                    let kinds = self.num_kinds();
                    let ok = *self.rng.pick(&kinds);
                    if ok != Kind::Bool {
                        self.feature("implicit-conversion");
                        return self.full_expr(ok, *l);
                    }
                }
                self.full_expr(*k, *l)
            }
            Ty::Enum(e) => {
                let vals = self.enums[*e].values.clone();
                let v = *self.rng.pick(&vals);
                if self.rng.chance(1, 3) {
                    self.feature("int-to-enum-cast");
                    format!("({}{})({})", self.enums[*e].prefix.clone(), ph(self.enums[*e].id), self.full_expr(Kind::Int, 1))
                } else {
                    format!("{}{}::{}", self.enums[*e].prefix, ph(self.enums[*e].id), ph(v))
                }
            }
            Ty::Struct(_) | Ty::Array(..) => {
                let vars: Vec<Var> = self.visible_vars().into_iter().filter(|v| v.ty == *ty).collect();
                if vars.is_empty() {
                    // callers make sure one exists (see gen_function); a scalar cast is the last resort for structs: every member
                    // gets the value, the operand is evaluated once
                    if matches!(ty, Ty::Struct(_)) && !self.in_index && self.rng.chance(1, 3) {
                        self.in_index = true;
                        let e = self.expr(Kind::Int, 1, 1);
                        self.in_index = false;
                        self.feature("scalar-to-struct-cast");
                        format!("({})({})", self.type_name(ty), e)
                    } else {
                        format!("({})0", self.type_name(ty))
                    }
                } else {
                    self.rng.pick(&vars).path()
                }
            }
            Ty::Void => String::new(),
        }
    }

    // ---------------------------------------------------------------------------------------------
    // statements
    // ---------------------------------------------------------------------------------------------

    fn indent(n: usize) -> String {
        "    ".repeat(n)
    }

    fn declare_local(&mut self, ty: Ty, writable: bool) -> usize {
        let id = self.ident(IdKind::Local);
        self.scopes.last_mut().unwrap().push(Var { id, ty, writable, prefix: String::new() });
        id
    }

    fn initializer(&mut self, ty: &Ty) -> String {
        match ty {
            Ty::Array(inner, n) => {
                let mut parts = Vec::new();
                for _ in 0..*n {
                    parts.push(self.initializer(inner));
                }
                self.feature("aggregate-initializer");
                format!("{{ {} }}", parts.join(", "))
            }
            Ty::Struct(si) => {
                let members = self.structs[*si].members.clone();
                let mut parts = Vec::new();
                for (_, mty) in &members {
                    parts.push(self.initializer(mty));
                }
                self.feature("aggregate-initializer");
                format!("{{ {} }}", parts.join(", "))
            }
            other => self.full_expr_of(other),
        }
    }

    fn statement(&mut self, out: &mut String, ind: usize, depth: usize) {
        let pad = Self::indent(ind);
        let choice = self.rng.below(100);
        match choice {
            0..=21 => {
                // local declaration
                let ty = self.random_type(true);
                let init = self.initializer(&ty);
                let is_const = ty.is_num() && self.rng.chance(1, 6);
                let id = self.declare_pending(&ty, !is_const);
                if is_const {
                    self.feature("const-local");
                }
                out.push_str(&format!("{}{}{} {}{} = {};\n", pad, if is_const { "const " } else { "" }, self.type_name(&ty), ph(id), Self::array_suffix(&ty), init));
            }
            22..=47 => {
                // assignment / compound assignment to a writable numeric lvalue
                let ws = self.writable_nums();
                if ws.is_empty() {
                    return self.statement_decl_fallback(out, ind);
                }
                let w = self.rng.pick(&ws).clone();
                self.reserved = None;
                let op = if w.1 == Kind::Bool {
                    "="
                } else if w.1.is_float() {
                    *self.rng.pick(&["=", "=", "+=", "-=", "*=", "/="])
                } else {
                    *self.rng.pick(&["=", "=", "+=", "-=", "*=", "&=", "|=", "^=", "<<=", ">>="])
                };
                if op != "=" {
                    self.feature("compound-assignment");
                }
                // the target itself may be read on the right hand side (a = a + 1 is fine); side effects inside rhs use other variables
                let rhs = self.full_expr_avoiding(w.1, w.2, w.3);
                out.push_str(&format!("{}{} {} {};\n", pad, w.0, op, rhs));
            }
            48..=53 => {
                let ws: Vec<_> = self.writable_nums().into_iter().filter(|w| w.1 != Kind::Bool).collect();
                if ws.is_empty() {
                    return self.statement_decl_fallback(out, ind);
                }
                let w = self.rng.pick(&ws).clone();
                self.feature("increment-statement");
                let s = match self.rng.below(4) {
                    0 => format!("{}++", w.0),
                    1 => format!("{}--", w.0),
                    2 => format!("++{}", w.0),
                    _ => format!("--{}", w.0),
                };
                out.push_str(&format!("{}{};\n", pad, s));
            }
            54..=65 if depth > 0 => {
                self.feature("if");
                let c = self.full_expr(Kind::Bool, 1);
                out.push_str(&format!("{}if ({})\n{}{{\n", pad, c, pad));
                self.block_body(out, ind + 1, depth - 1, 1, 3);
                out.push_str(&format!("{}}}\n", pad));
                if self.rng.chance(1, 2) {
                    self.feature("else");
                    if self.rng.chance(1, 3) {
                        let c2 = self.full_expr(Kind::Bool, 1);
                        out.push_str(&format!("{}else if ({})\n{}{{\n", pad, c2, pad));
                        self.block_body(out, ind + 1, depth - 1, 1, 2);
                        out.push_str(&format!("{}}}\n", pad));
                    }
                    out.push_str(&format!("{}else\n{}{{\n", pad, pad));
                    self.block_body(out, ind + 1, depth - 1, 1, 3);
                    out.push_str(&format!("{}}}\n", pad));
                }
            }
            66..=73 if depth > 0 => {
                self.feature("for");
                self.scopes.push(Vec::new());
                let id = self.ident(IdKind::Local);
                // the loop counter is read only (not writable by generated statements) so the loop stays bounded
                self.scopes.last_mut().unwrap().push(Var {
                    id,
                    ty: Ty::Num(Kind::Int, 1),
                    writable: false,
                    prefix: String::new(),
                });
                let n = 1 + self.rng.below(4);
                let inc = match self.rng.below(3) {
                    0 => format!("++{}", ph(id)),
                    1 => format!("{}++", ph(id)),
                    _ => format!("{} += 1", ph(id)),
                };
                out.push_str(&format!("{}for (int {} = 0; {} < {}; {})\n{}{{\n", pad, ph(id), ph(id), n, inc, pad));
                self.loop_depth += 1;
                let saved = self.in_switch;
                self.in_switch = false;
                self.block_body(out, ind + 1, depth - 1, 1, 3);
                self.in_switch = saved;
                self.loop_depth -= 1;
                out.push_str(&format!("{}}}\n", pad));
                self.scopes.pop();
            }
            74..=79 if depth > 0 => {
                // while / do-while with an explicit fuel counter
                let fuel = self.declare_pending(&Ty::Num(Kind::Int, 1), false);
                let n = 1 + self.rng.below(4);
                out.push_str(&format!("{}int {} = {};\n", pad, ph(fuel), n));
                let c = self.full_expr_avoiding(Kind::Bool, 1, fuel);
                let saved = self.in_switch;
                self.in_switch = false;
                if self.rng.chance(1, 2) {
                    self.feature("while");
                    out.push_str(&format!("{}while ({} > 0 && ({}))\n{}{{\n", pad, ph(fuel), c, pad));
                    out.push_str(&format!("{}{}--;\n", Self::indent(ind + 1), ph(fuel)));
                    self.loop_depth += 1;
                    self.block_body(out, ind + 1, depth - 1, 1, 3);
                    self.loop_depth -= 1;
                    out.push_str(&format!("{}}}\n", pad));
                } else {
                    self.feature("do-while");
                    out.push_str(&format!("{}do\n{}{{\n", pad, pad));
                    out.push_str(&format!("{}{}--;\n", Self::indent(ind + 1), ph(fuel)));
                    self.loop_depth += 1;
                    self.block_body(out, ind + 1, depth - 1, 1, 3);
                    self.loop_depth -= 1;
                    out.push_str(&format!("{}}}\n{}while ({} > 0 && ({}));\n", pad, pad, ph(fuel), c));
                }
                self.in_switch = saved;
            }
            80..=85 if depth > 0 => {
                self.feature("switch");
                let sel = self.full_expr(Kind::Int, 1);
                // one switch in four selects on an enumeration and labels its cases with enumerators
                let over_enum = if !self.enums.is_empty() && self.rng.chance(1, 4) { Some(self.rng.below(self.enums.len())) } else { None };
                let mut labels: Vec<String> = match over_enum {
                    Some(e) => {
                        self.feature("switch-over-enum");
                        let info = self.enums[e].clone();
                        let (lo, hi) = (*info.nums.iter().min().unwrap(), *info.nums.iter().max().unwrap());
                        let span = hi - lo + 1;
                        let ename = format!("{}{}", info.prefix, ph(info.id));
                        out.push_str(&format!("{}switch (({})(((({}) & 0x7fff) % {}) + ({})))\n{}{{\n", pad, ename, sel, span, lo, pad));
                        info.values.iter().map(|v| format!("{}::{}", ename, ph(*v))).collect()
                    }
                    None => {
                        out.push_str(&format!("{}switch (({}) & 3)\n{}{{\n", pad, sel, pad));
                        vec!["0".to_string(), "1".to_string(), "2".to_string(), "3".to_string()]
                    }
                };
                self.rng.shuffle(&mut labels);
                let ncases = (1 + self.rng.below(3)).min(labels.len());
                let saved = self.in_switch;
                self.in_switch = true;
                for (i, l) in labels.iter().take(ncases).enumerate() {
                    out.push_str(&format!("{}case {}:\n", Self::indent(ind + 1), l));
                    if i + 1 < ncases && self.rng.chance(1, 4) {
                        self.feature("switch-fallthrough-label");
                        continue;
                    }
                    out.push_str(&format!("{}{{\n", Self::indent(ind + 1)));
                    self.block_body(out, ind + 2, depth - 1, 1, 2);
                    out.push_str(&format!("{}}}\n", Self::indent(ind + 1)));
                    if self.rng.chance(4, 5) {
                        out.push_str(&format!("{}break;\n", Self::indent(ind + 1)));
                    } else {
                        self.feature("switch-fallthrough");
                    }
                }
                match self.rng.below(6) {
                    0 | 1 => {}
                    2 => {
                        // the last label of the switch is followed by nothing but an empty statement
                        self.feature("switch-trailing-empty-label");
                        out.push_str(&format!("{}default: ;\n", Self::indent(ind + 1)));
                    }
                    _ => {
                        out.push_str(&format!("{}default:\n{}{{\n", Self::indent(ind + 1), Self::indent(ind + 1)));
                        self.block_body(out, ind + 2, depth - 1, 1, 1);
                        out.push_str(&format!("{}}}\n{}break;\n", Self::indent(ind + 1), Self::indent(ind + 1)));
                    }
                }
                self.in_switch = saved;
                out.push_str(&format!("{}}}\n", pad));
            }
            86..=88 if self.loop_depth > 0 && !self.in_switch => {
                self.feature("break-continue");
                let c = self.full_expr(Kind::Bool, 1);
                out.push_str(&format!("{}if ({})\n{}{{\n{}{};\n{}}}\n", pad, c, pad, Self::indent(ind + 1), if self.rng.chance(1, 2) { "break" } else { "continue" }, pad));
            }
            89..=91 if depth > 0 => {
                self.feature("early-return");
                let c = self.full_expr(Kind::Bool, 1);
                let ret = self.return_statement();
                out.push_str(&format!("{}if ({})\n{}{{\n{}{}\n{}}}\n", pad, c, pad, Self::indent(ind + 1), ret, pad));
            }
            92..=95 => {
                // call of a void function (with out parameters) as a statement
                let voids: Vec<usize> = (0..self.funcs.len()).filter(|i| self.funcs[*i].ret == Ty::Void).collect();
                if voids.is_empty() {
                    return self.statement_decl_fallback(out, ind);
                }
                let fi = *self.rng.pick(&voids);
                let f = self.funcs[fi].clone();
                let mut args = Vec::new();
                let mut used: Vec<usize> = Vec::new();
                for (ty, modifier, _) in &f.params {
                    match (ty, modifier) {
                        (Ty::Num(k, l), 0) => {
                            self.reserved = None;
                            self.side_effect_budget = 0;
                            args.push(self.expr(*k, *l, 1));
                        }
                        (Ty::Num(k, l), _) => {
                            let ws: Vec<_> = self.writable_nums().into_iter().filter(|w| w.1 == *k && w.2 == *l && !used.contains(&w.3) && !w.0.contains('.') && !w.0.contains('[')).collect();
                            if ws.is_empty() {
                                return self.statement_decl_fallback(out, ind);
                            }
                            let w = self.rng.pick(&ws).clone();
                            used.push(w.3);
                            args.push(w.0);
                        }
                        _ => return self.statement_decl_fallback(out, ind),
                    }
                }
                // arguments must not read variables that are also passed as out/inout
                if args.iter().enumerate().any(|(i, a)| used.iter().any(|u| a.contains(&ph(*u)) && f.params[i].1 == 0)) {
                    return self.statement_decl_fallback(out, ind);
                }
                self.feature("void-call-with-out");
                out.push_str(&format!("{}{}{}({});\n", pad, f.prefix, ph(f.id), args.join(", ")));
            }
            96..=97 if depth > 0 => {
                self.feature("nested-block");
                out.push_str(&format!("{}{{\n", pad));
                self.block_body(out, ind + 1, depth - 1, 1, 3);
                out.push_str(&format!("{}}}\n", pad));
            }
            _ => self.statement_decl_fallback(out, ind),
        }
    }

    /// Declare a local whose declaration text is emitted by the caller *after* its initialiser was generated
    fn declare_pending(&mut self, ty: &Ty, writable: bool) -> usize {
        self.declare_local(ty.clone(), writable)
    }

    fn full_expr_avoiding(&mut self, k: Kind, lanes: u8, avoid_side_effect_on: usize) -> String {
        for _ in 0..4 {
            self.reserved = None;
            self.side_effect_budget = 1;
            let depth = 1 + self.rng.below(self.cfg.max_expr_depth);
            let e = self.expr(k, lanes, depth);
            let ok = match self.reserved {
                None => true,
                Some(id) => id != avoid_side_effect_on && e.matches(&ph(id)).count() <= 1,
            };
            self.reserved = None;
            if ok {
                return e;
            }
        }
        self.side_effect_budget = 0;
        self.reserved = None;
        self.expr(k, lanes, 1)
    }

    fn statement_decl_fallback(&mut self, out: &mut String, ind: usize) {
        let ty = self.random_num();
        let init = self.full_expr_of(&ty);
        let id = self.declare_pending(&ty, true);
        out.push_str(&format!("{}{} {} = {};\n", Self::indent(ind), self.type_name(&ty), ph(id), init));
    }

    fn block_body(&mut self, out: &mut String, ind: usize, depth: usize, lo: usize, span: usize) {
        let n = lo + self.rng.below(span.max(1));
        self.scopes.push(Vec::new());
        for _ in 0..n {
            self.statement(out, ind, depth);
        }
        self.scopes.pop();
    }

    fn return_statement(&mut self) -> String {
        let ret = self.current_ret.clone();
        match ret {
            Ty::Void => "return;".to_string(),
            ty => {
                let e = self.full_expr_of(&ty);
                format!("return {};", e)
            }
        }
    }

    // ---------------------------------------------------------------------------------------------
    // declarations
    // ---------------------------------------------------------------------------------------------

    fn gen_enum(&mut self, out: &mut String) {
        let id = self.ident(IdKind::Enum);
        let n = 2 + self.rng.below(3);
        let mut values = Vec::new();
        let mut parts = Vec::new();
        let mut next = 0i64;
        let mut nums = Vec::new();
        // one enumeration in three starts below zero
        let negative_start = self.rng.chance(1, 3);
        for i in 0..n {
            let v = self.ident(IdKind::EnumValue);
            values.push(v);
            if i == 0 && negative_start {
                next = -(self.rng.range(1, 9) as i64);
                parts.push(format!("    {} = {},", ph(v), next));
                self.feature("enum-negative-values");
            } else if self.rng.chance(1, 2) {
                next += self.rng.range(0, 5);
                parts.push(format!("    {} = {},", ph(v), next));
            } else {
                parts.push(format!("    {},", ph(v)));
            }
            nums.push(next);
            next += 1;
        }
        out.push_str(&format!("enum {}\n{{\n{}\n}};\n\n", ph(id), parts.join("\n")));
        self.enums.push(EnumInfo { id, values, nums, prefix: String::new() });
        self.feature("enum");
    }

    fn gen_struct(&mut self, out: &mut String) {
        let id = self.ident(IdKind::Struct);
        let n = 1 + self.rng.below(4);
        let mut members = Vec::new();
        let mut text = String::new();
        for _ in 0..n {
            let ty = match self.rng.below(8) {
                0 if !self.structs.is_empty() => Ty::Struct(self.rng.below(self.structs.len())),
                1 => Ty::Array(Box::new(self.random_num()), 2 + self.rng.below(2)),
                _ => self.random_num(),
            };
            let mid = self.ident(IdKind::Member);
            text.push_str(&format!("    {} {}{};\n", self.type_name(&ty), ph(mid), Self::array_suffix(&ty)));
            members.push((mid, ty));
        }
        let si = self.structs.len();
        self.structs.push(StructInfo {
            id,
            members: members.clone(),
            methods: Vec::new(),
        });
        // methods
        let nmethods = if self.cfg.rich { self.rng.below(3) } else { 0 };
        let mut mtext = String::new();
        for _ in 0..nmethods {
            let mid = self.ident(IdKind::Method);
            let ret = self.random_num();
            let nparams = self.rng.below(3);
            let mut params = Vec::new();
            let mut ptext = Vec::new();
            self.scopes.push(Vec::new());
            for _ in 0..nparams {
                let pty = self.random_num();
                let pid = self.ident(IdKind::Param);
                ptext.push(format!("{} {}", self.type_name(&pty), ph(pid)));
                self.scopes.last_mut().unwrap().push(Var {
                    id: pid,
                    ty: pty.clone(),
                    writable: true,
                    prefix: String::new(),
                });
                params.push(pty);
            }
            self.this_members = members
                .iter()
                .map(|(m, t)| Var {
                    id: *m,
                    ty: t.clone(),
                    writable: true,
                    prefix: String::new(),
                })
                .collect();
            self.current_ret = ret.clone();
            let mut body = String::new();
            // methods cannot call the free functions defined later; give them 1-3 simple statements
            let saved_funcs = std::mem::take(&mut self.funcs);
            let saved_globals = std::mem::take(&mut self.globals);
            self.scopes.push(Vec::new());
            for _ in 0..1 + self.rng.below(3) {
                self.statement(&mut body, 2, 1);
            }
            let ret_s = self.return_statement();
            self.scopes.pop();
            self.funcs = saved_funcs;
            self.globals = saved_globals;
            self.this_members.clear();
            self.scopes.pop();
            mtext.push_str(&format!("\n    {} {}({})\n    {{\n{}        {}\n    }}\n", self.type_name(&ret), ph(mid), ptext.join(", "), body, ret_s));
            self.structs[si].methods.push((mid, ret, params));
            self.feature("struct-method");
        }
        out.push_str(&format!("struct {}\n{{\n{}{}}};\n\n", ph(id), text, mtext));
        self.feature("struct");
    }

    fn gen_global(&mut self, out: &mut String) {
        let id = self.ident(IdKind::Global);
        let ty = if self.rng.chance(1, 5) { Ty::Array(Box::new(self.random_num()), 2 + self.rng.below(3)) } else { self.random_num() };
        let is_const = self.rng.chance(1, 2);
        // global initialisers: literals only (constant expressions)
        let init = self.const_initializer(&ty);
        out.push_str(&format!("static {}{} {}{} = {};\n", if is_const { "const " } else { "" }, self.type_name(&ty), ph(id), Self::array_suffix(&ty), init));
        self.globals.push(Var { id, ty, writable: !is_const, prefix: String::new() });
        self.feature(if is_const { "static-const-global" } else { "static-global" });
    }

    /// A constant expression over literals of kind k (folded by the compiler, evaluated by the reference interpreter)
    fn const_expr(&mut self, k: Kind, depth: usize) -> String {
        if depth == 0 || self.rng.chance(1, 3) || k == Kind::Bool {
            return self.literal(k);
        }
        let a = self.const_expr(k, depth - 1);
        let b = self.const_expr(k, depth - 1);
        self.feature("constant-expression-initializer");
        if k.is_float() {
            // typed float arithmetic only (arithmetic on untyped float literals is unspecified across the languages)
            let op = *self.rng.pick(&["+", "-", "*"]);
            format!("(({}){} {} ({}){})", kind_name(k), a, op, kind_name(k), b)
        } else {
            let op = *self.rng.pick(&["+", "-", "*", "&", "|", "^", "<<", ">>", "/", "%"]);
            if op == "/" || op == "%" {
                let one = if k == Kind::UInt { "1u" } else { "1" };
                format!("(({}){} {} (({}){} | {}))", kind_name(k), a, op, kind_name(k), b, one)
            } else if op == "<<" || op == ">>" {
                format!("(({}){} {} (({}){} & 7))", kind_name(k), a, op, kind_name(k), b)
            } else {
                format!("(({}){} {} ({}){})", kind_name(k), a, op, kind_name(k), b)
            }
        }
    }

    fn const_initializer(&mut self, ty: &Ty) -> String {
        if let Ty::Num(k, 1) = ty {
            if self.rng.chance(1, 3) {
                return self.const_expr(*k, 2);
            }
        }
        match ty {
            Ty::Array(inner, n) => {
                let parts: Vec<String> = (0..*n).map(|_| self.const_initializer(inner)).collect();
                format!("{{ {} }}", parts.join(", "))
            }
            Ty::Num(k, 1) => self.literal(*k),
            Ty::Num(k, n) => {
                let parts: Vec<String> = (0..*n).map(|_| self.literal(*k)).collect();
                format!("{}{}({})", kind_name(*k), n, parts.join(", "))
            }
            _ => "0".to_string(),
        }
    }

    fn gen_function(&mut self, out: &mut String, entry: bool, name_override: Option<usize>, prefix: &str, ind: usize) -> usize {
        let id = name_override.unwrap_or_else(|| self.ident(IdKind::Function));
        let agg = entry || self.rng.chance(1, 4);
        let ret = if self.rng.chance(1, 6) { Ty::Void } else { self.random_type(agg) };
        let ret = match ret {
            Ty::Array(..) => self.random_num(),
            r => r,
        };
        let nparams = self.rng.below(4) + if ret == Ty::Void { 1 } else { 0 };
        let mut params = Vec::new();
        let mut ptext = Vec::new();
        self.scopes.push(Vec::new());
        let mut outs = Vec::new();
        let mut defaults_started = false;
        for i in 0..nparams {
            let agg = self.rng.chance(1, 4);
            let pty = if entry { self.random_type(agg) } else { self.random_num() };
            let pty = match pty {
                Ty::Array(..) => self.random_num(),
                t => t,
            };
            let modifier: u8 = if pty.is_num() && (self.rng.chance(1, 5) || (ret == Ty::Void && i == 0)) { 1 + self.rng.below(2) as u8 } else { 0 };
            let pid = self.ident(IdKind::Param);
            let m = match modifier {
                1 => "out ",
                2 => "inout ",
                _ => {
                    if self.rng.chance(1, 8) {
                        "in "
                    } else {
                        ""
                    }
                }
            };
            let mut has_default = false;
            let mut decl = format!("{}{} {}", m, self.type_name(&pty), ph(pid));
            if !entry && modifier == 0 && pty.is_num() && (defaults_started || (i + 1 == nparams && self.rng.chance(1, 3))) {
                if let Ty::Num(k, 1) = &pty {
                    decl.push_str(&format!(" = {}", self.literal(*k)));
                    has_default = true;
                    defaults_started = true;
                    self.feature("default-argument");
                }
            }
            ptext.push(decl);
            self.scopes.last_mut().unwrap().push(Var {
                id: pid,
                ty: pty.clone(),
                writable: true,
                prefix: String::new(),
            });
            if modifier == 1 {
                outs.push((pid, pty.clone()));
            }
            if modifier != 0 {
                self.feature("out-parameter");
            }
            params.push((pty, modifier, has_default));
        }
        self.current_ret = ret.clone();
        let pad = Self::indent(ind);
        let mut body = String::new();
        // out parameters are written first so every path defines them
        for (pid, pty) in &outs {
            if let Ty::Num(k, l) = pty {
                // temporarily hide the parameter itself from reads while initialising it
                self.reserved = Some(*pid);
                self.side_effect_budget = 0;
                let e = self.expr(*k, *l, 1);
                self.reserved = None;
                body.push_str(&format!("{}    {} = {};\n", pad, ph(*pid), e));
            }
        }
        self.scopes.push(Vec::new());
        if let Ty::Struct(_) = &ret {
            let init = self.initializer(&ret);
            let rid = self.declare_pending(&ret, true);
            body.push_str(&format!("{}    {} {} = {};\n", pad, self.type_name(&ret), ph(rid), init));
        }
        let nst = 1 + self.rng.below(self.cfg.max_statements);
        for _ in 0..nst {
            self.statement(&mut body, ind + 1, 2);
        }
        let ret_s = self.return_statement();
        if ret != Ty::Void || self.rng.chance(1, 3) {
            body.push_str(&format!("{}    {}\n", pad, ret_s));
        }
        self.scopes.pop();
        self.scopes.pop();
        out.push_str(&format!("{}{} {}({})\n{}{{\n{}{}}}\n\n", pad, self.type_name(&ret), ph(id), ptext.join(", "), pad, body, pad));
        self.funcs.push(FuncInfo {
            id,
            prefix: prefix.to_string(),
            ret,
            params,
            template: false,
        });
        id
    }

    fn gen_template_function(&mut self, out: &mut String) {
        // template<typename T> T name(T a, T b) { return a <op> b; } - instantiated for the numeric types used at call sites
        let id = self.ident(IdKind::Function);
        self.multi.push(id);
        let tp = self.ident(IdKind::TemplateParam);
        let a = self.ident(IdKind::Param);
        let b = self.ident(IdKind::Param);
        let op = *self.rng.pick(&["+", "-", "*"]);
        out.push_str(&format!("template<typename {}>\n{} {}({} {}, {} {})\n{{\n    return {} {} {};\n}}\n\n", ph(tp), ph(tp), ph(id), ph(tp), ph(a), ph(tp), ph(b), ph(a), op, ph(b)));
        // register one callable signature per numeric type that is likely to be requested
        for k in [Kind::Int, Kind::UInt, Kind::Float] {
            for l in [1u8, 2, 3] {
                self.funcs.push(FuncInfo {
                    id,
                    prefix: String::new(),
                    ret: Ty::Num(k, l),
                    params: vec![(Ty::Num(k, l), 0, false), (Ty::Num(k, l), 0, false)],
                    template: true,
                });
            }
        }
        self.feature("function-template");
    }

    fn gen_overloads(&mut self, out: &mut String) {
        // two or three overloads of one name over different scalar kinds; call sites pass exactly typed arguments
        let id = self.ident(IdKind::Function);
        self.multi.push(id);
        let mut kinds = vec![Kind::Int, Kind::UInt, Kind::Float];
        self.rng.shuffle(&mut kinds);
        let n = 2 + self.rng.below(2);
        for k in kinds.into_iter().take(n) {
            let p = self.ident(IdKind::Param);
            let lit = self.literal(k);
            let op = *self.rng.pick(&["+", "*", "-"]);
            out.push_str(&format!("{} {}({} {})\n{{\n    return {} {} {};\n}}\n\n", kind_name(k), ph(id), kind_name(k), ph(p), ph(p), op, lit));
            self.funcs.push(FuncInfo {
                id,
                prefix: String::new(),
                ret: Ty::Num(k, 1),
                params: vec![(Ty::Num(k, 1), 0, false)],
                template: false,
            });
        }
        self.feature("overloads");
    }

    pub fn program(mut self) -> Program {
        let mut out = String::new();
        let mut entries = Vec::new();
        if self.cfg.rich {
            for _ in 0..self.rng.below(3) {
                self.gen_enum(&mut out);
            }
            for _ in 0..self.rng.below(3) {
                self.gen_struct(&mut out);
            }
        }
        for _ in 0..self.rng.below(4) {
            self.gen_global(&mut out);
        }
        if !self.globals.is_empty() {
            out.push('\n');
        }
        if self.cfg.rich && self.rng.chance(1, 3) {
            self.gen_template_function(&mut out);
        }
        if self.cfg.rich && self.rng.chance(1, 3) {
            self.gen_overloads(&mut out);
        }
        let nfuncs = 2 + self.rng.below(self.cfg.max_functions.max(1));
        for i in 0..nfuncs {
            if self.cfg.rich && self.rng.chance(1, 5) {
                // helpers (and sometimes globals, and a nested namespace) inside a namespace: inside they are used unqualified,
                // outside with the prefix, which is registered once the namespace is closed
                let ns = self.ident(IdKind::Namespace);
                out.push_str(&format!("namespace {}\n{{\n", ph(ns)));
                let prefix = format!("{}::", ph(ns));
                let funcs_before = self.funcs.len();
                let globals_before = self.globals.len();
                let idents_before = self.idents.len();
                let enums_before = self.enums.len();
                if self.rng.chance(1, 3) {
                    self.gen_enum(&mut out);
                    self.feature("namespace-enum");
                }
                if self.rng.chance(1, 2) {
                    for _ in 0..1 + self.rng.below(2) {
                        self.gen_global(&mut out);
                    }
                    self.feature("namespace-global");
                }
                if self.rng.chance(1, 3) {
                    let inner = self.ident(IdKind::Namespace);
                    out.push_str(&format!("namespace {}\n{{\n", ph(inner)));
                    let inner_prefix = format!("{}::", ph(inner));
                    let f0 = self.funcs.len();
                    let g0 = self.globals.len();
                    let i0 = self.idents.len();
                    if self.rng.chance(1, 2) {
                        self.gen_global(&mut out);
                    }
                    self.gen_function(&mut out, false, None, "", 1);
                    out.push_str("}\n\n");
                    for f in self.funcs[f0..].iter_mut() {
                        f.prefix = inner_prefix.clone();
                    }
                    for g in self.globals[g0..].iter_mut() {
                        g.prefix = inner_prefix.clone();
                    }
                    for i in i0..self.idents.len() {
                        if matches!(self.idents[i].kind, IdKind::Global | IdKind::Function) {
                            self.ns_marks.push((i, inner));
                        }
                    }
                    self.feature("nested-namespace");
                }
                self.gen_function(&mut out, false, None, "", 1);
                out.push_str("}\n\n");
                for f in self.funcs[funcs_before..].iter_mut() {
                    f.prefix = format!("{}{}", prefix, f.prefix);
                }
                for g in self.globals[globals_before..].iter_mut() {
                    g.prefix = format!("{}{}", prefix, g.prefix);
                }
                for e in self.enums[enums_before..].iter_mut() {
                    e.prefix = format!("{}{}", prefix, e.prefix);
                }
                for i in idents_before..self.idents.len() {
                    if matches!(self.idents[i].kind, IdKind::Global | IdKind::Function) && !self.ns_marks.iter().any(|(j, _)| *j == i) {
                        self.ns_marks.push((i, ns));
                    }
                }
                self.feature("namespace");
                continue;
            }
            let entry = i >= nfuncs / 2;
            let id = self.gen_function(&mut out, entry, None, "", 0);
            entries.push(id);
        }
        let mut ns_of = vec![None; self.idents.len()];
        for (i, ns) in &self.ns_marks {
            ns_of[*i] = Some(*ns);
        }
        Program {
            template: out,
            idents: self.idents,
            entries,
            features: self.features,
            multi: self.multi,
            ns_of,
        }
    }
}

fn is_primary(e: &str) -> bool {
    // identifier / literal / call / member chain / parenthesised: no top level operator characters outside brackets
    let mut depth = 0i32;
    let mut prev = ' ';
    for c in e.chars() {
        match c {
            '(' | '[' => depth += 1,
            ')' | ']' => depth -= 1,
            ' ' | '?' | '+' | '*' | '/' | '%' | '&' | '|' | '^' | '<' | '>' | '=' | '!' | '~' | ',' if depth == 0 => return false,
            '-' if depth == 0 && !(prev == 'e' || prev == 'E') => return false,
            _ => {}
        }
        prev = c;
    }
    // casts like (float)x start with '(' but are not primary
    !e.starts_with('(') || e.ends_with(')') && matching_outer_parens(e)
}

fn matching_outer_parens(e: &str) -> bool {
    let mut depth = 0;
    for (i, c) in e.char_indices() {
        match c {
            '(' => depth += 1,
            ')' => {
                depth -= 1;
                if depth == 0 && i + 1 != e.len() {
                    return false;
                }
            }
            _ => {}
        }
    }
    true
}

pub fn generate(rng: &mut Rng, cfg: Config) -> Program {
    Gen::new(rng, cfg).program()
}
