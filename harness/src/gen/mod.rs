pub mod soup;
