pub mod prog;
pub mod soup;
pub mod decl;
pub mod c14_layout;
pub mod c05_res;
pub mod c18_gen;
