pub mod prog;
pub mod soup;
