pub mod prog;
pub mod soup;
pub mod decl;
