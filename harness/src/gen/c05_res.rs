//! Generator for C05: programs made of resource declarations (every object kind, cbuffers, static
//! samplers, bindless arrays, bind-group attributes, explicit registers/spaces, namespaces), helper
//! functions that use random subsets of the resources and call each other (plain, default
//! parameters, overloads by arity, namespaces, struct methods, templates, resource parameters,
//! parameters/locals shadowing a resource name), and 1-4 pipelines whose entry points use the
//! resources directly or only through call chains. User identifiers are drawn from names that are
//! reserved in HLSL or MSL so that the exporters have to rename them.

use crate::rng::Rng;

pub struct ResProgram {
    pub text: String,
    pub pipelines: Vec<String>,
    pub features: Vec<String>,
    pub resources: usize,
}

/// Object kinds with a statement that really uses an object of that kind (`@` = the object)
const KINDS: &[(&str, &str)] = &[
    ("Texture2D", "@.Load(int3(0, 0, 0));"),
    ("Texture2D<float4>", "@.Load(int3(0, 0, 0));"),
    ("Texture2D<uint>", "@;"),
    ("Texture2DArray", "@;"),
    ("Texture2DArray<float2>", "@;"),
    ("RWTexture2D<float4>", "@;"),
    ("RWTexture2D<float>", "@;"),
    ("RWTexture2DArray<float4>", "@;"),
    ("TextureCube", "@;"),
    ("TextureCubeArray<float4>", "@;"),
    ("Texture3D", "@;"),
    ("RWTexture3D<float4>", "@;"),
    ("Buffer<float4>", "@;"),
    ("Buffer<uint>", "@;"),
    ("RWBuffer<float4>", "@;"),
    ("RWBuffer<uint>", "@;"),
    ("ByteAddressBuffer", "@.Load(0);"),
    ("RWByteAddressBuffer", "@.Store(0, 1u);"),
    ("BufferAddress", "@.Load<uint>(0);"),
    ("RWBufferAddress", "@.Store(0, 1u);"),
    ("StructuredBuffer<Elem>", "@.Load(0);"),
    ("RWStructuredBuffer<Elem>", "@;"),
    ("StructuredBuffer<float4>", "@;"),
    ("RWStructuredBuffer<uint>", "@[1] = 2u;"),
    ("ConstantBuffer<Elem>", "@.a;"),
    ("SamplerState", "@;"),
    ("SamplerComparisonState", "@;"),
    ("RaytracingAccelerationStructure", "@;"),
];

/// Names rssl accepts as identifiers although one of the target languages reserves them (or the
/// exporters use them for generated symbols)
const RESOURCE_NAMES: &[&str] = &[
    "float16_t", "sample", "kernel", "main", "texture", "sampler", "constant", "vertex", "fragment", "metal", "helper", "vector", "matrix",
    "ArgumentBuffer0", "ArgumentBuffer1", "ComputeShaderEntry", "VertexOutput", "PixelOutput", "int64_t", "device", "thread", "threadgroup",
    "as_type", "o_mesh", "precise", "string", "address", "size", "array", "set0", "Pipeline", "thread_index_in_simdgroup", "access",
];
const ENTRY_NAMES: &[&str] = &[
    "float16_t", "sample", "kernel", "main", "texture", "sampler", "constant", "vertex", "fragment", "metal", "helper", "vector", "matrix", "half",
    "int64_t", "uint64_t", "ArgumentBuffer0", "ComputeShaderEntry", "PixelShaderEntry", "VertexShaderEntry", "VertexOutput", "device", "as_type",
];
/// Helper function names: intrinsic names may be overloaded by user functions
const HELPER_NAMES: &[&str] = &["select", "min", "lerp", "dot", "saturate", "kernel", "main", "fragment", "vector", "metal", "float16_t", "sample", "and", "or"];

fn register_letter(kind: &str) -> char {
    if kind.starts_with("RW") {
        'u'
    } else if kind.starts_with("Sampler") {
        's'
    } else if kind.starts_with("ConstantBuffer") || kind == "cbuffer" {
        'b'
    } else {
        't'
    }
}

#[derive(Clone)]
struct Res {
    name: String,
    ns: Option<String>,
    kind: &'static str,
    use_form: &'static str,
    array: Option<u32>,
    /// cbuffer: name of a member
    member: Option<String>,
}

impl Res {
    fn qual(&self) -> String {
        match &self.ns {
            Some(ns) => format!("{}::{}", ns, self.name),
            None => self.name.clone(),
        }
    }
}

struct Names {
    used: Vec<String>,
}

impl Names {
    fn take(&mut self, rng: &mut Rng, pool: &[&str], reserved_chance: (u32, u32), fallback: String) -> (String, bool) {
        if rng.chance(reserved_chance.0, reserved_chance.1) {
            for _ in 0..4 {
                let n = *rng.pick(pool);
                if !self.used.iter().any(|u| u == n) {
                    self.used.push(n.to_string());
                    return (n.to_string(), true);
                }
            }
        }
        self.used.push(fallback.clone());
        (fallback, false)
    }
}

struct Ctx<'a> {
    rng: &'a mut Rng,
    locals: u32,
}

/// An expression of type uint that reads the resource (`@` stands for its name), for the kinds that have an obvious one
fn index_expression(kind: &str) -> Option<&'static str> {
    match kind {
        "ByteAddressBuffer" | "RWByteAddressBuffer" => Some("@.Load(0)"),
        "BufferAddress" | "RWBufferAddress" => Some("@.Load<uint>(0)"),
        "Buffer<uint>" | "RWBuffer<uint>" => Some("@.Load(0)"),
        "StructuredBuffer<Elem>" => Some("@.Load(0).b"),
        "RWStructuredBuffer<uint>" => Some("@[1]"),
        "ConstantBuffer<Elem>" => Some("@.b"),
        "cbuffer" => Some("(uint)@.x"),
        _ => None,
    }
}

fn use_statement(cx: &mut Ctx, r: &Res) -> String {
    let q = r.qual();
    // one use in five reads the resource only inside the index of a subscript of a local array
    if r.array.is_none() && cx.rng.chance(1, 5) {
        if let Some(form) = index_expression(r.kind) {
            let name = match (&r.member, &r.ns) {
                (Some(m), Some(ns)) => format!("{}::{}", ns, m),
                (Some(m), None) => m.clone(),
                (None, _) => q.clone(),
            };
            cx.locals += 1;
            return format!("    uint ix{}[4] = {{ 0u, 1u, 2u, 3u }};\n    ix{}[({}) & 3u];\n", cx.locals, cx.locals, form.replace('@', &name));
        }
    }
    let core = if let Some(m) = &r.member {
        // cbuffer members are visible in the enclosing namespace
        let qm = match &r.ns {
            Some(ns) => format!("{}::{}", ns, m),
            None => m.clone(),
        };
        if cx.rng.chance(1, 2) {
            format!("{};", qm)
        } else {
            cx.locals += 1;
            format!("float4 cv{} = {};", cx.locals, qm)
        }
    } else if let Some(len) = r.array {
        format!("{}[{}];", q, cx.rng.below(len.min(4) as usize))
    } else if cx.rng.chance(1, 2) {
        r.use_form.replace('@', &q)
    } else {
        format!("{};", q)
    };
    match cx.rng.below(8) {
        0 => format!("    if (s_flag != 0u)\n    {{\n        {}\n    }}\n", core),
        1 => {
            cx.locals += 1;
            format!("    for (uint it{} = 0u; it{} < 2u; ++it{})\n    {{\n        {}\n    }}\n", cx.locals, cx.locals, cx.locals, core)
        }
        2 => format!("    {{\n        {}\n    }}\n", core),
        _ => format!("    {}\n", core),
    }
}

#[derive(Clone)]
enum Call {
    /// `name(args);`
    Simple(String),
    /// `Struct v; v.x = 0u; v.method();`
    Method(String, String),
    /// `name(<resource>);`
    Sink(String, usize),
}

fn call_statement(cx: &mut Ctx, c: &Call, resources: &[Res]) -> String {
    match c {
        Call::Simple(s) => format!("    {};\n", s),
        Call::Method(st, m) => {
            cx.locals += 1;
            format!("    {} sv{};\n    sv{}.x = 0u;\n    sv{}.{}();\n", st, cx.locals, cx.locals, cx.locals, m)
        }
        Call::Sink(f, r) => format!("    {}({});\n", f, resources[*r].qual()),
    }
}

fn body(cx: &mut Ctx, resources: &[Res], calls: &[Vec<Call>], res_chance: (u32, u32), call_chance: (u32, u32), exclude: Option<usize>) -> String {
    let mut parts: Vec<String> = Vec::new();
    for (i, r) in resources.iter().enumerate() {
        if Some(i) != exclude && cx.rng.chance(res_chance.0, res_chance.1) {
            parts.push(use_statement(cx, r));
        }
    }
    for variants in calls {
        if cx.rng.chance(call_chance.0, call_chance.1) {
            let c = cx.rng.pick(variants).clone();
            parts.push(call_statement(cx, &c, resources));
        }
    }
    cx.rng.shuffle(&mut parts);
    parts.concat()
}

pub fn generate(rng: &mut Rng) -> ResProgram {
    let mut text = String::new();
    let mut features: Vec<String> = Vec::new();
    let mut names = Names { used: Vec::new() };
    text.push_str("struct Elem\n{\n    float4 a;\n    uint b;\n};\n\n");

    // ---- resources -----------------------------------------------------------------------
    let n = match rng.below(10) {
        0 => 0,
        1 => 1 + rng.below(2),
        _ => 1 + rng.below(12),
    };
    let mut resources: Vec<Res> = Vec::new();
    let mut used_registers: Vec<(char, u32, u32)> = Vec::new();
    let max_group = if rng.chance(1, 3) { 1 } else { 3 };
    for i in 0..n {
        let (kind, use_form) = if rng.chance(1, 14) { ("SamplerState", "@;") } else { *rng.pick(KINDS) };
        let (name, reserved) = names.take(rng, RESOURCE_NAMES, (1, 4), format!("g_res{}", i));
        if reserved {
            features.push("reserved-resource-name".into());
        }
        let ns = if rng.chance(1, 8) { Some(format!("Ns{}", rng.below(2))) } else { None };
        let mut decl = String::new();
        let group = if rng.chance(1, 3) { Some(rng.below(max_group + 1) as u32) } else { None };
        let address = kind.contains("Address") && !kind.contains("Byte");
        let array = if rng.chance(1, 5) && !kind.starts_with("ConstantBuffer") && !address && !kind.starts_with("Raytracing") { Some(1 + rng.below(4) as u32) } else { None };
        let bindless = (array.is_some() && rng.chance(1, 3)) || (array.is_none() && !address && !kind.starts_with("ConstantBuffer") && rng.chance(1, 25));
        let array = if bindless && array.is_some() { Some(*rng.pick(&[16u32, 1024])) } else { array };
        let style = rng.below(3);
        if let (Some(g), 0) = (group, style) {
            decl.push_str(&format!("[[rssl::bind_group({})]]\n", g));
            features.push("bind_group-attribute".into());
        }
        if bindless {
            decl.push_str("[[rssl::bindless]]\n");
            features.push(if array.is_some() { "bindless-array" } else { "bindless-single" }.into());
        }
        // the type, or the whole array type, named by a typedef (the front end refuses register() on an array type that comes from a typedef)
        let has_register = (group.is_some() && style == 1) || style == 2;
        let via_typedef = rng.chance(1, 6) && !(array.is_some() && has_register);
        if via_typedef {
            let dims = match array {
                Some(a) => format!("[{}]", a),
                None => String::new(),
            };
            decl = format!("typedef {} TD_res{}{};\n{}", kind, i, dims, decl);
            features.push(if array.is_some() { "resource-array-typedef" } else { "resource-typedef" }.into());
        }
        if let (Some(g), 0, true) = (group, style, rng.chance(1, 4)) {
            // a language binding index next to the explicit group, on either side of it
            if rng.chance(1, 2) {
                decl.push_str(&format!("[[vk::binding({})]]\n", 20 + i));
            } else {
                decl = decl.replace(&format!("[[rssl::bind_group({})]]\n", g), &format!("[[vk::binding({})]]\n[[rssl::bind_group({})]]\n", 20 + i, g));
            }
            features.push("bind_group-and-vk-binding".into());
        }
        if rng.chance(1, 3) {
            decl.push_str("const ");
        }
        if via_typedef {
            decl.push_str(&format!("TD_res{}", i));
        } else {
            decl.push_str(kind);
        }
        decl.push(' ');
        decl.push_str(&name);
        if let Some(a) = array {
            if !via_typedef {
                decl.push_str(&format!("[{}]", a));
            }
            features.push("resource-array".into());
        }
        match (group, style) {
            (Some(g), 1) => {
                decl.push_str(&format!(" : register(space{})", g));
                features.push("register-space".into());
            }
            (g, 2) => {
                let letter = register_letter(kind);
                let space = g.unwrap_or(0);
                let mut slot = rng.below(8) as u32;
                while used_registers.contains(&(letter, slot, space)) {
                    slot += 1;
                }
                used_registers.push((letter, slot, space));
                if g.is_some() {
                    decl.push_str(&format!(" : register({}{}, space{})", letter, slot, space));
                } else {
                    decl.push_str(&format!(" : register({}{})", letter, slot));
                }
                features.push("register-slot".into());
            }
            _ => {}
        }
        if kind == "SamplerState" && array.is_none() && !bindless && rng.chance(1, 2) {
            decl.push_str(" = StaticSampler\n{\n    Filter = MIN_MAG_MIP_LINEAR;\n    AddressU = Clamp;\n    AddressV = Clamp;\n}");
            features.push("static-sampler".into());
        }
        decl.push_str(";\n");
        match &ns {
            Some(ns) => {
                text.push_str(&format!("namespace {}\n{{\n{}}}\n", ns, decl));
                features.push("resource-in-namespace".into());
            }
            None => text.push_str(&decl),
        }
        features.push(format!("kind:{}", kind.split('<').next().unwrap_or(kind)));
        resources.push(Res {
            name,
            ns,
            kind,
            use_form,
            array,
            member: None,
        });
    }
    // ---- cbuffers ------------------------------------------------------------------------
    let ncb = rng.below(3);
    for i in 0..ncb {
        let (name, reserved) = names.take(rng, RESOURCE_NAMES, (1, 6), format!("Constants{}", i));
        if reserved {
            features.push("reserved-cbuffer-name".into());
        }
        let space = if rng.chance(1, 3) { format!(" : register(b{}, space{})", 4 + i, rng.below(max_group + 1)) } else { String::new() };
        text.push_str(&format!("cbuffer {}{}\n{{\n    float4 cb{}_a;\n    uint cb{}_b;\n    float2 cb{}_c[2];\n}}\n\n", name, space, i, i, i));
        resources.push(Res {
            name,
            ns: None,
            kind: "cbuffer",
            use_form: "",
            array: None,
            member: Some(format!("cb{}_a", i)),
        });
        features.push("cbuffer".into());
    }
    // ---- plain globals -------------------------------------------------------------------
    text.push_str("static uint s_flag = 0u;\nstatic const uint GROUP_X = 4;\n");
    if rng.chance(1, 2) {
        text.push_str("groupshared float lds_data[16];\nstatic const float k_scale = 0.5f;\n");
    }
    if rng.chance(1, 6) {
        // never used by a function: an extern global that is not a resource has no binding
        text.push_str("uint g_plain_constant;\n");
        features.push("plain-extern-global".into());
    }
    text.push('\n');

    // ---- helper functions ----------------------------------------------------------------
    let mut cx = Ctx { rng, locals: 0 };
    let nhelpers = cx.rng.below(6);
    // calls[k] = the ways helper k can be called
    let mut calls: Vec<Vec<Call>> = Vec::new();
    let res_chance = if resources.len() <= 3 { (1, 2) } else { (1, 4) };
    for h in 0..nhelpers {
        let (name, reserved) = names.take(cx.rng, HELPER_NAMES, (1, 5), format!("hf{}", h));
        if reserved {
            features.push("reserved-helper-name".into());
        }
        let kind = cx.rng.below(10);
        match kind {
            0 => {
                let b = body(&mut cx, &resources, &calls, res_chance, (1, 3), None);
                text.push_str(&format!("void {}(uint a = 1u)\n{{\n{}}}\n\n", name, b));
                calls.push(vec![Call::Simple(format!("{}()", name)), Call::Simple(format!("{}(3u)", name))]);
                features.push("helper:default-parameter".into());
            }
            1 => {
                let b0 = body(&mut cx, &resources, &calls, res_chance, (1, 3), None);
                let b1 = body(&mut cx, &resources, &calls, res_chance, (1, 3), None);
                text.push_str(&format!("void {}()\n{{\n{}}}\n\nvoid {}(uint a)\n{{\n{}}}\n\n", name, b0, name, b1));
                // each call picks one overload; two entries so that both are exercised
                calls.push(vec![Call::Simple(format!("{}()", name)), Call::Simple(format!("{}(1u)", name))]);
                features.push("helper:overloads".into());
            }
            2 => {
                let ns = format!("Fn{}", cx.rng.below(2));
                let b = body(&mut cx, &resources, &calls, res_chance, (1, 3), None);
                text.push_str(&format!("namespace {}\n{{\nvoid {}()\n{{\n{}}}\n}}\n\n", ns, name, b));
                calls.push(vec![Call::Simple(format!("{}::{}()", ns, name))]);
                features.push("helper:namespace".into());
            }
            3 => {
                let st = format!("Obj{}", h);
                let b = body(&mut cx, &resources, &calls, res_chance, (1, 3), None);
                let b2 = body(&mut cx, &resources, &calls, res_chance, (1, 4), None);
                text.push_str(&format!("struct {}\n{{\n    uint x;\n    void inner()\n    {{\n{}    }}\n    void {}()\n    {{\n        inner();\n{}    }}\n}};\n\n", st, b2, name, b));
                calls.push(vec![Call::Method(st, name.clone())]);
                features.push("helper:struct-method".into());
            }
            4 => {
                let b = body(&mut cx, &resources, &calls, res_chance, (1, 3), None);
                text.push_str(&format!("template<typename T>\nvoid {}(T v)\n{{\n{}}}\n\n", name, b));
                calls.push(vec![Call::Simple(format!("{}(1u)", name)), Call::Simple(format!("{}<float>(1.0f)", name))]);
                features.push("helper:template".into());
            }
            5 => {
                // resource parameter: the use is in the caller
                let candidates: Vec<usize> = resources.iter().enumerate().filter(|(_, r)| r.array.is_none() && r.member.is_none() && !r.kind.starts_with("ConstantBuffer")).map(|(i, _)| i).collect();
                if candidates.is_empty() {
                    let b = body(&mut cx, &resources, &calls, res_chance, (1, 3), None);
                    text.push_str(&format!("void {}()\n{{\n{}}}\n\n", name, b));
                    calls.push(vec![Call::Simple(format!("{}()", name))]);
                } else {
                    let r = *cx.rng.pick(&candidates);
                    let b = body(&mut cx, &resources, &calls, (1, 6), (1, 4), Some(r));
                    text.push_str(&format!("void {}({} p)\n{{\n    p;\n{}}}\n\n", name, resources[r].kind, b));
                    calls.push(vec![Call::Sink(name.clone(), r)]);
                    features.push("helper:resource-parameter".into());
                }
            }
            6 => {
                // a parameter or local named like a resource: not a use of the resource
                let candidates: Vec<usize> = resources.iter().enumerate().filter(|(_, r)| r.ns.is_none() && r.member.is_none()).map(|(i, _)| i).collect();
                if candidates.is_empty() {
                    let b = body(&mut cx, &resources, &calls, res_chance, (1, 3), None);
                    text.push_str(&format!("void {}()\n{{\n{}}}\n\n", name, b));
                    calls.push(vec![Call::Simple(format!("{}()", name))]);
                } else {
                    let r = *cx.rng.pick(&candidates);
                    let b = body(&mut cx, &resources, &calls, (1, 6), (1, 4), Some(r));
                    if cx.rng.chance(1, 2) {
                        text.push_str(&format!("void {}(uint {})\n{{\n    {};\n{}}}\n\n", name, resources[r].name, resources[r].name, b));
                        calls.push(vec![Call::Simple(format!("{}(1u)", name))]);
                        features.push("helper:parameter-shadows-resource".into());
                    } else {
                        text.push_str(&format!("void {}()\n{{\n    uint {} = 1u;\n    {};\n{}}}\n\n", name, resources[r].name, resources[r].name, b));
                        calls.push(vec![Call::Simple(format!("{}()", name))]);
                        features.push("helper:local-shadows-resource".into());
                    }
                }
            }
            _ => {
                let b = body(&mut cx, &resources, &calls, res_chance, (1, 3), None);
                text.push_str(&format!("void {}()\n{{\n{}}}\n\n", name, b));
                calls.push(vec![Call::Simple(format!("{}()", name))]);
                features.push("helper:plain".into());
            }
        }
    }

    // ---- entry points and pipelines ------------------------------------------------------
    let np = 1 + cx.rng.below(4);
    let mut pipelines = Vec::new();
    let mut compute_entries: Vec<String> = Vec::new();
    for p in 0..np {
        let pname = format!("Pipe{}", p);
        let group = if cx.rng.chance(1, 3) { format!("    DefaultBindGroup = {};\n", cx.rng.below(max_group + 1)) } else { String::new() };
        let compute = cx.rng.chance(1, 2);
        let direct = match cx.rng.below(3) {
            0 => (0, 1), // only through helpers
            _ => res_chance,
        };
        if compute {
            let entry = if !compute_entries.is_empty() && cx.rng.chance(1, 6) {
                features.push("entry-shared-by-pipelines".into());
                cx.rng.pick(&compute_entries).clone()
            } else {
                let (entry, reserved) = names.take(cx.rng, ENTRY_NAMES, (1, 3), format!("CSMain{}", p));
                if reserved {
                    features.push("reserved-entry-name".into());
                }
                let threads = *cx.rng.pick(&["1, 1, 1", "8, 8, 1", "64, 1, 1", "4, 4, 4", "GROUP_X, 2 * 2, 1", "GROUP_X * 2, 1, GROUP_X", "32, 2, 1"]);
                if threads.contains("GROUP") {
                    features.push("numthreads-expression".into());
                }
                let b = body(&mut cx, &resources, &calls, direct, (1, 2), None);
                // other attributes may stand before or after numthreads
                let (before, after) = match cx.rng.below(4) {
                    0 => ("[WaveSize(32)]\n", ""),
                    1 => ("", "[WaveSize(32)]\n"),
                    _ => ("", ""),
                };
                if !before.is_empty() || !after.is_empty() {
                    features.push("entry-with-several-attributes".into());
                }
                if cx.rng.chance(1, 5) {
                    // entry points are found by their name in whatever namespace they are declared
                    text.push_str(&format!("namespace Stage{}\n{{\n{}[numthreads({})]\n{}void {}(uint3 dtid : SV_DispatchThreadID)\n{{\n{}}}\n}}\n\n", p, before, threads, after, entry, b));
                    features.push("entry-point-in-namespace".into());
                } else {
                    text.push_str(&format!("{}[numthreads({})]\n{}void {}(uint3 dtid : SV_DispatchThreadID)\n{{\n{}}}\n\n", before, threads, after, entry, b));
                }
                compute_entries.push(entry.clone());
                entry
            };
            text.push_str(&format!("Pipeline {}\n{{\n    ComputeShader = {};\n{}}}\n\n", pname, entry, group));
            features.push("compute-pipeline".into());
        } else {
            let (vs, r1) = names.take(cx.rng, ENTRY_NAMES, (1, 4), format!("VSMain{}", p));
            let (ps, r2) = names.take(cx.rng, ENTRY_NAMES, (1, 4), format!("PSMain{}", p));
            if r1 || r2 {
                features.push("reserved-entry-name".into());
            }
            let bv = body(&mut cx, &resources, &calls, direct, (1, 3), None);
            let bp = body(&mut cx, &resources, &calls, direct, (1, 3), None);
            text.push_str(&format!(
                "void {}(uint vid : SV_VertexID, out float4 o_pos : SV_Position, out float2 o_uv : TEXCOORD)\n{{\n    o_pos = float4(0, 0, 0, 1);\n    o_uv = float2(0.5f, 0.5f);\n{}}}\n\n",
                vs, bv
            ));
            text.push_str(&format!("float4 {}(float2 i_uv : TEXCOORD) : SV_Target0\n{{\n{}    return float4(i_uv, 0, 1);\n}}\n\n", ps, bp));
            // the stages may be written in any order
            if cx.rng.chance(1, 2) {
                text.push_str(&format!("Pipeline {}\n{{\n    PixelShader = {};\n{}    VertexShader = {};\n}}\n\n", pname, ps, group, vs));
                features.push("pixel-stage-listed-first".into());
            } else {
                text.push_str(&format!("Pipeline {}\n{{\n    VertexShader = {};\n    PixelShader = {};\n{}}}\n\n", pname, vs, ps, group));
            }
            features.push("graphics-pipeline".into());
        }
        pipelines.push(pname);
    }
    // a function no pipeline reaches
    if cx.rng.chance(1, 2) {
        let b = body(&mut cx, &resources, &calls, (1, 2), (1, 3), None);
        text.push_str(&format!("void never_called()\n{{\n{}}}\n", b));
        features.push("unreached-function".into());
    }
    features.sort();
    features.dedup();
    ResProgram {
        text,
        pipelines,
        features,
        resources: resources.len(),
    }
}
