//! Workload generator of C18: programs with resources of every object kind that are really used
//! (loads, stores, samples, buffer-address loads/stores, addresses passed through parameters and
//! locals), cbuffers, static samplers, bind groups, bindless arrays, helper functions, expression
//! code with implicit and explicit conversions, and 0-4 pipelines of every stage combination
//! (compute, vertex+pixel, mesh+pixel with per-primitive attributes, task+mesh) with graphics
//! pipeline state. A share of the programs is made invalid on purpose (type error, parse error,
//! preprocessor error, unknown entry point, bad pipeline property, layout-inconsistent struct).
//!
//! Nothing in here mentions the RSSL_TARGET_* macros.

use crate::rng::Rng;

pub struct Program {
    pub text: String,
    pub pipelines: Vec<String>,
    pub features: Vec<String>,
    /// byte length of the leading part (type and resource declarations) that can be moved into an included file
    pub header_len: usize,
    /// what was broken on purpose (None = meant to be accepted by the front end)
    pub injected: Option<&'static str>,
}

struct Res {
    name: String,
    kind: &'static str,
    /// Some(n) = array of n resources
    array: Option<usize>,
}

pub const KINDS: &[&str] = &[
    "Texture2D",
    "Texture2D<float4>",
    "Texture2D<uint>",
    "Texture2DArray",
    "Texture2DArray<float2>",
    "RWTexture2D<float4>",
    "RWTexture2D<float>",
    "RWTexture2DArray<float4>",
    "TextureCube",
    "TextureCubeArray<float4>",
    "Texture3D",
    "RWTexture3D<float4>",
    "Buffer<float4>",
    "Buffer<uint>",
    "RWBuffer<float4>",
    "RWBuffer<uint>",
    "ByteAddressBuffer",
    "RWByteAddressBuffer",
    "BufferAddress",
    "RWBufferAddress",
    "StructuredBuffer<Elem>",
    "RWStructuredBuffer<Elem>",
    "StructuredBuffer<float4>",
    "RWStructuredBuffer<uint>",
    "ConstantBuffer<Elem>",
    "SamplerState",
    "SamplerComparisonState",
    "RaytracingAccelerationStructure",
];

/// Statements that use a resource; `@` is the resource (already subscripted when it is an array), `$` a sampler
fn uses_of(kind: &str) -> &'static [&'static str] {
    match kind {
        "Texture2D" | "Texture2D<float4>" => &[
            "acc += @.Load(int3(0, 0, 0));",
            "acc += @[uint2(1, 1)];",
            "@.GetDimensions(ui, ui);",
            "acc += @.Sample($, float2(0.5f, 0.25f));",
            "acc += @.SampleLevel($, acc.xy, 1);",
            "@;",
        ],
        "Texture2D<uint>" => &["ui += @.Load(int3(0, 0, 0));", "ui += @[uint2(ui, 1)];", "@;"],
        "Texture2DArray" => &["acc += @.Load(int4(0, 0, 0, 0));", "acc += @.Sample($, float3(0.5f, 0.5f, 0.0f));", "@;"],
        "Texture2DArray<float2>" => &["acc.xy += @.Load(int4(0, 0, 0, 0));", "@;"],
        "RWTexture2D<float4>" => &["@[uint2(1, 1)] = acc;", "acc += @.Load(int2(0, 0));", "acc += @[uint2(ui, 2)];", "@;"],
        "RWTexture2D<float>" => &["@[uint2(0, 0)] = acc.x;", "acc.y += @[uint2(1, 0)];", "@;"],
        "RWTexture2DArray<float4>" => &["@[uint3(0, 0, 0)] = acc;", "@;"],
        "TextureCube" => &["acc += @.Sample($, float3(0.0f, 0.0f, 1.0f));", "@;"],
        "TextureCubeArray<float4>" => &["acc += @.Sample($, float4(0.0f, 0.0f, 1.0f, 0.0f));", "@;"],
        "Texture3D" => &["acc += @.Load(int4(0, 0, 0, 0));", "acc += @.Sample($, float3(0.5f, 0.5f, 0.5f));", "@;"],
        "RWTexture3D<float4>" => &["@[uint3(0, 0, 0)] = acc;", "acc += @[uint3(1, 1, 1)];", "@;"],
        "Buffer<float4>" => &["acc += @.Load(0);", "acc += @[1];", "@;"],
        "Buffer<uint>" => &["ui += @.Load(0);", "ui += @[ui];", "@;"],
        "RWBuffer<float4>" => &["@[2] = acc;", "acc += @[1];", "@;"],
        "RWBuffer<uint>" => &["@[2] = ui;", "ui += @.Load(1);", "@;"],
        "ByteAddressBuffer" => &["ui += @.Load(0);", "ui += @.Load2(4).y;", "ui += @.Load<Elem>(16).b;", "acc += @.Load<float4>(ui * 4u);", "@;"],
        "RWByteAddressBuffer" => &["@.Store(0, ui);", "@.InterlockedAdd(4, 7, ui);", "ui += @.Load(8);", "@.Store<float4>(16, acc);", "@;"],
        "BufferAddress" => &[
            "ui += @.Load<uint>(8);",
            "ui += @.Load<Elem>(ui * 4u).b;",
            "acc += @.Load<float4>(0);",
            "ui += read_address(@, 4u);",
            "{ BufferAddress local_address = @; ui += local_address.Load<uint>(12u); }",
            "ui += @.Load<uint>(@.Load<uint>(0));",
            "@;",
        ],
        "RWBufferAddress" => &[
            "@.Store<uint>(4, ui);",
            "@.Store(8, acc);",
            "ui += @.Load<uint>(0);",
            "write_address(@, ui, 7u);",
            "{ RWBufferAddress local_address = @; local_address.Store<uint>(16u, ui); }",
            "@;",
        ],
        "StructuredBuffer<Elem>" => &["acc += @[1].a;", "acc += @.Load(0).a;", "ui += @[ui].b;", "@;"],
        "RWStructuredBuffer<Elem>" => &["@[2].b = ui;", "@[1].a = acc;", "ui += @[0].b;", "@;"],
        "StructuredBuffer<float4>" => &["acc += @[3];", "@;"],
        "StructuredBuffer<Skewed>" => &["acc.xyz += @[1].direction;", "acc.w += @[ui].weight;"],
        "RWStructuredBuffer<uint>" => &["@[ui] = ui + 1u;", "ui += @[0];", "@;"],
        "ConstantBuffer<Elem>" => &["acc += @.a;", "ui += @.b;", "@;"],
        "SamplerState" | "SamplerComparisonState" | "RaytracingAccelerationStructure" => &["@;"],
        _ => &["@;"],
    }
}

fn register_letter(kind: &str) -> char {
    if kind.starts_with("RW") {
        'u'
    } else if kind.starts_with("Sampler") {
        's'
    } else if kind.starts_with("ConstantBuffer") {
        'b'
    } else {
        't'
    }
}

/// Expression statements over `acc` (float4), `ui` (uint) and `si` (int): conversions in both directions, shifts, ternaries
const EXPRESSION_STATEMENTS: &[&str] = &[
    "ui = (ui << 2) | (uint)acc.x;",
    "acc.y = ui * 0.5f;",
    "si = (int)ui - 3;",
    "acc.z += si;",
    "ui += si;",
    "si = si * 3 + (int)acc.w;",
    "acc = acc * 2.0f + float4(ui, si, 1, 0);",
    "ui = ui > 4u ? ui - 4u : ui + (uint)si;",
    "acc.x = (float)(ui & 0xffu) / 255.0f;",
    "si = -si;",
    "ui = ~ui ^ (uint)si;",
    "acc.w = min(acc.x, max(acc.y, 0.25f));",
    "acc.xy = float2(si, ui);",
    "if (si < (int)ui) { acc.x += 1.0f; } else { ui++; }",
    "for (uint it = 0u; it < 3u; ++it) { acc.x += it; }",
    "ui = asuint(acc.x) + (uint)(acc.y * 4.0f);",
    "acc.z = asfloat(ui) + (half)acc.x;",
    "si = (int)(ui % 7u) - si / 2;",
    "ui = uint(acc.x) + uint2(ui, ui).y;",
    "acc = lerp(acc, float4(1, 1, 1, 1), 0.5f);",
    "ui = (bool)si ? 1u : 0u;",
    "ui += (ui >> 3) + (si >> 1);",
];

pub struct Config {
    pub max_resources: usize,
    pub max_pipelines: usize,
    /// probability (in 1/100) that the program is broken on purpose
    pub reject_percent: u32,
}

impl Default for Config {
    fn default() -> Self {
        Config {
            max_resources: 9,
            max_pipelines: 4,
            reject_percent: 25,
        }
    }
}

fn body(rng: &mut Rng, resources: &[Res], cbuffers: usize, helpers: &[String], features: &mut Vec<String>, density: u32) -> String {
    let samplers: Vec<&Res> = resources.iter().filter(|r| r.kind == "SamplerState").collect();
    let mut out = String::new();
    let mut lines: Vec<String> = Vec::new();
    for r in resources {
        if !rng.chance(density, 4) {
            continue;
        }
        let uses = uses_of(r.kind);
        let n = 1 + rng.below(2);
        for _ in 0..n {
            let mut u = rng.pick(uses).to_string();
            if u.contains('$') {
                if samplers.is_empty() {
                    u = "@;".to_string();
                } else {
                    let s = rng.pick(&samplers);
                    let sname = match s.array {
                        Some(_) => format!("{}[0]", s.name),
                        None => s.name.clone(),
                    };
                    u = u.replace('$', &sname);
                    features.push("use:sample".into());
                }
            }
            let subject = match r.array {
                Some(n) => {
                    if rng.chance(3, 4) {
                        format!("{}[{}]", r.name, rng.below(n.min(4)))
                    } else {
                        format!("{}[ui % {}u]", r.name, n.min(4))
                    }
                }
                None => r.name.clone(),
            };
            let u = u.replace('@', &subject);
            if u.contains("_address") {
                features.push("use:buffer-address-through-function-or-local".into());
            }
            lines.push(u);
        }
    }
    for i in 0..cbuffers {
        if rng.chance(1, 2) {
            lines.push(format!("acc += cb{}_a;", i));
        }
        if rng.chance(1, 3) {
            lines.push(format!("ui += cb{}_b + (uint)cb{}_c[1].x;", i, i));
        }
    }
    for _ in 0..rng.below(5) {
        lines.push(rng.pick(EXPRESSION_STATEMENTS).to_string());
    }
    if !helpers.is_empty() && rng.chance(2, 3) {
        lines.push(format!("acc = {}(acc, ui);", rng.pick(helpers)));
    }
    rng.shuffle(&mut lines);
    for l in lines {
        out.push_str("    ");
        out.push_str(&l);
        out.push('\n');
    }
    out
}

const RT_FORMATS: &[&str] = &["R8G8B8A8_UNORM", "R16G16B16A16_FLOAT", "R32_UINT", "B8G8R8A8_SRGB"];
const BLEND_FACTORS: &[&str] = &["Zero", "One", "SrcColor", "OneMinusSrcAlpha", "DstAlpha", "SrcAlpha", "ConstantColor", "Src1Alpha"];
const BLEND_OPS: &[&str] = &["Add", "Subtrack", "RevSubtract", "Min", "Max"];

fn blend_state(rng: &mut Rng) -> String {
    let mut s = String::from("{\n");
    if rng.chance(2, 3) {
        s.push_str(&format!("        BlendEnabled = {};\n", if rng.chance(2, 3) { "true" } else { "false" }));
    }
    if rng.chance(1, 2) {
        s.push_str(&format!("        SrcBlend = \"{}\";\n", rng.pick(BLEND_FACTORS)));
    }
    if rng.chance(1, 2) {
        s.push_str(&format!("        DstBlend = \"{}\";\n", rng.pick(BLEND_FACTORS)));
    }
    if rng.chance(1, 3) {
        s.push_str(&format!("        BlendOp = \"{}\";\n", rng.pick(BLEND_OPS)));
    }
    if rng.chance(1, 3) {
        s.push_str(&format!("        SrcBlendAlpha = \"{}\";\n", rng.pick(BLEND_FACTORS)));
    }
    if rng.chance(1, 3) {
        s.push_str(&format!("        BlendOpAlpha = \"{}\";\n", rng.pick(BLEND_OPS)));
    }
    if rng.chance(1, 3) {
        s.push_str(&format!("        WriteMask = {};\n", rng.below(16)));
    }
    s.push_str("    }");
    s
}

fn graphics_state(rng: &mut Rng, features: &mut Vec<String>) -> String {
    let mut s = String::new();
    if rng.chance(1, 2) {
        s.push_str(&format!("    RenderTargetFormat0 = \"{}\";\n", rng.pick(RT_FORMATS)));
        if rng.chance(1, 3) {
            s.push_str(&format!("    RenderTargetFormat{} = \"{}\";\n", 1 + rng.below(3), rng.pick(RT_FORMATS)));
        }
        features.push("state:render-target-format".into());
    }
    if rng.chance(1, 3) {
        s.push_str("    DepthTargetFormat = \"D32_FLOAT\";\n");
        features.push("state:depth-format".into());
    }
    if rng.chance(1, 3) {
        s.push_str(&format!("    CullMode = \"{}\";\n", rng.pick(&["None", "Front", "Back"])));
        features.push("state:cull-mode".into());
    }
    if rng.chance(1, 3) {
        s.push_str(&format!("    WindingOrder = \"{}\";\n", rng.pick(&["CounterClockwise", "Clockwise"])));
        features.push("state:winding-order".into());
    }
    if rng.chance(1, 3) {
        s.push_str(&format!("    BlendState = {}\n", blend_state(rng)));
        features.push("state:blend".into());
    }
    if rng.chance(1, 4) {
        s.push_str(&format!("    BlendState{} = {}\n", rng.below(8), blend_state(rng)));
        features.push("state:blend-per-attachment".into());
    }
    s
}

/// The stages of a pipeline may be written in any order
fn push_stage_lines(rng: &mut Rng, props: &mut String, features: &mut Vec<String>, first: String, second: String) {
    if rng.chance(1, 3) {
        props.push_str(&second);
        props.push_str(&first);
        features.push("pipeline:stages-in-reverse-order".into());
    } else {
        props.push_str(&first);
        props.push_str(&second);
    }
}

pub fn generate(rng: &mut Rng, cfg: &Config) -> Program {
    let mut text = String::new();
    let mut features: Vec<String> = Vec::new();
    let inject: Option<&'static str> = if rng.chance(cfg.reject_percent, 100) {
        Some(*rng.pick(&[
            "type-error:unknown-identifier",
            "type-error:unknown-member",
            "type-error:struct-to-scalar",
            "type-error:bad-method",
            "parse-error:missing-brace",
            "parse-error:stray-paren",
            "parse-error:missing-semicolon",
            "preprocess-error:unterminated-if",
            "preprocess-error:missing-include",
            "pipeline-error:unknown-entry-point",
            "pipeline-error:unknown-property",
            "pipeline-error:duplicate-property",
            "pipeline-error:no-entry-point",
            "pipeline-error:state-on-compute",
            "pipeline-error:stage-combination",
            "pipeline-error:bad-cull-mode",
            "static-sampler-error:unknown-property",
        ]))
    } else {
        None
    };

    if inject == Some("preprocess-error:unterminated-if") {
        text.push_str("#if 1\n");
    }
    if rng.chance(1, 4) {
        text.push_str("#define SCALE_FACTOR 2\n#define ADD_ONE(x) ((x) + 1)\n\n");
        features.push("macros".into());
    }
    // 32 bytes under both packing rules, so that layout validation accepts it
    text.push_str("struct Elem\n{\n    float4 a;\n    uint b;\n    uint c;\n    uint2 d;\n};\n\n");
    if rng.chance(1, 3) {
        text.push_str("enum Mode\n{\n    ModeA,\n    ModeB = 4,\n};\n\n");
        features.push("enum".into());
    }
    let layout_struct = rng.chance(1, 6);
    if layout_struct {
        // float3 followed by float: 16 bytes under structured buffer packing, 32 under Metal rules
        text.push_str("struct Skewed\n{\n    float3 direction;\n    float weight;\n};\n\n");
        features.push("layout-inconsistent-struct".into());
    }

    // ---- resources -----------------------------------------------------------------------------------
    let n = rng.below(cfg.max_resources + 1);
    let mut resources: Vec<Res> = Vec::new();
    let mut used_registers: Vec<(char, u32, u32)> = Vec::new();
    let mut static_sampler_error_pending = inject == Some("static-sampler-error:unknown-property");
    let generated_spelling_at = if n > 0 && rng.chance(1, 6) { Some(rng.below(n)) } else { None };
    for i in 0..n {
        // a sampler early on makes the Sample() uses possible
        let kind: &'static str = if i == 0 && rng.chance(1, 2) { "SamplerState" } else { *rng.pick(KINDS) };
        // a source name spelled like the name the exporters generate for an overload of `pick` (declared with the helpers below)
        let name = if Some(i) == generated_spelling_at { format!("pick_{}", rng.below(2)) } else { format!("g_res{}", i) };
        let mut decl = String::new();
        let group = if rng.chance(1, 3) { Some(rng.below(4) as u32) } else { None };
        let can_array = !kind.starts_with("ConstantBuffer") && !kind.starts_with("Raytracing");
        let array = if rng.chance(1, 5) && can_array { Some(1 + rng.below(4)) } else { None };
        // (no bindless tables of buffer addresses)
        let bindless = array.is_some() && !kind.contains("Address") && rng.chance(1, 3);
        let make_static = kind == "SamplerState" && array.is_none() && (rng.chance(1, 2) || static_sampler_error_pending);
        // a static sampler must not name a register slot
        let style = if make_static { rng.below(2) } else { rng.below(3) };
        if let (Some(g), 0) = (group, style) {
            decl.push_str(&format!("[[rssl::bind_group({})]]\n", g));
            features.push("bind_group-attribute".into());
        }
        if bindless {
            decl.push_str("[[rssl::bindless]]\n");
            features.push("bindless".into());
        }
        let array = array.map(|a| if bindless { 1024 } else { a });
        // a share of the resources is declared through a typedef of the object type or of the whole array type
        let via_typedef = if make_static || !rng.chance(1, 5) { 0 } else if array.is_some() && rng.chance(1, 2) { 2 } else { 1 };
        let mut type_text = kind.to_string();
        let mut array_in_type = false;
        if via_typedef == 1 {
            decl = format!("typedef {} ResType{};\n{}", kind, i, decl);
            type_text = format!("ResType{}", i);
            features.push("resource-through-typedef".into());
        } else if via_typedef == 2 {
            decl = format!("typedef {} ResArray{}[{}];\n{}", kind, i, array.unwrap_or(1), decl);
            type_text = format!("ResArray{}", i);
            array_in_type = true;
            features.push("resource-through-array-typedef".into());
        }
        if rng.chance(1, 2) {
            decl.push_str("const ");
        }
        decl.push_str(&type_text);
        decl.push(' ');
        decl.push_str(&name);
        if let Some(a) = array {
            if !array_in_type {
                decl.push_str(&format!("[{}]", a));
            }
            features.push("resource-array".into());
        }
        match (group, style) {
            (Some(g), 1) => {
                decl.push_str(&format!(" : register(space{})", g));
                features.push("register-space".into());
            }
            (g, 2) => {
                let letter = register_letter(kind);
                let space = g.unwrap_or(0);
                let mut slot = rng.below(8) as u32;
                while used_registers.contains(&(letter, slot, space)) {
                    slot += 1;
                }
                used_registers.push((letter, slot, space));
                if g.is_some() {
                    decl.push_str(&format!(" : register({}{}, space{})", letter, slot, space));
                } else {
                    decl.push_str(&format!(" : register({}{})", letter, slot));
                }
                features.push("register-slot".into());
            }
            _ => {}
        }
        if make_static {
            decl.push_str(" = StaticSampler\n{\n");
            decl.push_str(&format!("    Filter = {};\n", rng.pick(&["MIN_MAG_MIP_LINEAR", "MIN_MAG_MIP_POINT"])));
            decl.push_str(&format!("    AddressU = {};\n", rng.pick(&["Clamp", "Wrap", "Border"])));
            if rng.chance(1, 2) {
                decl.push_str(&format!("    AddressV = {};\n", rng.pick(&["Clamp", "Wrap", "Border"])));
            }
            if rng.chance(1, 4) {
                decl.push_str("    MaxAnisotropy = 4;\n");
            }
            if rng.chance(1, 4) {
                decl.push_str("    MaxLOD = 8.0f;\n");
            }
            if static_sampler_error_pending {
                decl.push_str("    Sharpness = 3;\n");
                static_sampler_error_pending = false;
            }
            decl.push('}');
            features.push("static-sampler".into());
        }
        decl.push_str(";\n");
        text.push_str(&decl);
        features.push(format!("kind:{}", kind.split('<').next().unwrap_or(kind)));
        resources.push(Res { name, kind, array });
    }
    // a static (non-extern) global of a resource type, initialised from a bound resource: still an object typed global for the
    // binding pass and for every target's reflection
    if rng.chance(1, 6) {
        let candidates: Vec<usize> = (0..resources.len())
            .filter(|i| resources[*i].array.is_none() && (resources[*i].kind.starts_with("Texture2D") || resources[*i].kind.starts_with("Buffer<") || resources[*i].kind.starts_with("StructuredBuffer<")))
            .collect();
        if !candidates.is_empty() {
            let r = candidates[rng.below(candidates.len())];
            let (kind, src) = (resources[r].kind, resources[r].name.clone());
            let name = format!("s_alias{}", r);
            text.push_str(&format!("static {} {} = {};\n", kind, name, src));
            features.push("static-resource-alias".into());
            resources.push(Res { name, kind, array: None });
        }
    }
    if static_sampler_error_pending {
        text.push_str("SamplerState g_broken_sampler = StaticSampler\n{\n    Filter = MIN_MAG_MIP_LINEAR;\n    Sharpness = 3;\n};\n");
    }
    if layout_struct {
        text.push_str("StructuredBuffer<Skewed> g_skewed;\n");
        resources.push(Res {
            name: "g_skewed".into(),
            kind: "StructuredBuffer<Skewed>",
            array: None,
        });
    }
    text.push('\n');

    let header_len = text.len();

    // ---- cbuffers ------------------------------------------------------------------------------------
    let ncb = rng.below(3);
    for i in 0..ncb {
        let space = if rng.chance(1, 3) { format!(" : register(b{}, space{})", 4 + i, rng.below(3)) } else { String::new() };
        text.push_str(&format!("cbuffer Constants{}{}\n{{\n    float4 cb{}_a;\n    uint cb{}_b;\n    float2 cb{}_c[2];\n}}\n\n", i, space, i, i, i));
        features.push("cbuffer".into());
    }
    if rng.chance(1, 2) {
        text.push_str("static uint s_counter = 0u;\ngroupshared float lds_data[16];\nstatic const float k_scale = 0.5f;\n\n");
        features.push("static-and-groupshared".into());
    }
    if rng.chance(1, 4) {
        text.push_str("namespace Util\n{\n    float twice(float x) { return x * 2.0f; }\n    namespace Inner { static const int k = 3; }\n}\n\n");
        features.push("namespace".into());
    }

    // ---- buffer address helpers (an address travels through a parameter) ---------------------------------
    text.push_str("uint read_address(BufferAddress address, uint offset)\n{\n    return address.Load<uint>(offset + 4u);\n}\n\n");
    text.push_str("void write_address(RWBufferAddress address, uint offset, uint value)\n{\n    address.Store<uint>(offset, value + address.Load<uint>(offset));\n}\n\n");

    // ---- helper functions ----------------------------------------------------------------------------
    let nhelpers = rng.below(3);
    let mut helper_names: Vec<String> = Vec::new();
    for h in 0..nhelpers {
        let name = format!("helper{}", h);
        let b = body(rng, &resources, ncb, &helper_names, &mut features, 1);
        text.push_str(&format!("float4 {}(float4 acc_in, uint ui_in)\n{{\n    float4 acc = acc_in;\n    uint ui = ui_in;\n    int si = 1;\n{}    return acc + (float)ui;\n}}\n\n", name, b));
        helper_names.push(name);
    }
    if generated_spelling_at.is_some() {
        // an overload set: its members are exported under generated names pick_0 / pick_1, next to the resource of that spelling
        text.push_str("float4 pick(float4 acc_in, uint ui_in)\n{\n    return acc_in + (float)ui_in;\n}\n\nfloat4 pick(float4 acc_in, float f_in)\n{\n    return acc_in * f_in;\n}\n\n");
        text.push_str("float4 pick_both(float4 acc_in, uint ui_in)\n{\n    return pick(acc_in, ui_in) + pick(acc_in, 0.5f);\n}\n\n");
        helper_names.push("pick_both".into());
        features.push("overloads-next-to-generated-spelling".into());
    }
    match inject {
        Some("type-error:unknown-identifier") => text.push_str("void broken_function()\n{\n    int bad_value = g_undefined_symbol;\n}\n\n"),
        Some("type-error:unknown-member") => text.push_str("float broken_function(Elem e)\n{\n    return e.missing_member;\n}\n\n"),
        Some("type-error:struct-to-scalar") => text.push_str("float broken_function(Elem e)\n{\n    float f = e;\n    return f;\n}\n\n"),
        Some("type-error:bad-method") => text.push_str("void broken_function(ByteAddressBuffer b)\n{\n    b.Sample(0);\n}\n\n"),
        Some("parse-error:stray-paren") => text.push_str("void broken_function()\n{\n    int x = 1);\n}\n\n"),
        Some("parse-error:missing-semicolon") => text.push_str("void broken_function()\n{\n    int x = 1\n    int y = 2;\n}\n\n"),
        Some("preprocess-error:missing-include") => text.push_str("#include \"does_not_exist.h\"\n\n"),
        _ => {}
    }

    // ---- entry points and pipelines ------------------------------------------------------------------
    // family 0: compute and vertex+pixel pipelines only; family 1: exactly one mesh or task pipeline (the Metal backend rejects
    // files where a function with mesh intrinsics exists next to a non-mesh pipeline); family 2: any mix
    let family = rng.below(3);
    let np = if family == 1 { 1 } else { rng.below(cfg.max_pipelines + 1) };
    let mut pipelines: Vec<String> = Vec::new();
    let pipeline_fault_at = if np > 0 { rng.below(np) } else { 0 };
    for p in 0..np {
        let pname = format!("Pipe{}", p);
        let mut props = String::new();
        let fault = if p == pipeline_fault_at { inject } else { None };
        let kind = match family {
            0 => rng.below(4),
            1 => 4 + rng.below(2),
            _ => rng.below(6),
        };
        let b1 = body(rng, &resources, ncb, &helper_names, &mut features, 2);
        let b2 = body(rng, &resources, ncb, &helper_names, &mut features, 2);
        let prologue = "    float4 acc = float4(0, 0, 0, 1);\n    int si = 2;\n";
        match kind {
            0 | 1 => {
                let threads = *rng.pick(&["1, 1, 1", "8, 8, 1", "64, 1, 1", "4, 4, 4", "16 * 2, 2, 1"]);
                text.push_str(&format!("[numthreads({})]\nvoid CSMain{}(uint3 dtid : SV_DispatchThreadID)\n{{\n{}    uint ui = dtid.x;\n{}}}\n\n", threads, p, prologue, b1));
                props.push_str(&format!("    ComputeShader = {};\n", if fault == Some("pipeline-error:unknown-entry-point") { "MissingEntryPoint".to_string() } else { format!("CSMain{}", p) }));
                if fault == Some("pipeline-error:state-on-compute") {
                    props.push_str("    CullMode = \"None\";\n");
                }
                if fault == Some("pipeline-error:stage-combination") {
                    props.push_str(&format!("    PixelShader = CSMain{};\n", p));
                }
                features.push("pipeline:compute".into());
            }
            2 | 3 => {
                text.push_str(&format!(
                    "void VSMain{}(uint vid : SV_VertexID, out float4 o_pos : SV_Position, out float2 o_uv : TEXCOORD)\n{{\n{}    uint ui = vid;\n{}    o_pos = acc;\n    o_uv = acc.xy;\n}}\n\n",
                    p, prologue, b1
                ));
                text.push_str(&format!("float4 PSMain{}(float2 i_uv : TEXCOORD) : SV_Target0\n{{\n{}    uint ui = 3u;\n    acc.xy += i_uv;\n{}    return acc;\n}}\n\n", p, prologue, b2));
                let first = format!("    VertexShader = VSMain{};\n", p);
                let second = format!("    PixelShader = {};\n", if fault == Some("pipeline-error:unknown-entry-point") { "MissingEntryPoint".to_string() } else { format!("PSMain{}", p) });
                push_stage_lines(rng, &mut props, &mut features, first, second);
                props.push_str(&graphics_state(rng, &mut features));
                if fault == Some("pipeline-error:stage-combination") {
                    props.push_str(&format!("    ComputeShader = VSMain{};\n", p));
                }
                features.push("pipeline:vertex-pixel".into());
            }
            4 => {
                // mesh + pixel with a per-primitive attribute
                text.push_str(&format!("struct MeshVertex{}\n{{\n    float4 position : SV_Position;\n    float2 texcoord : TEXCOORD;\n}};\n\n", p));
                // half of the mesh pipelines hand a second per-primitive attribute of array type to the pixel stage
                let layers = rng.chance(1, 2);
                if layers {
                    features.push("per-primitive-array-attribute".into());
                }
                let (layers_member, layers_store, layers_param, layers_use) = if layers {
                    (format!("    uint layers[2] : LAYERS{};\n", p), "    prim.layers[0] = ui;\n    prim.layers[1] = ui + 1u;\n".to_string(), format!(", uint i_layers[2] : LAYERS{}", p), "    ui += i_layers[0] + i_layers[1];\n".to_string())
                } else {
                    (String::new(), String::new(), String::new(), String::new())
                };
                text.push_str(&format!("struct MeshPrimitive{}\n{{\n    uint material : MATERIAL{};\n{}}};\n\n", p, p, layers_member));
                text.push_str(&format!(
                    "[numthreads(32, 1, 1)]\n[outputtopology(\"triangle\")]\nvoid MSMain{p}(uint3 dtid : SV_DispatchThreadID, out vertices MeshVertex{p} o_vertices[64], out primitives MeshPrimitive{p} o_primitives[32], out indices uint3 o_triangles[32])\n{{\n{prologue}    uint ui = dtid.x;\n{b1}    SetMeshOutputCounts(64, 32);\n    MeshVertex{p} vertex;\n    vertex.position = acc;\n    vertex.texcoord = acc.xy;\n    o_vertices[dtid.x] = vertex;\n    MeshPrimitive{p} prim;\n    prim.material = ui % 8;\n{layers_store}    o_primitives[dtid.x] = prim;\n    o_triangles[dtid.x] = uint3(0, 1, 2);\n}}\n\n",
                    p = p,
                    prologue = prologue,
                    b1 = b1,
                    layers_store = layers_store
                ));
                text.push_str(&format!(
                    "float4 MPSMain{p}(float2 i_texcoord : TEXCOORD, uint i_material : MATERIAL{p}{layers_param}) : SV_Target0\n{{\n{prologue}    uint ui = i_material;\n{layers_use}    acc.xy += i_texcoord;\n{b2}    return acc;\n}}\n\n",
                    p = p,
                    prologue = prologue,
                    b2 = b2,
                    layers_param = layers_param,
                    layers_use = layers_use
                ));
                let first = format!("    MeshShader = {};\n", if fault == Some("pipeline-error:unknown-entry-point") { "MissingEntryPoint".to_string() } else { format!("MSMain{}", p) });
                let second = format!("    PixelShader = MPSMain{};\n", p);
                push_stage_lines(rng, &mut props, &mut features, first, second);
                props.push_str(&graphics_state(rng, &mut features));
                features.push("pipeline:mesh-pixel".into());
            }
            _ => {
                text.push_str(&format!("struct TaskPayload{}\n{{\n    uint start_location;\n}};\n\n", p));
                text.push_str(&format!("struct TaskVertex{}\n{{\n    float4 position : SV_Position;\n}};\n\n", p));
                text.push_str(&format!("groupshared TaskPayload{} lds_payload{};\n\n", p, p));
                text.push_str(&format!(
                    "[numthreads(64, 1, 1)]\nvoid TaskEntry{p}(uint3 dtid : SV_DispatchThreadID)\n{{\n{prologue}    uint ui = dtid.x;\n{b1}    lds_payload{p}.start_location = ui;\n    DispatchMesh(4u, 1u, 1u, lds_payload{p});\n}}\n\n",
                    p = p,
                    prologue = prologue,
                    b1 = b1
                ));
                text.push_str(&format!(
                    "[numthreads(64, 1, 1)]\n[outputtopology(\"triangle\")]\nvoid TaskMesh{p}(uint3 dtid : SV_DispatchThreadID, in payload TaskPayload{p} data, out vertices TaskVertex{p} o_vertices[64], out indices uint3 o_triangles[64])\n{{\n{prologue}    uint ui = data.start_location;\n{b2}    SetMeshOutputCounts(64, 64);\n    TaskVertex{p} vertex;\n    vertex.position = acc;\n    o_vertices[dtid.x] = vertex;\n    o_triangles[dtid.x] = uint3(0, 1, 2);\n}}\n\n",
                    p = p,
                    prologue = prologue,
                    b2 = b2
                ));
                let first = format!("    TaskShader = TaskEntry{};\n", p);
                let second = format!("    MeshShader = {};\n", if fault == Some("pipeline-error:unknown-entry-point") { "MissingEntryPoint".to_string() } else { format!("TaskMesh{}", p) });
                push_stage_lines(rng, &mut props, &mut features, first, second);
                features.push("pipeline:task-mesh".into());
            }
        }
        if rng.chance(1, 3) {
            props.push_str(&format!("    DefaultBindGroup = {};\n", rng.below(4)));
            features.push("default-bind-group".into());
        }
        match fault {
            Some("pipeline-error:unknown-property") => props.push_str("    Tessellation = 3;\n"),
            Some("pipeline-error:duplicate-property") => props.push_str("    DefaultBindGroup = 1;\n    DefaultBindGroup = 1;\n"),
            Some("pipeline-error:no-entry-point") => props = String::from("    DefaultBindGroup = 1;\n"),
            Some("pipeline-error:bad-cull-mode") => props.push_str("    CullMode = \"Sideways\";\n"),
            _ => {}
        }
        text.push_str(&format!("Pipeline {}\n{{\n{}}}\n\n", pname, props));
        pipelines.push(pname);
    }
    if np == 0 {
        let b = body(rng, &resources, ncb, &helper_names, &mut features, 2);
        text.push_str(&format!("void main_entry()\n{{\n    float4 acc = float4(0, 0, 0, 1);\n    int si = 2;\n    uint ui = 1u;\n{}}}\n", b));
        features.push("no-pipeline".into());
        if let Some(i) = inject {
            if i.starts_with("pipeline-error") {
                // there is no pipeline to break: declare a broken one
                text.push_str("\nPipeline Broken\n{\n    ComputeShader = MissingEntryPoint;\n}\n");
                pipelines.push("Broken".into());
            }
        }
    }
    if inject == Some("parse-error:missing-brace") {
        text.push_str("void unterminated_function()\n{\n    int x = 1;\n");
    }
    features.sort();
    features.dedup();
    Program {
        text,
        pipelines,
        features,
        header_len,
        injected: inject,
    }
}
