//! Workload generator of C07 (compilation is deterministic).
//!
//! Every generated input is built to put several (>= 4) order-sensitive elements into each hash-ordered
//! container of the compiler at once:
//!  * name generation scopes (root + namespaces, some nested / reopened): overload sets `f` next to user symbols
//!    called `f_0`, `f_1`, `f_0_0`; function templates instantiated three times next to `t_0`; an enum and a
//!    function sharing a name; identifiers which are reserved on one target (`kernel`, `vertex`, `fragment`, `metal`,
//!    `helper`, `main`, `half`, `float16_t`, `int64_t`, `vector`, `matrix`) next to `kernel_0` ...; the same
//!    base names again in other namespaces; locals named like globals / functions / generated candidates;
//!  * usage analysis: 5-9 `static` / `groupshared` globals and 12-30 resources reached through 1-3 call chains of
//!    depth 3-6 (Metal turns every one of them into an implicit parameter of every function above the use);
//!  * binding assignment: 3-6 bind groups, each with 2-3 (RW)BufferAddress globals (inline constant blocks with
//!    buffer addresses enabled) and 2-5 other resources (argument buffers on Metal), declared interleaved;
//!  * the Metal helper table: byte / structured / texel buffers and textures used through several methods each;
//!  * the preprocessor: 4-9 headers in sub directories with `#pragma once` or include guards, included several
//!    times (diamonds), 12-25 object-like / function-like / conditional / redefined macros, command line defines.
//! One input in six carries an injected error so that diagnostics are compared as well.

use crate::rng::Rng;

#[derive(Clone, Debug, Default)]
pub struct Info {
    pub statics: usize,
    pub groups: usize,
    pub buffer_addresses: usize,
    pub resources: usize,
    pub scopes: usize,
    /// (name, generated-looking twin) pairs whose relative processing order changes the emitted names
    pub conflict_pairs: usize,
    pub min_pairs_per_scope: usize,
    /// pairs that do not depend on an identifier being reserved by the back end (they count on every target)
    pub neutral_pairs: usize,
    pub chains: usize,
    pub chain_depth: usize,
    pub headers: usize,
    pub pragma_once: usize,
    pub macros: usize,
    pub local_clashes: usize,
    pub injected_error: Option<&'static str>,
    /// payload types dispatched by the task entry of a task + mesh workload (0: compute workload)
    pub mesh_payload_types: usize,
    /// interpolators the vertex entry of a vertex + pixel workload provides (0: another kind of workload)
    pub graphics_interpolators: usize,
}

#[derive(Clone, Debug)]
pub struct Workload {
    pub files: Vec<(String, String)>,
    pub entry: String,
    pub defines: Vec<(String, String)>,
    /// "all" | "no_pipeline" | "named:<pipeline>"
    pub mode: String,
    pub validate_layout: bool,
    pub info: Info,
}

/// A global the call chains can use: a statement that folds it into `r`, and optionally one that writes it
#[derive(Clone, Debug)]
struct Usable {
    name: String,
    read: String,
    write: Option<String>,
}

struct Kit {
    decls: Vec<String>,
    /// uint valued expressions, valid inside the declaring scope
    uses: Vec<String>,
    /// names this kit introduces (for local-variable clashes)
    names: Vec<String>,
    pairs: usize,
}

struct Scope {
    /// namespace path from the root; empty = root
    path: Vec<String>,
    kits: Vec<Kit>,
}

const STATIC_NAMES: &[&str] = &["s_val", "s_acc", "counter", "state", "total", "seed", "mask", "phase", "slot", "s_val_0", "counter_0", "state_1", "total_0"];
const KIT_BASES: &[&str] = &["f", "g", "calc", "mix", "pick", "item", "val", "node", "blend", "fold"];
/// accepted by the front end as ordinary identifiers, reserved by at least one back end
const RESERVED: &[&str] = &["kernel", "vertex", "fragment", "metal", "helper", "main", "half", "float16_t", "int64_t", "vector", "matrix"];
const NAMESPACE_NAMES: &[&str] = &["NA", "NB", "Util", "Detail", "Math", "helper", "metal", "vertex"];

fn lit(rng: &mut Rng, n_const: usize) -> String {
    match rng.below(6) {
        0 => format!("K{}", rng.below(n_const)),
        1 => format!("ADD(K{}, {}u)", rng.below(n_const), rng.below(9)),
        2 => format!("MUL2(K{})", rng.below(n_const)),
        3 => "VK".to_string(),
        _ => format!("{}u", 1 + rng.below(40)),
    }
}

/// A symbol with a given (generated-looking) name, of a random kind; returns (declaration, use expression).
/// Uses of a kit are written inside the scope that declares the kit (in its `collect` function), so names need no
/// qualification. (Qualified names with two levels - `NA::Inner::f`, `NA::E::Value` - trip an assertion in the type
/// checker's walk_into_scopes; that is C08's business, the generator stays clear of it.)
fn twin_symbol(rng: &mut Rng, name: &str, n_const: usize) -> (String, String) {
    match rng.below(4) {
        0 => (format!("uint {}(uint x) {{ return x + {}; }}", name, lit(rng, n_const)), format!("{}({}u)", name, rng.below(9))),
        1 => (format!("static uint {} = {};", name, lit(rng, n_const)), name.to_string()),
        2 => (format!("struct {} {{ uint m; float w; }};", name), format!("(uint)sizeof({})", name)),
        _ => (format!("enum {} {{ {}_A, {}_B = 5 }};", name, name, name), format!("(uint){}::{}_B", name, name)),
    }
}

const OVERLOADS: &[(&str, &str, &str)] = &[
    ("uint x", "x", "3u"),
    ("float x", "(uint)x", "1.5f"),
    ("int x", "(uint)x", "(int)2"),
    ("uint x, uint y", "x + y", "1u, 2u"),
    ("float2 x", "(uint)x.y", "float2(1.0f, 2.0f)"),
];

fn make_kit(rng: &mut Rng, base: &str, statics: &[Usable], n_const: usize, reserved: Option<&str>) -> Kit {
    let mut decls = Vec::new();
    let mut uses = Vec::new();
    let mut names = Vec::new();
    let mut pairs = 0;
    let static_term = |rng: &mut Rng| -> String {
        // only plain uint statics can be folded into an expression
        let plain: Vec<&Usable> = statics.iter().filter(|s| s.read.starts_with("r += ") && !s.read.contains('[') && !s.read.contains("(uint)")).collect();
        if !plain.is_empty() && rng.chance(1, 2) {
            plain[rng.below(plain.len())].name.clone()
        } else {
            format!("{}u", rng.below(20))
        }
    };
    if let Some(r) = reserved {
        // reserved identifier as function or static global, with a generated-looking twin next to it
        if rng.chance(1, 2) {
            decls.push(format!("uint {}(uint x) {{ return x + {}; }}", r, static_term(rng)));
            uses.push(format!("{}(2u)", r));
        } else {
            decls.push(format!("static uint {} = {};", r, lit(rng, n_const)));
            uses.push(r.to_string());
        }
        names.push(r.to_string());
        let twin = format!("{}_0", r);
        let (d, u) = twin_symbol(rng, &twin, n_const);
        decls.push(d);
        uses.push(u);
        names.push(twin);
        pairs += 1;
    } else {
        match rng.below(5) {
            0 => {
                // function template instantiated three times
                decls.push(format!("template<typename T>\nT {}(T x) {{ return x + x; }}", base));
                uses.push(format!("{}<uint>(1u)", base));
                uses.push(format!("(uint){}<float>(1.0f)", base));
                uses.push(format!("(uint){}<int>(2)", base));
            }
            1 => {
                // an enum and a function with the same name
                decls.push(format!("enum {} {{ {}_A, {}_B = 7 }};", base, base, base));
                decls.push(format!("uint {}(uint x) {{ return x * 2u + {}; }}", base, static_term(rng)));
                uses.push(format!("{}(4u)", base));
                uses.push(format!("(uint){}::{}_B", base, base));
            }
            _ => {
                let n = 2 + rng.below(3);
                let mut idx: Vec<usize> = (0..OVERLOADS.len()).collect();
                rng.shuffle(&mut idx);
                let forward = rng.chance(1, 4);
                for &i in idx.iter().take(n) {
                    let (params, value, arg) = OVERLOADS[i];
                    if forward {
                        decls.insert(0, format!("uint {}({});", base, params));
                    }
                    decls.push(format!("uint {}({}) {{ return {} + {}; }}", base, params, value, static_term(rng)));
                    uses.push(format!("{}({})", base, arg));
                }
            }
        }
        names.push(base.to_string());
        // user symbols whose names look like the generated ones
        let mut twins = vec![format!("{}_0", base)];
        if rng.chance(1, 2) {
            twins.push(format!("{}_1", base));
        }
        if rng.chance(1, 4) {
            twins.push(format!("{}_0_0", base));
        }
        if rng.chance(1, 6) {
            twins.push(format!("{}_2", base));
        }
        for t in twins {
            let (d, u) = twin_symbol(rng, &t, n_const);
            // twins go before or after the overload set in the source: source order must not matter either
            if rng.chance(1, 2) {
                decls.insert(0, d);
            } else {
                decls.push(d);
            }
            uses.push(u);
            names.push(t);
            pairs += 1;
        }
    }
    Kit { decls, uses, names, pairs }
}

struct ResKind {
    ty: &'static str,
    abbr: &'static str,
    read: &'static [&'static str],
    write: Option<&'static str>,
    is_address: bool,
}

// {n} = resource name, {s} = name of a sampler, {k} = small offset
const ADDRESS_KINDS: &[ResKind] = &[
    ResKind { ty: "BufferAddress", abbr: "ba", read: &["r += {n}.Load<uint>({k});", "r += {n}.Load<Elem>({k}).m;"], write: None, is_address: true },
    ResKind { ty: "RWBufferAddress", abbr: "rwba", read: &["r += {n}.Load<uint>({k});"], write: Some("{n}.Store({k}, r);"), is_address: true },
];
const OTHER_KINDS: &[ResKind] = &[
    ResKind { ty: "ByteAddressBuffer", abbr: "bab", read: &["r += {n}.Load({k});", "r += {n}.Load2({k}).y;", "r += {n}.Load3({k}).z;", "r += {n}.Load4({k}).w;", "{ uint dim; {n}.GetDimensions(dim); r += dim; }"], write: None, is_address: false },
    ResKind { ty: "RWByteAddressBuffer", abbr: "rwbab", read: &["r += {n}.Load({k});", "{ uint prev; {n}.InterlockedAdd({k}, 1u, prev); r += prev; }"], write: Some("{n}.Store({k}, r);"), is_address: false },
    ResKind { ty: "StructuredBuffer<Elem>", abbr: "sb", read: &["r += {n}.Load({k}).m;", "{ uint cnt, stride; {n}.GetDimensions(cnt, stride); r += cnt; }"], write: None, is_address: false },
    ResKind { ty: "StructuredBuffer<uint>", abbr: "sbu", read: &["r += {n}.Load({k});", "r += {n}[{k}];"], write: None, is_address: false },
    ResKind { ty: "RWStructuredBuffer<uint>", abbr: "rwsb", read: &["r += {n}.Load({k});", "r += {n}[{k}];"], write: Some("{n}[{k}] = r;"), is_address: false },
    ResKind { ty: "Buffer<uint>", abbr: "tb", read: &["r += {n}.Load({k});", "r += {n}[{k}];"], write: None, is_address: false },
    ResKind { ty: "RWBuffer<uint>", abbr: "rwtb", read: &["r += {n}.Load({k});"], write: Some("{n}[{k}] = r;"), is_address: false },
    ResKind { ty: "Texture2D<float4>", abbr: "tex", read: &["r += (uint){n}.Load(int3(0, 0, 0)).x;", "{ uint tw, th; {n}.GetDimensions(tw, th); r += tw; }", "r += (uint){n}.SampleLevel({s}, float2(0.5f, 0.5f), 0).x;"], write: None, is_address: false },
    ResKind { ty: "Texture2D<uint>", abbr: "texu", read: &["r += {n}.Load(int3(0, 0, 0));"], write: None, is_address: false },
    ResKind { ty: "Texture2DArray<float4>", abbr: "ta", read: &["r += (uint){n}.Load(int4(0, 0, 0, 0)).x;"], write: None, is_address: false },
    ResKind { ty: "Texture3D<float4>", abbr: "t3", read: &["r += (uint){n}.Load(int4(0, 0, 0, 0)).x;"], write: None, is_address: false },
    ResKind { ty: "RWTexture2D<float4>", abbr: "rwtex", read: &["r += (uint){n}.Load(int2(0, 0)).x;"], write: Some("{n}[uint2(1, 1)] = float4(1, 1, 1, 1);"), is_address: false },
    // typed stores of fewer than four components go through one `extend` helper per component count on Metal
    ResKind { ty: "RWTexture2D<float>", abbr: "rwt1", read: &["{n};"], write: Some("{n}[uint2(1, 1)] = 1.0f;"), is_address: false },
    ResKind { ty: "RWTexture2D<float2>", abbr: "rwt2", read: &["{n};"], write: Some("{n}[uint2(1, 1)] = float2(1, 1);"), is_address: false },
    ResKind { ty: "RWTexture2D<float3>", abbr: "rwt3", read: &["{n};"], write: Some("{n}[uint2(1, 1)] = float3(1, 1, 1);"), is_address: false },
    ResKind { ty: "RWTexture2D<uint2>", abbr: "rwu2", read: &["{n};"], write: Some("{n}[uint2(0, 1)] = uint2(r, 1u);"), is_address: false },
    ResKind { ty: "RWTexture3D<float4>", abbr: "rw3", read: &["{n};"], write: Some("{n}[uint3(0, 0, 0)] = float4(1, 1, 1, 1);"), is_address: false },
    ResKind { ty: "ConstantBuffer<Elem>", abbr: "cbo", read: &["r += {n}.m;"], write: None, is_address: false },
    ResKind { ty: "SamplerState", abbr: "samp", read: &["{n};"], write: None, is_address: false },
];

fn subst(template: &str, name: &str, sampler: &str, k: usize) -> String {
    template.replace("{n}", name).replace("{s}", sampler).replace("{k}", &format!("{}u", k * 4))
}

struct Header {
    path: String,
    deps: Vec<usize>,
    body: String,
}

pub fn generate(rng: &mut Rng) -> Workload {
    let mut info = Info::default();

    // ---- macros ---------------------------------------------------------------------------------
    let n_const = 6 + rng.below(7);
    let variant = rng.below(4);
    let mut macros = String::new();
    for i in 0..n_const {
        macros.push_str(&format!("#define K{} {}u\n", i, 1 + rng.below(60)));
    }
    macros.push_str("#define ADD(a, b) ((a) + (b))\n#define MUL2(x) ((x) * 2u)\n#define SEL(c, a, b) ((c) ? (a) : (b))\n#define CAT(a, b) a##b\n#define DECL_STATIC(name, v) static uint name = v;\n");
    macros.push_str("#if VARIANT >= 2\n#define VK 5u\n#else\n#define VK 9u\n#endif\n");
    macros.push_str("#ifdef EXTRA_MACRO\n#define EXTRA_TERM 3u\n#else\n#define EXTRA_TERM 0u\n#endif\n");
    let mut n_macros = n_const + 7;
    for _ in 0..rng.below(4) {
        let i = rng.below(n_const);
        macros.push_str(&format!("#undef K{}\n#define K{} {}u\n", i, i, 1 + rng.below(60)));
        n_macros += 1;
    }
    if rng.chance(1, 2) {
        macros.push_str("#if defined(VARIANT) && (VARIANT == 1 || VARIANT == 3) && !defined(NEVER_DEFINED)\n#define ODD_VARIANT 1\n#endif\n");
        n_macros += 1;
    }
    info.macros = n_macros;
    let mut defines = vec![("VARIANT".to_string(), variant.to_string())];
    if rng.chance(1, 2) {
        defines.push(("EXTRA_MACRO".to_string(), if rng.chance(1, 2) { "1".to_string() } else { String::new() }));
    }

    // ---- types ----------------------------------------------------------------------------------
    let mut types = "struct Elem\n{\n    uint m;\n    float w;\n};\n".to_string();
    // enums whose underlying type has to be deduced from several enumerators of different kinds (signed, unsigned on both
    // sides of INT_MAX, implicit successors, references to earlier enumerators): any fold over an unordered container shows
    for e in 0..1 + rng.below(3) {
        let n = 2 + rng.below(5);
        let mut parts = Vec::new();
        let mut probe = Vec::new();
        let style = rng.below(4);
        for v in 0..n {
            let name = format!("EN{}_V{}", e, v);
            let value = match (style, rng.below(6)) {
                (_, 0) => String::new(),
                (0, _) => format!(" = {}", rng.below(100)),
                (1, k) => format!(" = {}", ["1u", "7u", "0x7FFFFFFFu", "0x80000000u", "0xFFFFFFFFu", "2147483648u"][k]),
                (2, k) => format!(" = {}", ["-1", "5", "-2147483647", "2147483647", "0", "100"][k]),
                (_, k) => {
                    if v > 0 && k < 3 {
                        format!(" = EN{}_V{} + 1", e, rng.below(v))
                    } else {
                        format!(" = {}", ["3u", "0x80000001u", "1", "40u", "0xF0000000u", "9"][k])
                    }
                }
            };
            parts.push(format!("    {}{},", name, value));
            probe.push(format!("(uint)EN{}::{}", e, name));
        }
        types.push_str(&format!("enum EN{}\n{{\n{}\n}};\nuint enum_probe{}() {{ return {}; }}\n", e, parts.join("\n"), e, probe.join(" + ")));
    }

    // a struct with several base types (one workload in three): the inherited members arrive in the order of the base list
    let n_bases = if rng.chance(1, 3) { 2 + rng.below(4) } else { 0 };
    if n_bases > 0 {
        let mut reads = Vec::new();
        for b in 0..n_bases {
            types.push_str(&format!("struct Base{}\n{{\n    uint b{}_lo;\n    uint b{}_hi;\n}};\n", b, b, b));
            reads.push(format!("d.b{}_lo * {}u + d.b{}_hi", b, b + 2, b));
        }
        let list: Vec<String> = (0..n_bases).map(|b| format!("Base{}", b)).collect();
        let writes: String = (0..n_bases).map(|b| format!("    d.b{}_lo = x + {}u;\n    d.b{}_hi = x ^ {}u;\n", b, b, b, b + 7)).collect();
        types.push_str(&format!("struct Derived : {}\n{{\n    uint own;\n}};\nuint bases_probe(uint x)\n{{\n    Derived d;\n{}    d.own = x;\n    return d.own + {};\n}}\n", list.join(", "), writes, reads.join(" + ")));
    }

    // ---- static / groupshared globals -----------------------------------------------------------
    let n_static = 5 + rng.below(5);
    let mut static_names: Vec<&str> = STATIC_NAMES.to_vec();
    rng.shuffle(&mut static_names);
    let mut statics: Vec<Usable> = Vec::new();
    let mut statics_text = String::new();
    for name in static_names.iter().take(n_static) {
        let name = name.to_string();
        let (decl, read, write) = match rng.below(6) {
            0 => (format!("static uint {} = {};", name, lit(rng, n_const)), format!("r += {};", name), Some(format!("{} = r;", name))),
            1 => (format!("DECL_STATIC({}, {})", name, lit(rng, n_const)), format!("r += {};", name), Some(format!("{} += 1u;", name))),
            2 => (format!("static float {};", name), format!("r += (uint){};", name), Some(format!("{} = 2.5f;", name))),
            3 => (format!("static uint {}[4];", name), format!("r += {}[1];", name), Some(format!("{}[2] = r;", name))),
            4 => (format!("groupshared uint {}[64];", name), format!("r += {}[r & 63u];", name), Some(format!("{}[3] = r;", name))),
            _ => (format!("groupshared float4 {}[16];", name), format!("r += (uint){}[0].x;", name), Some(format!("{}[1] = float4(1, 2, 3, 4);", name))),
        };
        statics_text.push_str(&decl);
        statics_text.push('\n');
        statics.push(Usable { name, read, write });
    }
    info.statics = n_static;

    // ---- resources ------------------------------------------------------------------------------
    let n_groups = *rng.pick(&[4usize, 4, 4, 4, 4, 4, 3, 5]);
    let mut res_decls: Vec<String> = Vec::new();
    let mut resources: Vec<Usable> = Vec::new();
    let mut counter = 0;
    // a sampler that texture reads can use (static samplers get no slot on Metal: keep it a plain one)
    let sampler_name = "g_sampler".to_string();
    res_decls.push(format!("const SamplerState {};", sampler_name));
    resources.push(Usable { name: sampler_name.clone(), read: format!("{};", sampler_name), write: None });
    for g in 0..n_groups {
        let n_ba = 2 + rng.below(2);
        let n_other = 2 + rng.below(4);
        for j in 0..(n_ba + n_other) {
            let kind = if j < n_ba { rng.pick(ADDRESS_KINDS) } else { rng.pick(OTHER_KINDS) };
            counter += 1;
            let name = match rng.below(8) {
                0 => format!("g_{}", kind.abbr),
                1 => format!("g_{}_0", kind.abbr),
                _ => format!("g_{}{}", kind.abbr, counter),
            };
            let name = if resources.iter().any(|r| r.name == name) { format!("g_{}{}x", kind.abbr, counter) } else { name };
            let mut decl = String::new();
            let style = rng.below(3);
            if style == 0 || (style == 2 && g != 0) {
                decl.push_str(&format!("[[rssl::bind_group({})]] ", g));
            }
            if !kind.ty.starts_with("RW") || rng.chance(1, 2) {
                decl.push_str("const ");
            }
            decl.push_str(kind.ty);
            decl.push(' ');
            decl.push_str(&name);
            if style == 1 {
                decl.push_str(&format!(" : register(space{})", g));
            } else if style == 2 && g == 0 {
                // default group
            }
            decl.push(';');
            res_decls.push(decl);
            let read = subst(kind.read[rng.below(kind.read.len())], &name, &sampler_name, rng.below(8));
            let write = kind.write.map(|w| subst(w, &name, &sampler_name, rng.below(8)));
            if kind.is_address {
                info.buffer_addresses += 1;
            }
            resources.push(Usable { name, read, write });
        }
        if rng.chance(1, 3) {
            res_decls.push(format!("[[rssl::bind_group({})]] cbuffer CB{}\n{{\n    uint cb{}_a;\n    float4 cb{}_b;\n}}", g, g, g, g));
            resources.push(Usable { name: format!("cb{}_a", g), read: format!("r += cb{}_a + (uint)cb{}_b.z;", g, g), write: None });
        }
    }
    info.groups = n_groups;
    info.resources = resources.len();
    // interleave the groups
    rng.shuffle(&mut res_decls[1..]);
    let split = 1 + rng.below(res_decls.len() - 1);
    let res_a = res_decls[..split].join("\n") + "\n";
    let res_b = res_decls[split..].join("\n") + "\n";

    // ---- name generation scopes -----------------------------------------------------------------
    let mut ns_names: Vec<&str> = NAMESPACE_NAMES.to_vec();
    rng.shuffle(&mut ns_names);
    let n_ns = 2 + rng.below(3);
    let mut scopes: Vec<Scope> = vec![Scope { path: Vec::new(), kits: Vec::new() }];
    for ns in ns_names.iter().take(n_ns) {
        scopes.push(Scope { path: vec![ns.to_string()], kits: Vec::new() });
        if rng.chance(1, 2) {
            // the same inner name below several parents
            scopes.push(Scope { path: vec![ns.to_string(), "Inner".to_string()], kits: Vec::new() });
        }
    }
    // a reserved identifier is either a namespace or a symbol of this input, not both
    let mut reserved_pool: Vec<&str> = RESERVED.iter().copied().filter(|r| !ns_names.iter().take(n_ns).any(|n| n == r)).collect();
    rng.shuffle(&mut reserved_pool);
    let mut min_pairs = usize::MAX;
    for scope in scopes.iter_mut() {
        let mut bases: Vec<&str> = KIT_BASES.to_vec();
        rng.shuffle(&mut bases);
        let n_kits = 3 + rng.below(3);
        let mut scope_pairs = 0;
        for k in 0..n_kits {
            let reserved = if k == 0 || rng.chance(1, 5) { reserved_pool.pop() } else { None };
            // a namespace must not contain a symbol with its own reserved name twice; names are distinct per scope by construction
            let kit = make_kit(rng, bases[k], &statics, n_const, reserved);
            scope_pairs += kit.pairs;
            if reserved.is_none() {
                info.neutral_pairs += kit.pairs;
            }
            scope.kits.push(kit);
        }
        info.conflict_pairs += scope_pairs;
        min_pairs = min_pairs.min(scope_pairs);
    }
    info.scopes = scopes.len();
    info.min_pairs_per_scope = min_pairs;

    // all names locals may clash with
    let mut clash_names: Vec<String> = Vec::new();
    for s in &scopes {
        for k in &s.kits {
            for n in &k.names {
                if !clash_names.contains(n) {
                    clash_names.push(n.clone());
                }
            }
        }
    }
    for s in &statics {
        clash_names.push(s.name.clone());
        clash_names.push(format!("{}_0", s.name));
    }
    clash_names.push("kernel".into());
    let local_clash = |rng: &mut Rng, info: &mut Info| -> String {
        let n = rng.pick(&clash_names).clone();
        info.local_clashes += 1;
        format!("{{ uint {} = {}u; r += {}; }}", n, 1 + rng.below(9), n)
    };

    // ---- call chains ----------------------------------------------------------------------------
    let n_chains = 1 + rng.below(3);
    let depth = 3 + rng.below(4);
    info.chains = n_chains;
    info.chain_depth = depth;
    // deal every static and every resource to some (chain, level)
    let mut all_usable: Vec<Usable> = statics.iter().cloned().chain(resources.iter().cloned()).collect();
    rng.shuffle(&mut all_usable);
    let mut slots: Vec<Vec<Vec<Usable>>> = vec![vec![Vec::new(); depth]; n_chains];
    for (i, u) in all_usable.iter().enumerate() {
        // deeper levels get more, so that the sets grow on the way up
        let c = i % n_chains;
        let d = depth - 1 - (rng.below(depth) * rng.below(depth + 1) / (depth + 1)).min(depth - 1);
        slots[c][d].push(u.clone());
    }
    let chain_in_namespace: Vec<bool> = (0..n_chains).map(|_| rng.chance(1, 3)).collect();
    let fn_name = |c: usize, d: usize| -> String { format!("step{}_{}", c, d) };
    let fn_ref = |c: usize, d: usize| -> String { if chain_in_namespace[c] { format!("Chain{}::step{}_{}", c, c, d) } else { format!("step{}_{}", c, d) } };
    let mut chains_text = String::new();
    let forward_declare = rng.chance(1, 3);
    // a chain of functions that touch no global at all and reach a wave intrinsic at the bottom (Metal turns the intrinsic into an
    // implicit parameter of every function above the use); longer than the chains that thread globals
    let wave_depth: usize = if rng.chance(1, 3) { 7 + rng.below(6) } else { 0 };
    if wave_depth > 0 {
        let intrinsic = *rng.pick(&["WaveGetLaneIndex()", "WaveGetLaneCount()", "WaveGetLaneIndex() + WaveGetLaneCount()"]);
        let mut fns: Vec<String> = Vec::new();
        for d in (0..wave_depth).rev() {
            let inner = if d + 1 == wave_depth { intrinsic.to_string() } else { format!("wave_level{}(x + {}u)", d + 1, d) };
            fns.push(format!("uint wave_level{}(uint x) {{\n    return x ^ ({});\n}}\n", d, inner));
        }
        if rng.chance(1, 2) {
            rng.shuffle(&mut fns);
            let protos: Vec<String> = (0..wave_depth).map(|d| format!("uint wave_level{}(uint x);", d)).collect();
            chains_text.push_str(&protos.join("\n"));
            chains_text.push_str("\n\n");
        }
        chains_text.push_str(&fns.join("\n"));
        chains_text.push('\n');
    }
    for c in 0..n_chains {
        let mut fns: Vec<String> = Vec::new();
        let mut protos: Vec<String> = Vec::new();
        for d in (0..depth).rev() {
            let mut body = String::new();
            body.push_str("    uint r = x;\n");
            for u in &slots[c][d] {
                body.push_str("    ");
                body.push_str(&u.read);
                body.push('\n');
                if let Some(w) = &u.write {
                    if rng.chance(1, 3) {
                        body.push_str("    ");
                        body.push_str(w);
                        body.push('\n');
                    }
                }
            }
            if rng.chance(1, 2) {
                body.push_str("    ");
                body.push_str(&local_clash(rng, &mut info));
                body.push('\n');
            }
            if d + 1 < depth {
                body.push_str(&format!("    r += {}(SEL(r > {}, r, {}));\n", fn_name(c, d + 1), lit(rng, n_const), lit(rng, n_const)));
            }
            // merge with an earlier chain (already defined above)
            if c > 0 && rng.chance(1, 3) {
                let oc = rng.below(c);
                let od = rng.below(depth);
                body.push_str(&format!("    r += {}(r);\n", fn_ref(oc, od)));
            }
            body.push_str("    return r + EXTRA_TERM;\n");
            protos.push(format!("uint {}(uint x);", fn_name(c, d)));
            fns.push(format!("uint {}(uint x) {{\n{}}}\n", fn_name(c, d), body));
        }
        let mut text = String::new();
        if forward_declare {
            rng.shuffle(&mut fns);
            text.push_str(&protos.join("\n"));
            text.push_str("\n\n");
        }
        text.push_str(&fns.join("\n"));
        if chain_in_namespace[c] {
            chains_text.push_str(&format!("namespace Chain{} {{\n\n{}\n}}\n\n", c, text));
        } else {
            chains_text.push_str(&text);
            chains_text.push('\n');
        }
    }

    // ---- namespaces text ------------------------------------------------------------------------
    // one header per top level namespace (its Inner namespace nested inside, sometimes reopened), root kits in their own header
    let mut ns_headers: Vec<(String, String)> = Vec::new();
    let render_decls = |kits: &[Kit], indent: &str| -> String {
        let mut s = String::new();
        for k in kits {
            for d in &k.decls {
                for line in d.lines() {
                    s.push_str(indent);
                    s.push_str(line);
                    s.push('\n');
                }
            }
            s.push('\n');
        }
        s
    };
    let collector = |kits: &[Kit], inner: bool, indent: &str, rng: &mut Rng| -> String {
        let mut uses: Vec<&String> = kits.iter().flat_map(|k| k.uses.iter()).collect();
        rng.shuffle(&mut uses);
        let mut s = format!("{}uint collect(uint r) {{\n", indent);
        if inner {
            s.push_str(&format!("{}    r += Inner::collect(r);\n", indent));
        }
        for (n, u) in uses.iter().enumerate() {
            if n % 3 == 0 {
                s.push_str(&format!("{}    r = MUL2(r) + {};\n", indent, u));
            } else {
                s.push_str(&format!("{}    r += {};\n", indent, u));
            }
        }
        s.push_str(&format!("{}    return r;\n{}}}\n\n", indent, indent));
        s
    };
    let mut root_text = render_decls(&scopes[0].kits, "");
    root_text.push_str(&collector(&scopes[0].kits, false, "", rng));
    ns_headers.push(("root_names.h".to_string(), root_text));
    let mut top_namespaces: Vec<String> = Vec::new();
    let mut i = 1;
    while i < scopes.len() {
        let top = scopes[i].path[0].clone();
        top_namespaces.push(top.clone());
        let mut text = String::new();
        let has_inner = i + 1 < scopes.len() && scopes[i + 1].path.len() == 2;
        let kits = &scopes[i].kits;
        let reopen = kits.len() >= 2 && rng.chance(1, 2);
        let first = if reopen { 1 + rng.below(kits.len() - 1) } else { kits.len() };
        text.push_str(&format!("namespace {} {{\n\n", top));
        text.push_str(&render_decls(&kits[..first], "    "));
        if has_inner && rng.chance(1, 2) {
            text.push_str("    namespace Inner {\n\n");
            text.push_str(&render_decls(&scopes[i + 1].kits, "        "));
            text.push_str(&collector(&scopes[i + 1].kits, false, "        ", rng));
            text.push_str("    }\n\n");
            text.push_str("}\n\n");
        } else {
            text.push_str("}\n\n");
            if has_inner {
                text.push_str(&format!("namespace {} {{ namespace Inner {{\n\n", top));
                text.push_str(&render_decls(&scopes[i + 1].kits, "    "));
                text.push_str(&collector(&scopes[i + 1].kits, false, "    ", rng));
                text.push_str("} }\n\n");
            }
        }
        text.push_str(&format!("namespace {} {{\n\n", top));
        if reopen {
            text.push_str(&render_decls(&kits[first..], "    "));
        }
        text.push_str(&collector(kits, has_inner, "    ", rng));
        text.push_str("}\n\n");
        ns_headers.push((format!("ns_{}.h", top.to_lowercase()), text));
        i += if has_inner { 2 } else { 1 };
    }

    // ---- entry points ---------------------------------------------------------------------------
    let mut main_text = String::new();
    let mut all_uses: Vec<String> = vec!["collect(r)".to_string()];
    for ns in &top_namespaces {
        all_uses.push(format!("{}::collect(r)", ns));
    }
    rng.shuffle(&mut all_uses);
    let two_pipelines = rng.chance(1, 3);
    if rng.chance(2, 3) {
        main_text.push_str(&format!("[numthreads({}, {}, 1)]\n", *rng.pick(&[8, 16, 32, 64]), *rng.pick(&[1, 2, 4])));
    }
    main_text.push_str("void Main(uint3 dtid : SV_DispatchThreadID) {\n    uint r = dtid.x;\n");
    if wave_depth > 0 {
        main_text.push_str("    r += wave_level0(r);\n");
    }
    if n_bases > 0 {
        main_text.push_str("    r += bases_probe(r);\n");
    }
    for c in 0..n_chains {
        main_text.push_str(&format!("    r += {}(ADD(r, {}));\n", fn_ref(c, 0), lit(rng, n_const)));
    }
    for (n, u) in all_uses.iter().enumerate() {
        if n % 3 == 0 {
            main_text.push_str(&format!("    r = MUL2(r) + {};\n", u));
        } else {
            main_text.push_str(&format!("    r += {};\n", u));
        }
    }
    for _ in 0..(1 + rng.below(4)) {
        main_text.push_str("    ");
        main_text.push_str(&local_clash(rng, &mut info));
        main_text.push('\n');
    }
    // make the result observable
    let sink: Vec<&Usable> = resources.iter().filter(|r| r.write.is_some()).collect();
    if let Some(s) = sink.first() {
        main_text.push_str("    ");
        main_text.push_str(s.write.as_ref().unwrap());
        main_text.push('\n');
    }
    main_text.push_str("#ifdef ODD_VARIANT\n    r += 1u;\n#endif\n");
    main_text.push_str(&format!("    {}\n", statics[0].write.clone().unwrap_or_default()));
    main_text.push_str("}\n\n");
    if two_pipelines {
        main_text.push_str(&format!("void Second(uint3 dtid : SV_DispatchThreadID, uint gi : SV_GroupIndex) {{\n    uint r = gi;\n    r += {}(r);\n    {}\n}}\n\n", fn_ref(0, depth / 2), statics[1].write.clone().unwrap_or_default()));
    }
    // one workload in eight is a task + mesh pipeline instead (the Metal exporter refuses mesh intrinsics next to other pipelines):
    // the task entry reaches DispatchMesh with one to three payload types, directly and through a helper, so that the implicit
    // payload parameters are collected from a set with several members
    // ... and one in eight a vertex + pixel pipeline with three to six interpolators handed over as separate out parameters; a
    // third of those are broken on purpose: the pixel entry reads one or two interpolators nobody provides (link diagnostics)
    let graphics_variant = rng.chance(1, 8);
    let mesh_variant = !graphics_variant && rng.chance(1, 7);
    if graphics_variant {
        const SEMANTICS: &[(&str, &str)] = &[("float2", "TEXCOORD"), ("float3", "NORMAL"), ("float4", "COLOR"), ("float", "FOG"), ("float3", "TANGENT"), ("float2", "LIGHTMAP"), ("float", "WETNESS"), ("float4", "BONES")];
        let mut picked: Vec<(&str, &str)> = SEMANTICS.to_vec();
        rng.shuffle(&mut picked);
        let provided = 3 + rng.below(4);
        let missing = if rng.chance(1, 3) { 1 + rng.below(2) } else { 0 };
        let mut vs_params = String::from("uint vid : SV_VertexID, out float4 o_pos : SV_Position");
        let mut vs_body = String::from("    o_pos = float4((float)vid, 0.0f, 0.0f, 1.0f);\n");
        for (ty, sem) in &picked[..provided] {
            vs_params.push_str(&format!(", out {} o_{} : {}", ty, sem.to_lowercase(), sem));
            vs_body.push_str(&format!("    o_{} = ({})1;\n", sem.to_lowercase(), ty));
        }
        let mut ps_params: Vec<String> = picked[..provided].iter().filter(|_| rng.chance(2, 3)).map(|(ty, sem)| format!("{} i_{} : {}", ty, sem.to_lowercase(), sem)).collect();
        for (ty, sem) in &picked[provided..provided + missing] {
            ps_params.push(format!("{} i_{} : {}", ty, sem.to_lowercase(), sem));
        }
        rng.shuffle(&mut ps_params);
        main_text.push_str(&format!("void VSMain({})\n{{\n{}}}\n\n", vs_params, vs_body));
        main_text.push_str(&format!("float4 PSMain({}) : SV_Target0\n{{\n    return float4(0.0f, 0.0f, 0.0f, 1.0f);\n}}\n\n", ps_params.join(", ")));
        main_text.push_str("Pipeline PG\n{\n    VertexShader = VSMain;\n    PixelShader = PSMain;\n}\n");
        info.graphics_interpolators = provided;
        if missing > 0 {
            info.injected_error = Some("missing-interpolator");
        }
    } else if mesh_variant {
        let payloads = 1 + rng.below(3);
        for k in 0..payloads {
            let extra: String = (0..k).map(|j| format!("    uint extra{};\n", j)).collect();
            main_text.push_str(&format!("struct Payload{}\n{{\n    uint start_location;\n{}}};\ngroupshared Payload{} lds_payload{};\n\n", k, extra, k, k));
        }
        main_text.push_str("struct MeshVertex\n{\n    float4 position : SV_Position;\n};\n\n");
        if payloads > 1 {
            main_text.push_str(&format!("void dispatch_last(uint n)\n{{\n    lds_payload{}.start_location = n;\n    DispatchMesh(2u, 1u, 1u, lds_payload{});\n}}\n\n", payloads - 1, payloads - 1));
        }
        main_text.push_str("[numthreads(64, 1, 1)]\nvoid TaskMain(uint3 dtid : SV_DispatchThreadID)\n{\n");
        for k in 0..payloads {
            main_text.push_str(&format!("    lds_payload{}.start_location = dtid.x + {}u;\n", k, k));
        }
        for k in 0..payloads {
            let call = if payloads > 1 && k + 1 == payloads { "dispatch_last(dtid.x);".to_string() } else { format!("DispatchMesh({}u, 1u, 1u, lds_payload{});", 1 + k, k) };
            if k + 1 < payloads {
                main_text.push_str(&format!("    if (dtid.x == {}u)\n    {{\n        {}\n        return;\n    }}\n", k, call));
            } else {
                main_text.push_str(&format!("    {}\n", call));
            }
        }
        main_text.push_str("}\n\n[numthreads(64, 1, 1)]\n[outputtopology(\"triangle\")]\nvoid MeshMain(uint3 dtid : SV_DispatchThreadID, in payload Payload0 data, out vertices MeshVertex o_vertices[64], out indices uint3 o_triangles[64])\n{\n    SetMeshOutputCounts(64, 64);\n    MeshVertex vertex;\n    vertex.position = float4(data.start_location, 0, 0, 1);\n    o_vertices[dtid.x] = vertex;\n    o_triangles[dtid.x] = uint3(0, 1, 2);\n}\n\n");
        main_text.push_str("Pipeline PT\n{\n    TaskShader = TaskMain;\n    MeshShader = MeshMain;\n}\n");
        info.mesh_payload_types = payloads;
    } else {
        main_text.push_str("Pipeline P0\n{\n    ComputeShader = Main;\n}\n");
        if two_pipelines {
            main_text.push_str("\nPipeline P1\n{\n    ComputeShader = Second;\n}\n");
        }
    }

    // ---- error injection ------------------------------------------------------------------------
    let mut extra_include: Option<String> = None;
    let mut force_layout_validation = false;
    let mut statics_text = statics_text;
    let mut mode = match rng.below(10) {
        0 => "no_pipeline".to_string(),
        1 => "named:P0".to_string(),
        2 if two_pipelines => "named:P1".to_string(),
        _ => "all".to_string(),
    };
    if mesh_variant || graphics_variant {
        mode = "all".to_string();
    }
    if info.injected_error.is_none() && rng.chance(1, 6) {
        let kind: &'static str = *rng.pick(&["undefined-identifier", "wrong-arity", "missing-include", "error-directive", "redefinition", "type-error", "unknown-pipeline", "unterminated-conditional", "layout-mismatch", "layout-mismatch", "duplicate-pipeline-properties", "duplicate-sampler-properties", "duplicate-pipeline-properties", "duplicate-sampler-properties"]);
        info.injected_error = Some(kind);
        match kind {
            "undefined-identifier" => main_text = main_text.replacen("    uint r = dtid.x;\n", "    uint r = dtid.x + not_declared_anywhere;\n", 1),
            "wrong-arity" => main_text = main_text.replacen("    uint r = dtid.x;\n", &format!("    uint r = {}();\n", fn_ref(0, 0)), 1),
            "missing-include" => extra_include = Some("inc/does_not_exist.h".to_string()),
            "error-directive" => statics_text.push_str("#if VARIANT >= 0\n#error this configuration is not supported\n#endif\n"),
            "redefinition" => statics_text.push_str(&format!("static uint {} = 1u;\n", statics[rng.below(statics.len())].name)),
            "type-error" => main_text = main_text.replacen("    uint r = dtid.x;\n", "    Elem broken = 1u;\n    uint r = dtid.x;\n", 1),
            "layout-mismatch" => {
                // several buffer element types whose HLSL and Metal layouts differ: with layout validation on, which of them the
                // diagnostic names must not depend on anything but the input
                force_layout_validation = true;
                for b in 0..2 + rng.below(4) {
                    let body = *rng.pick(&["float3 a; float b;", "float a; float3 b; float c;", "half3 h; half k;", "uint3 u; uint v; float2 w;", "double d; float3 f; float g;"]);
                    statics_text.push_str(&format!("struct Skew{} {{ {} }};\nStructuredBuffer<Skew{}> g_skew{};\n", b, body, b, b));
                }
            }
            "duplicate-pipeline-properties" | "duplicate-sampler-properties" => {
                // several different properties of one block given twice: which repeat the diagnostic names must not depend on
                // anything but the input
                let pool: &[&str] = if kind == "duplicate-pipeline-properties" {
                    &["ComputeShader = Main;", "DefaultBindGroup = 0;", "DepthTargetFormat = \"D32_FLOAT\";", "RenderTargetFormat0 = \"R8G8B8A8_UNORM\";", "CullMode = \"None\";", "WindingOrder = \"Clockwise\";"]
                } else {
                    &["Filter = MIN_MAG_MIP_LINEAR;", "AddressU = Clamp;", "AddressV = Clamp;", "AddressW = Clamp;"]
                };
                let mut picked: Vec<&str> = pool.to_vec();
                rng.shuffle(&mut picked);
                picked.truncate(2 + rng.below(pool.len() - 1));
                let repeated = 2 + rng.below(picked.len() - 1);
                let mut lines: Vec<&str> = picked.clone();
                lines.extend_from_slice(&picked[..repeated]);
                // the repeats follow the first occurrences in any order
                rng.shuffle(&mut lines[picked.len()..]);
                let block: String = lines.iter().map(|l| format!("    {}\n", l)).collect();
                if kind == "duplicate-pipeline-properties" {
                    main_text = main_text.replacen("Pipeline P0\n{\n    ComputeShader = Main;\n}\n", &format!("Pipeline P0\n{{\n{}}}\n", block), 1);
                } else {
                    main_text = format!("SamplerState g_twice_sampler = StaticSampler\n{{\n{}}};\n\n{}", block, main_text);
                }
            }
            "unknown-pipeline" => mode = "named:NoSuchPipeline".to_string(),
            _ => statics_text.push_str("#if VARIANT == 7\nstatic uint never;\n"),
        }
    }

    // ---- files ----------------------------------------------------------------------------------
    // headers: 0 macros, 1 types, 2 statics, 3 res_a, 4 res_b, 5.. names, last chains
    let mut headers: Vec<Header> = vec![
        Header { path: "inc/macros.h".into(), deps: vec![], body: macros },
        Header { path: "inc/types.h".into(), deps: vec![], body: types },
        Header { path: "inc/statics.h".into(), deps: vec![0], body: statics_text },
        Header { path: "inc/bindings/res_a.h".into(), deps: vec![1], body: res_a },
        Header { path: "inc/bindings/res_b.h".into(), deps: vec![1, 3], body: res_b },
    ];
    for (name, text) in ns_headers {
        headers.push(Header { path: format!("names/{}", name), deps: vec![0, 2], body: text });
    }
    let chain_deps: Vec<usize> = vec![0, 1, 2, 3, 4];
    headers.push(Header { path: "chains.h".into(), deps: chain_deps, body: chains_text });
    info.headers = headers.len();

    let rel = |from: &str, to: &str| -> String {
        // relative path from the directory of `from` to `to` (both relative to the root)
        let from_dirs: Vec<&str> = from.split('/').collect();
        let from_dirs = &from_dirs[..from_dirs.len() - 1];
        let to_parts: Vec<&str> = to.split('/').collect();
        let mut common = 0;
        while common < from_dirs.len() && common + 1 < to_parts.len() && from_dirs[common] == to_parts[common] {
            common += 1;
        }
        let mut out = String::new();
        for _ in common..from_dirs.len() {
            out.push_str("../");
        }
        out.push_str(&to_parts[common..].join("/"));
        out
    };

    let entry = if rng.chance(1, 2) { "main.rssl".to_string() } else { "shaders/main.rssl".to_string() };
    // `#pragma once` is keyed on the spelling of the include name (not on the file it resolves to), so a header
    // protected that way is always spelled the same (root relative; the include handler falls back to the name as
    // given). Headers with classic include guards are spelled relative to the including file.
    let pragma: Vec<bool> = headers.iter().map(|_| rng.chance(4, 5)).collect();
    let spell = |from: &str, to: usize| -> String { if pragma[to] { headers[to].path.clone() } else { rel(from, &headers[to].path) } };
    let mut files: Vec<(String, String)> = Vec::new();
    for (hi, h) in headers.iter().enumerate() {
        let mut text = String::new();
        let guard = format!("GUARD_{}", h.path.replace(['/', '.'], "_").to_uppercase());
        if pragma[hi] {
            text.push_str("#pragma once\n");
            info.pragma_once += 1;
        } else {
            text.push_str(&format!("#ifndef {}\n#define {}\n", guard, guard));
        }
        for &d in &h.deps {
            text.push_str(&format!("#include \"{}\"\n", spell(&h.path, d)));
        }
        text.push('\n');
        text.push_str(&h.body);
        if !pragma[hi] {
            text.push_str(&format!("\n#endif // {}\n", guard));
        }
        files.push((h.path.clone(), text));
    }
    let mut main_file = String::new();
    main_file.push_str("// generated by the C07 workload generator\n");
    let mut order: Vec<usize> = (0..headers.len()).collect();
    // any order that respects "names before chains before main" works because every header pulls its own dependencies
    let last = order.pop().unwrap();
    rng.shuffle(&mut order[2..]);
    order.push(last);
    for &h in &order {
        main_file.push_str(&format!("#include \"{}\"\n", spell(&entry, h)));
        if rng.chance(1, 4) {
            // diamond: a second inclusion must be a no-op
            main_file.push_str(&format!("#include \"{}\"\n", spell(&entry, rng.below(h + 1))));
        }
    }
    if let Some(inc) = extra_include {
        main_file.push_str(&format!("#include \"{}\"\n", rel(&entry, &inc)));
    }
    main_file.push('\n');
    main_file.push_str(&main_text);
    files.push((entry.clone(), main_file));

    let validate_layout = rng.chance(1, 4) || force_layout_validation;
    Workload { files, entry, defines, mode, validate_layout, info }
}
