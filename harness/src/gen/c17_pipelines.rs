//! Generator for C17: files with 0-4 pipeline definitions (compute, vertex+pixel, mesh+pixel,
//! task+mesh(+pixel)) which share - or do not share - entry points, helper functions, static /
//! groupshared globals and resources (textures, buffers, cbuffers, samplers with explicit or implicit
//! bind groups), so that one pipeline's usage analysis, binding assignment (DefaultBindGroup), name
//! generation and entry-point wrapper generation could leak into another's.
//!
//! The text has a fixed shape that `split_pipelines` (in checks/c17.rs) can take apart again: every
//! pipeline definition starts at column 0 with `Pipeline <name>` and ends with the next line that is
//! exactly `}`; a pipeline wrapped into a namespace starts with `namespace PNs<k>` and ends with the
//! line `} // end PNs`.

use crate::rng::Rng;

#[derive(Clone, Copy, PartialEq, Eq, Debug)]
pub enum Kind {
    Compute,
    VertexPixel,
    MeshPixel,
    TaskMeshPixel,
    /// task + mesh without a pixel stage (the form the repository's own test uses)
    TaskMesh,
}

impl Kind {
    pub fn name(self) -> &'static str {
        match self {
            Kind::Compute => "compute",
            Kind::VertexPixel => "vertex+pixel",
            Kind::MeshPixel => "mesh+pixel",
            Kind::TaskMeshPixel => "task+mesh+pixel",
            Kind::TaskMesh => "task+mesh",
        }
    }
}

#[derive(Clone, Debug)]
pub struct PipelineInfo {
    pub name: String,
    pub kind: Kind,
    /// (stage name as rssl's ShaderStage prints it, entry function, numthreads if the entry has the attribute)
    pub stages: Vec<(&'static str, String, Option<(u32, u32, u32)>)>,
    pub default_group: Option<u32>,
    pub in_namespace: bool,
}

#[derive(Clone, Debug)]
pub struct Generated {
    pub text: String,
    pub pipelines: Vec<PipelineInfo>,
    pub features: Vec<String>,
    /// two pipeline definitions carry the same name (hostile)
    pub duplicate_names: bool,
}

struct Res {
    /// statements (over a local `float4 acc`) which use the resource
    uses: Vec<String>,
}

const PRELUDE: &str = "struct Elem\n{\n    float4 a;\n    uint b;\n};\n\nstruct VertexAttributes\n{\n    float4 position : SV_Position;\n    float2 texcoord : TEXCOORD;\n};\n\nstruct PrimitiveAttributes\n{\n    uint material : MATERIAL;\n};\n\nstruct Payload\n{\n    uint start_location;\n};\n\n";

/// (type text, register letter, use statements with `$` for the name)
const OBJECT_KINDS: &[(&str, char, &[&str])] = &[
    ("Texture2D", 't', &["$;", "acc += $.Load(int3(0, 0, 0));"]),
    ("Texture2D<float4>", 't', &["$;", "acc += $.Load(int3(1, 0, 0));"]),
    ("Texture2D<uint>", 't', &["$;"]),
    ("Texture2DArray", 't', &["$;"]),
    ("Texture3D", 't', &["$;"]),
    ("TextureCube", 't', &["$;"]),
    ("RWTexture2D<float4>", 'u', &["$;", "$[uint2(0, 0)] = acc;"]),
    ("RWTexture3D<float4>", 'u', &["$;"]),
    ("Buffer<float4>", 't', &["$;", "acc += $.Load(0);"]),
    ("RWBuffer<uint>", 'u', &["$;"]),
    ("ByteAddressBuffer", 't', &["$;", "acc.x += asfloat($.Load(0));"]),
    ("RWByteAddressBuffer", 'u', &["$;", "$.Store(0, 1u);"]),
    ("BufferAddress", 't', &["$;"]),
    ("RWBufferAddress", 'u', &["$;"]),
    ("StructuredBuffer<Elem>", 't', &["$;", "acc += $.Load(0).a;", "Elem e_$ = $[0]; acc += e_$.a;"]),
    ("RWStructuredBuffer<Elem>", 'u', &["$;", "Elem w_$; w_$.a = acc; w_$.b = 1u; $[0] = w_$;"]),
    ("RWStructuredBuffer<float4>", 'u', &["$;", "$[1] = acc;"]),
    ("StructuredBuffer<float4>", 't', &["$;", "acc += $[1];"]),
    ("ConstantBuffer<Elem>", 'b', &["$;", "acc += $.a;"]),
    ("SamplerState", 's', &["$;"]),
    ("SamplerComparisonState", 's', &["$;"]),
    ("RaytracingAccelerationStructure", 't', &["$;"]),
];

/// Pipeline names: several are prefixes / case variants of each other so that a sloppy name filter shows
/// (pipeline names live in no scope: names of functions, types and resources of the file are accepted as well)
const NAME_POOL: &[&str] = &[
    "Main", "MainShadow", "Main2", "main", "Pipe", "Pipe1", "Pipe10", "P", "Shadow", "ShadowPass", "Depth", "Test", "Test_A", "GraphicsTest", "ComputeTest", "A", "AB", "ABC", "cs0", "ps0", "Elem",
    "g_res0", "Pipeline",
];

/// Helper function names: some collide with names the exporters generate per pipeline (Metal entry point wrappers,
/// argument buffers, the helper namespace), so that the renaming done for one pipeline could show in another
const HELPER_NAMES: &[&str] = &["helper", "apply_light", "shade", "ComputeShaderEntry", "VertexShaderEntry", "PixelShaderEntry", "MeshShaderEntry", "VertexOutput", "ArgumentBuffer1", "accumulate"];

const FORMATS: &[&str] = &["R8G8B8A8_UNORM", "R16G16B16A16_FLOAT", "R32G32_UINT", "R11G11B10_FLOAT", "B8G8R8A8_SRGB"];
const BLEND_FACTORS: &[&str] = &["Zero", "One", "SrcAlpha", "OneMinusSrcAlpha", "DstColor", "Src1Alpha"];

struct Builder<'a> {
    rng: &'a mut Rng,
    text: String,
    features: Vec<String>,
    resources: Vec<Res>,
    /// use statements of plain (non resource) globals
    global_uses: Vec<String>,
    helpers: Vec<String>,
    next_res: usize,
    next_cb: usize,
    used_registers: Vec<(char, u32, u32)>,
    has_payload_global: bool,
    // entry pools: (name, numthreads)
    cs: Vec<(String, (u32, u32, u32))>,
    vs: Vec<String>,
    /// (name, needs MATERIAL from a mesh shader)
    ps: Vec<(String, bool)>,
    /// (name, threads, takes payload, provides primitives)
    ms: Vec<(String, (u32, u32, u32), bool, bool)>,
    ts: Vec<(String, (u32, u32, u32))>,
}

impl<'a> Builder<'a> {
    fn feature(&mut self, f: &str) {
        if !self.features.iter().any(|x| x == f) {
            self.features.push(f.to_string());
        }
    }

    fn resources(&mut self, max: usize) {
        let n = self.rng.below(max + 1);
        for _ in 0..n {
            if self.rng.chance(1, 6) {
                self.cbuffer();
                continue;
            }
            let (kind, letter, uses) = *self.rng.pick(OBJECT_KINDS);
            let name = format!("g_res{}", self.next_res);
            self.next_res += 1;
            let mut decl = String::new();
            let group = if self.rng.chance(2, 5) { Some(self.rng.below(4) as u32) } else { None };
            let plain_object = !kind.starts_with("ConstantBuffer") && !kind.contains("Address") && !kind.starts_with("Raytracing");
            let array = if plain_object && self.rng.chance(1, 7) { Some(1 + self.rng.below(3)) } else { None };
            let bindless = array.is_some() && self.rng.chance(1, 3);
            let style = self.rng.below(3);
            if let (Some(g), 0) = (group, style) {
                decl.push_str(&format!("[[rssl::bind_group({})]]\n", g));
                self.feature("res:bind_group-attribute");
            }
            if bindless {
                decl.push_str("[[rssl::bindless]]\n");
                self.feature("res:bindless");
            }
            if self.rng.chance(1, 2) {
                decl.push_str("const ");
            }
            decl.push_str(kind);
            decl.push(' ');
            decl.push_str(&name);
            if let Some(a) = array {
                decl.push_str(&format!("[{}]", if bindless { 1024 } else { a }));
                self.feature("res:array");
            }
            match (group, style) {
                (Some(g), 1) => {
                    decl.push_str(&format!(" : register(space{})", g));
                    self.feature("res:register-space");
                }
                (g, 2) if self.rng.chance(1, 2) => {
                    let space = g.unwrap_or(0);
                    let mut slot = self.rng.below(8) as u32;
                    while self.used_registers.contains(&(letter, slot, space)) {
                        slot += 1;
                    }
                    self.used_registers.push((letter, slot, space));
                    if g.is_some() {
                        decl.push_str(&format!(" : register({}{}, space{})", letter, slot, space));
                        self.feature("res:register-slot+space");
                    } else {
                        decl.push_str(&format!(" : register({}{})", letter, slot));
                        self.feature("res:register-slot");
                    }
                }
                _ => {}
            }
            if group.is_none() {
                self.feature("res:implicit-group");
            }
            if kind == "SamplerState" && array.is_none() && !decl.contains("register(s") && self.rng.chance(1, 2) {
                decl.push_str(" = StaticSampler\n{\n    Filter = MIN_MAG_MIP_LINEAR;\n    AddressU = Clamp;\n    AddressV = Clamp;\n}");
                self.feature("res:static-sampler");
            }
            decl.push_str(";\n");
            self.text.push_str(&decl);
            self.feature(&format!("object:{}", kind.split('<').next().unwrap_or(kind)));
            let uses = if array.is_some() { vec![format!("{};", name)] } else { uses.iter().map(|u| u.replace('$', &name)).collect() };
            self.resources.push(Res { uses });
        }
        self.text.push('\n');
    }

    fn cbuffer(&mut self) {
        let i = self.next_cb;
        self.next_cb += 1;
        let reg = match self.rng.below(4) {
            0 => format!(" : register(space{})", self.rng.below(4)),
            1 => format!(" : register(b{}, space{})", 8 + i, self.rng.below(4)),
            _ => String::new(),
        };
        self.text.push_str(&format!("cbuffer Constants{}{}\n{{\n    float4 cb{}_a;\n    uint cb{}_b;\n    float2 cb{}_c[2];\n}}\n", i, reg, i, i, i));
        self.feature("res:cbuffer");
        self.resources.push(Res {
            uses: vec![format!("acc += cb{}_a;", i), format!("acc.x += cb{}_c[1].y;", i), format!("acc.y += (float)cb{}_b;", i)],
        });
    }

    fn globals(&mut self, part: usize) {
        if self.rng.chance(1, 2) {
            self.text.push_str(&format!("static uint s_counter{} = 0u;\n", part));
            self.global_uses.push(format!("s_counter{} += 1u;", part));
            self.global_uses.push(format!("acc.w += (float)s_counter{};", part));
            self.feature("global:static");
        }
        if self.rng.chance(1, 3) {
            self.text.push_str(&format!("static float4 s_table{}[4];\n", part));
            self.global_uses.push(format!("s_table{}[1] = acc;", part));
            self.feature("global:static-array");
        }
        if self.rng.chance(1, 3) {
            self.text.push_str(&format!("groupshared float lds_data{}[64];\n", part));
            self.global_uses.push(format!("lds_data{}[3] = acc.x;", part));
            self.feature("global:groupshared");
        }
        if self.rng.chance(1, 3) {
            self.text.push_str(&format!("static const float k_scale{} = 0.5f;\n", part));
            self.global_uses.push(format!("acc *= k_scale{};", part));
            self.feature("global:static-const");
        }
        self.text.push('\n');
    }

    /// Statements over `acc` using random subsets of everything declared so far
    fn body(&mut self, density: u32) -> String {
        let mut out = String::new();
        for i in 0..self.resources.len() {
            if self.rng.chance(density, 6) {
                let uses = &self.resources[i].uses;
                let u = uses[self.rng.below(uses.len())].clone();
                out.push_str(&format!("    {}\n", u));
            }
        }
        for i in 0..self.global_uses.len() {
            if self.rng.chance(density, 8) {
                out.push_str(&format!("    {}\n", self.global_uses[i]));
            }
        }
        if !self.helpers.is_empty() && self.rng.chance(1, 2) {
            let h = self.rng.pick(&self.helpers).clone();
            out.push_str(&format!("    acc = {}(acc);\n", h));
        }
        out
    }

    fn helpers(&mut self, max: usize) {
        let n = self.rng.below(max + 1);
        for _ in 0..n {
            let mut name = self.rng.pick(HELPER_NAMES).to_string();
            if self.helpers.contains(&name) {
                name = format!("helper{}", self.helpers.len());
            }
            let body = self.body(2);
            self.text.push_str(&format!("float4 {}(float4 acc)\n{{\n{}    return acc;\n}}\n\n", name, body));
            self.helpers.push(name);
            self.feature("helper-function");
        }
    }

    fn threads(&mut self) -> (u32, u32, u32) {
        *self.rng.pick(&[(1, 1, 1), (8, 8, 1), (64, 1, 1), (4, 4, 4), (16, 2, 1)])
    }

    fn add_cs(&mut self) -> usize {
        let name = format!("cs{}", self.cs.len());
        let t = self.threads();
        let body = self.body(3);
        self.text.push_str(&format!(
            "[numthreads({}, {}, {})]\nvoid {}(uint3 dtid : SV_DispatchThreadID)\n{{\n    float4 acc = float4(0, 0, 0, 0);\n{}}}\n\n",
            t.0, t.1, t.2, name, body
        ));
        self.cs.push((name, t));
        self.cs.len() - 1
    }

    fn add_vs(&mut self) -> usize {
        let name = format!("vs{}", self.vs.len());
        let body = self.body(3);
        let extra = if self.rng.chance(1, 3) { ", uint iid : SV_InstanceID" } else { "" };
        self.text.push_str(&format!(
            "void {}(uint vid : SV_VertexID{}, out float4 o_pos : SV_Position, out float2 o_uv : TEXCOORD)\n{{\n    float4 acc = float4(0, 0, 0, 1);\n{}    o_pos = acc;\n    o_uv = float2(0.5f, 0.5f);\n}}\n\n",
            name, extra, body
        ));
        self.vs.push(name);
        self.vs.len() - 1
    }

    fn add_ps(&mut self, material: bool) -> usize {
        let name = format!("ps{}", self.ps.len());
        let body = self.body(3);
        let params = if material { "float2 i_uv : TEXCOORD, uint i_material : MATERIAL" } else if self.rng.chance(1, 3) { "uint pid : SV_PrimitiveID, float2 i_uv : TEXCOORD" } else { "float2 i_uv : TEXCOORD" };
        self.text.push_str(&format!("float4 {}({}) : SV_Target0\n{{\n    float4 acc = float4(i_uv, 0, 1);\n{}    return acc;\n}}\n\n", name, params, body));
        self.ps.push((name, material));
        self.ps.len() - 1
    }

    fn add_ms(&mut self, payload: bool) -> usize {
        let name = format!("ms{}", self.ms.len());
        let body = self.body(3);
        let n = *self.rng.pick(&[32u32, 64]);
        let primitives = self.rng.chance(1, 2);
        let mut params = String::from("uint3 dtid : SV_DispatchThreadID");
        if payload {
            params.push_str(", in payload Payload data");
        }
        params.push_str(&format!(", out vertices VertexAttributes o_vertices[{}]", n));
        if primitives {
            params.push_str(&format!(", out primitives PrimitiveAttributes o_primitives[{}]", n));
        }
        params.push_str(&format!(", out indices uint3 o_triangles[{}]", n));
        let mut tail = format!("    SetMeshOutputCounts({}, {});\n    VertexAttributes vertex;\n    vertex.position = acc;\n    vertex.texcoord = float2(0, 0);\n", n, n);
        if payload {
            tail.push_str("    vertex.position.x = data.start_location;\n");
        }
        tail.push_str("    o_vertices[dtid.x] = vertex;\n");
        if primitives {
            tail.push_str("    PrimitiveAttributes prim;\n    prim.material = dtid.x % 8;\n    o_primitives[dtid.x] = prim;\n");
        }
        tail.push_str("    o_triangles[dtid.x] = uint3(0, 1, 2);\n");
        self.text.push_str(&format!(
            "[numthreads({}, 1, 1)]\n[outputtopology(\"triangle\")]\nvoid {}({})\n{{\n    float4 acc = float4(0, 0, 0, 1);\n{}{}}}\n\n",
            n, name, params, body, tail
        ));
        self.ms.push((name, (n, 1, 1), payload, primitives));
        self.ms.len() - 1
    }

    fn add_ts(&mut self) -> usize {
        if !self.has_payload_global {
            self.text.push_str("groupshared Payload lds_payload;\n\n");
            self.has_payload_global = true;
        }
        let name = format!("ts{}", self.ts.len());
        let body = self.body(3);
        let n = *self.rng.pick(&[32u32, 64]);
        self.text.push_str(&format!(
            "[numthreads({}, 1, 1)]\nvoid {}(uint3 dtid : SV_DispatchThreadID)\n{{\n    float4 acc = float4(0, 0, 0, 0);\n{}    lds_payload.start_location = dtid.x;\n    DispatchMesh(4u, 1u, 1u, lds_payload);\n}}\n\n",
            n, name, body
        ));
        self.ts.push((name, (n, 1, 1)));
        self.ts.len() - 1
    }

    /// Reuse an existing entry (sharing) or make a new one
    fn share(&mut self, existing: usize) -> Option<usize> {
        if existing > 0 && self.rng.chance(1, 2) {
            Some(self.rng.below(existing))
        } else {
            None
        }
    }

    fn pipeline(&mut self, name: &str, kind: Kind) -> PipelineInfo {
        let mut stages: Vec<(&'static str, String, Option<(u32, u32, u32)>)> = Vec::new();
        let mut shared = false;
        match kind {
            Kind::Compute => {
                let i = match self.share(self.cs.len()) {
                    Some(i) => {
                        shared = true;
                        i
                    }
                    None => self.add_cs(),
                };
                stages.push(("Compute", self.cs[i].0.clone(), Some(self.cs[i].1)));
            }
            Kind::VertexPixel => {
                let v = match self.share(self.vs.len()) {
                    Some(i) => {
                        shared = true;
                        i
                    }
                    None => self.add_vs(),
                };
                let candidates: Vec<usize> = (0..self.ps.len()).filter(|i| !self.ps[*i].1).collect();
                let p = if !candidates.is_empty() && self.rng.chance(1, 2) {
                    shared = true;
                    *self.rng.pick(&candidates)
                } else {
                    self.add_ps(false)
                };
                stages.push(("Vertex", self.vs[v].clone(), None));
                stages.push(("Pixel", self.ps[p].0.clone(), None));
            }
            Kind::MeshPixel | Kind::TaskMeshPixel | Kind::TaskMesh => {
                let payload = kind != Kind::MeshPixel;
                if payload {
                    let t = match self.share(self.ts.len()) {
                        Some(i) => {
                            shared = true;
                            i
                        }
                        None => self.add_ts(),
                    };
                    stages.push(("Task", self.ts[t].0.clone(), Some(self.ts[t].1)));
                }
                let candidates: Vec<usize> = (0..self.ms.len()).filter(|i| self.ms[*i].2 == payload).collect();
                let m = if !candidates.is_empty() && self.rng.chance(1, 2) {
                    shared = true;
                    *self.rng.pick(&candidates)
                } else {
                    self.add_ms(payload)
                };
                stages.push(("Mesh", self.ms[m].0.clone(), Some(self.ms[m].1)));
                if kind != Kind::TaskMesh {
                    let has_primitives = self.ms[m].3;
                    let candidates: Vec<usize> = (0..self.ps.len()).filter(|i| !self.ps[*i].1 || has_primitives).collect();
                    let p = if !candidates.is_empty() && self.rng.chance(1, 2) {
                        shared = true;
                        *self.rng.pick(&candidates)
                    } else {
                        let material = has_primitives && self.rng.chance(1, 2);
                        self.add_ps(material)
                    };
                    stages.push(("Pixel", self.ps[p].0.clone(), None));
                }
            }
        }
        if shared {
            self.feature("shared-entry-point");
        }
        // property order of the stages is free
        let mut props: Vec<String> = stages
            .iter()
            .map(|(stage, f, _)| format!("    {}Shader = {};\n", stage, f))
            .collect();
        if self.rng.chance(1, 4) {
            props.reverse();
            stages.reverse();
            self.feature("pipeline:stages-listed-in-reverse");
        }
        let default_group = if self.rng.chance(3, 5) { Some(self.rng.below(4) as u32) } else { None };
        if let Some(g) = default_group {
            let spelled = match self.rng.below(4) {
                0 => format!("{}u", g),
                1 => format!("{} + 0", g),
                _ => format!("{}", g),
            };
            props.push(format!("    DefaultBindGroup = {};\n", spelled));
            self.feature("pipeline:DefaultBindGroup");
        }
        if kind != Kind::Compute {
            if self.rng.chance(1, 2) {
                props.push(format!("    RenderTargetFormat0 = \"{}\";\n", self.rng.pick(FORMATS)));
                if self.rng.chance(1, 3) {
                    props.push(format!("    RenderTargetFormat{} = \"{}\";\n", 1 + self.rng.below(7), self.rng.pick(FORMATS)));
                }
                self.feature("pipeline:RenderTargetFormat");
            }
            if self.rng.chance(1, 3) {
                props.push(format!("    DepthTargetFormat = \"{}\";\n", self.rng.pick(&["D32_FLOAT", "D24_UNORM_S8_UINT", "D16_UNORM"])));
                self.feature("pipeline:DepthTargetFormat");
            }
            if self.rng.chance(1, 3) {
                props.push(format!("    CullMode = \"{}\";\n", self.rng.pick(&["None", "Front", "Back"])));
                self.feature("pipeline:CullMode");
            }
            if self.rng.chance(1, 3) {
                props.push(format!("    WindingOrder = \"{}\";\n", self.rng.pick(&["CounterClockwise", "Clockwise"])));
                self.feature("pipeline:WindingOrder");
            }
            if self.rng.chance(1, 3) {
                let which = if self.rng.chance(1, 2) { String::new() } else { format!("{}", self.rng.below(8)) };
                props.push(format!(
                    "    BlendState{} =\n    {{\n        BlendEnabled = {};\n        SrcBlend = \"{}\";\n        DstBlend = \"{}\";\n        BlendOp = \"{}\";\n        WriteMask = {};\n    }}\n",
                    which,
                    self.rng.pick(&["true", "false"]),
                    self.rng.pick(BLEND_FACTORS),
                    self.rng.pick(BLEND_FACTORS),
                    self.rng.pick(&["Add", "Min", "Max", "RevSubtract"]),
                    self.rng.pick(&["0xFu", "0x7u", "15", "1u"]),
                ));
                self.feature("pipeline:BlendState");
            }
        }
        // the stage properties stay in front; state properties follow in random order
        let nstage = stages.len();
        let mut state: Vec<String> = props.split_off(nstage);
        self.rng.shuffle(&mut state);
        if self.rng.chance(1, 4) && !state.is_empty() {
            // state in front of the stages
            state.append(&mut props);
            props = state;
        } else {
            props.append(&mut state);
        }
        let in_namespace = self.rng.chance(1, 12);
        let block = format!("Pipeline {}\n{{\n{}}}\n", name, props.concat());
        if in_namespace {
            self.text.push_str(&format!("namespace PNs{}\n{{\n{}}} // end PNs\n\n", self.rng.below(3), block));
            self.feature("pipeline:inside-namespace");
        } else {
            self.text.push_str(&block);
            self.text.push('\n');
        }
        self.feature(&format!("pipeline-kind:{}", kind.name()));
        PipelineInfo {
            name: name.to_string(),
            kind,
            stages,
            default_group,
            in_namespace,
        }
    }
}

pub fn generate(rng: &mut Rng, allow_duplicates: bool) -> Generated {
    let n = match rng.below(20) {
        0 | 1 => 0,
        2 | 3 => 1,
        4..=9 => 2,
        10..=15 => 3,
        _ => 4,
    };
    // names: distinct draws from the pool; a duplicate with small probability
    let mut names: Vec<String> = Vec::new();
    let mut pool: Vec<&str> = NAME_POOL.to_vec();
    rng.shuffle(&mut pool);
    // bias towards names which are prefixes of each other: keep the pool order partly sorted
    if rng.chance(1, 2) {
        pool.sort();
        let start = rng.below(pool.len());
        pool.rotate_left(start);
    }
    for i in 0..n {
        names.push(pool[i].to_string());
    }
    let mut duplicate_names = false;
    if allow_duplicates && n >= 2 && rng.chance(1, 16) {
        let from = rng.below(n);
        let mut to = rng.below(n);
        if to == from {
            to = (from + 1) % n;
        }
        names[to] = names[from].clone();
        duplicate_names = true;
    }
    let mut b = Builder {
        rng,
        text: String::new(),
        features: Vec::new(),
        resources: Vec::new(),
        global_uses: Vec::new(),
        helpers: Vec::new(),
        next_res: 0,
        next_cb: 0,
        used_registers: Vec::new(),
        has_payload_global: false,
        cs: Vec::new(),
        vs: Vec::new(),
        ps: Vec::new(),
        ms: Vec::new(),
        ts: Vec::new(),
    };
    b.text.push_str(PRELUDE);
    b.resources(6);
    b.globals(0);
    b.helpers(2);
    let mut pipelines = Vec::new();
    // where the second batch of declarations goes: after pipeline `late_at`
    let late_at = if n >= 2 && b.rng.chance(1, 2) { 1 + b.rng.below(n - 1) } else { usize::MAX };
    // entry points of later pipelines may be declared ahead of earlier pipeline definitions
    let flavour = match b.rng.below(20) {
        0..=8 => 0,
        9..=13 => 1,
        _ => 2,
    };
    b.feature(["file:no-mesh-shaders", "file:mesh-pipelines-only", "file:mixed-kinds"][flavour]);
    if n >= 2 && b.rng.chance(1, 3) {
        match if flavour == 0 { b.rng.below(2) } else if flavour == 1 { 2 + b.rng.below(2) } else { b.rng.below(4) } {
            0 => {
                b.add_cs();
            }
            1 => {
                b.add_vs();
                b.add_ps(false);
            }
            2 => {
                b.add_ms(false);
            }
            _ => {
                b.add_ps(false);
            }
        }
        b.feature("entry-points-declared-ahead");
    }
    for i in 0..n {
        if i == late_at {
            b.resources(3);
            b.globals(1);
            b.helpers(1);
            b.feature("declarations-between-pipelines");
        }
        let kind = match flavour {
            // the Metal backend emits every function of the file and rejects mesh intrinsics unless the selected pipeline
            // has a mesh stage: files without mesh shaders, files with mesh pipelines only, and free mixtures
            0 => *b.rng.pick(&[Kind::Compute, Kind::VertexPixel]),
            1 => *b.rng.pick(&[Kind::MeshPixel, Kind::MeshPixel, Kind::TaskMeshPixel, Kind::TaskMeshPixel, Kind::TaskMesh]),
            _ => match b.rng.below(10) {
                0..=2 => Kind::Compute,
                3..=5 => Kind::VertexPixel,
                6 | 7 => Kind::MeshPixel,
                8 => Kind::TaskMeshPixel,
                _ => Kind::TaskMesh,
            },
        };
        let name = names[i].clone();
        let info = b.pipeline(&name, kind);
        pipelines.push(info);
    }
    if n == 0 {
        // something that uses the resources, and possibly entry-point shaped functions without a pipeline
        if b.rng.chance(1, 2) {
            b.add_cs();
        }
        if b.rng.chance(1, 3) {
            b.add_vs();
            b.add_ps(false);
        }
        let body = b.body(3);
        b.text.push_str(&format!("float4 main_entry(float4 acc)\n{{\n{}    return acc;\n}}\n", body));
    } else if b.rng.chance(1, 4) {
        // trailing declarations after the last pipeline
        b.resources(2);
        b.helpers(1);
        b.feature("declarations-after-last-pipeline");
    }
    if duplicate_names {
        b.feature("duplicate-pipeline-names");
    }
    b.feature(&format!("pipelines:{}", n));
    let mut features = std::mem::take(&mut b.features);
    features.sort();
    Generated {
        text: std::mem::take(&mut b.text),
        pipelines,
        features,
        duplicate_names,
    }
}
