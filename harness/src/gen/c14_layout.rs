//! C14 support: the harness's OWN small lexer for layout purposes (never rssl's), the places where the
//! property allows layout trivia, trivia text, and two generators: valid programs with macros/includes, and
//! programs with exactly one injected error at a known place.
//!
//! Everything here is written from the C/HLSL lexical rules the property refers to:
//!   * trivia = spaces, tabs, newlines, `\`-newline splices, `// ...` and `/* ... */` comments;
//!   * a directive is a logical line whose first token is `#`; it ends at the first real newline;
//!   * "when unsure treat a run as one token": numbers swallow every following letter/digit/`.`, operator
//!     characters form one run, an unterminated string runs to the end of its line.

use crate::rng::Rng;

// ------------------------------------------------------------------------------------------------
// lexer
// ------------------------------------------------------------------------------------------------

#[derive(Clone, Copy, PartialEq, Eq, Debug)]
pub enum PK {
    Tok,
    Space,
    Newline,
    Splice,
    LineComment,
    BlockComment,
    /// `/*` without `*/`: runs to the end of the file
    OpenBlockComment,
}

#[derive(Clone, Copy, Debug)]
pub struct Piece {
    pub kind: PK,
    pub start: usize,
    pub end: usize,
}

fn newline_len(b: &[u8], i: usize) -> usize {
    if i < b.len() && b[i] == b'\n' {
        1
    } else if i + 1 < b.len() && b[i] == b'\r' && b[i + 1] == b'\n' {
        2
    } else {
        0
    }
}

fn splice_len(b: &[u8], i: usize) -> usize {
    if i < b.len() && b[i] == b'\\' {
        let n = newline_len(b, i + 1);
        if n > 0 {
            return 1 + n;
        }
    }
    0
}

fn is_ident_start(c: u8) -> bool {
    c.is_ascii_alphabetic() || c == b'_'
}

fn is_ident_char(c: u8) -> bool {
    c.is_ascii_alphanumeric() || c == b'_'
}

const OP_RUN: &[u8] = b"+-*/%&|^!=<>:";

/// Split a text into tokens and trivia. Every byte belongs to exactly one piece.
pub fn lex(text: &str) -> Vec<Piece> {
    let b = text.as_bytes();
    let n = b.len();
    let mut out = Vec::new();
    let mut i = 0;
    // tokens seen on the current logical line, for `#include <header>`
    let mut line_toks = 0u32;
    let mut first_is_hash = false;
    let mut in_include = false;
    while i < n {
        let c = b[i];
        let start = i;
        let kind;
        if c == b' ' || c == b'\t' {
            while i < n && (b[i] == b' ' || b[i] == b'\t') {
                i += 1;
            }
            kind = PK::Space;
        } else if newline_len(b, i) > 0 {
            i += newline_len(b, i);
            kind = PK::Newline;
            line_toks = 0;
            first_is_hash = false;
            in_include = false;
        } else if splice_len(b, i) > 0 {
            i += splice_len(b, i);
            kind = PK::Splice;
        } else if c == b'/' && i + 1 < n && b[i + 1] == b'/' {
            i += 2;
            while i < n {
                let s = splice_len(b, i);
                if s > 0 {
                    i += s;
                    continue;
                }
                if newline_len(b, i) > 0 {
                    break;
                }
                i += 1;
            }
            kind = PK::LineComment;
        } else if c == b'/' && i + 1 < n && b[i + 1] == b'*' {
            let mut j = i + 2;
            let mut closed = false;
            while j + 1 < n {
                if b[j] == b'*' && b[j + 1] == b'/' {
                    closed = true;
                    break;
                }
                j += 1;
            }
            if closed {
                i = j + 2;
                kind = PK::BlockComment;
            } else {
                i = n;
                kind = PK::OpenBlockComment;
            }
        } else {
            kind = PK::Tok;
            if in_include && c == b'<' {
                // header name: to the closing `>` on this line, else to the end of the line
                let mut j = i + 1;
                let mut end = None;
                while j < n && newline_len(b, j) == 0 {
                    if b[j] == b'>' {
                        end = Some(j + 1);
                        break;
                    }
                    j += 1;
                }
                i = end.unwrap_or(j);
            } else if c == b'"' {
                let mut j = i + 1;
                let mut end = None;
                while j < n && newline_len(b, j) == 0 {
                    if b[j] == b'"' {
                        end = Some(j + 1);
                        break;
                    }
                    j += 1;
                }
                i = end.unwrap_or(j);
            } else if is_ident_start(c) {
                while i < n && is_ident_char(b[i]) {
                    i += 1;
                }
            } else if c.is_ascii_digit() || (c == b'.' && i + 1 < n && b[i + 1].is_ascii_digit()) {
                i += 1;
                while i < n {
                    let d = b[i];
                    // `1.#INF`: the special float spellings of HLSL are one token
                    if is_ident_char(d) || d == b'.' || d == b'#' {
                        i += 1;
                    } else if (d == b'+' || d == b'-') && matches!(b[i - 1], b'e' | b'E' | b'p' | b'P') {
                        i += 1;
                    } else {
                        break;
                    }
                }
            } else if c == b'#' {
                i += if i + 1 < n && b[i + 1] == b'#' { 2 } else { 1 };
            } else if OP_RUN.contains(&c) {
                i += 1;
                while i < n && OP_RUN.contains(&b[i]) {
                    if b[i] == b'/' && i + 1 < n && (b[i + 1] == b'/' || b[i + 1] == b'*') {
                        break;
                    }
                    i += 1;
                }
            } else if c >= 0x80 {
                while i < n && b[i] >= 0x80 {
                    i += 1;
                }
            } else {
                i += 1;
            }
            line_toks += 1;
            let t = &b[start..i];
            if line_toks == 1 {
                first_is_hash = t == b"#";
            } else if line_toks == 2 {
                in_include = first_is_hash && t == b"include";
            }
        }
        out.push(Piece { kind, start, end: i });
    }
    out
}

// ------------------------------------------------------------------------------------------------
// where trivia may go
// ------------------------------------------------------------------------------------------------

pub const A_SPACE: u8 = 1;
/// `/* ... */`, also spanning lines (a comment is one space, wherever it stands)
pub const A_BLOCK: u8 = 2;
pub const A_SPLICE: u8 = 4;
/// trivia that ends a line: blank lines, `// ...` + newline
pub const A_NL: u8 = 8;
/// `// ...` in front of an existing newline / the end of the file
pub const A_EOLC: u8 = 16;
/// start of a directive line: whole extra lines may precede it, then blanks, block comments and splices before the `#`
/// (no `//` comment on the directive's own line: it would swallow the directive)
pub const A_LINES_THEN_SPACE: u8 = 32;

#[derive(Clone, Debug)]
pub struct Point {
    pub offset: usize,
    pub allow: u8,
    /// text of the token before / after the point ("" at the ends of the file)
    pub prev: String,
    pub next: String,
    /// name of the directive when the point is on a directive line (after the `#`)
    pub directive: Option<String>,
    /// classes for signatures
    pub prev_class: String,
    pub next_class: String,
}

/// Names defined with `#define` anywhere in `text` (by the harness lexer)
pub fn defined_macros(text: &str, out: &mut Vec<String>) {
    let pieces = lex(text);
    let mut toks_on_line: Vec<&str> = Vec::new();
    for p in pieces.iter() {
        match p.kind {
            PK::Newline => toks_on_line.clear(),
            PK::Tok => {
                toks_on_line.push(&text[p.start..p.end]);
                if toks_on_line.len() == 3 && toks_on_line[0] == "#" && toks_on_line[1] == "define" {
                    let name = toks_on_line[2].to_string();
                    if !out.contains(&name) {
                        out.push(name);
                    }
                }
            }
            _ => {}
        }
    }
}

/// Spellings of the files named by `#include` lines of `text` (by the harness lexer)
pub fn included_names(text: &str) -> Vec<String> {
    let pieces = lex(text);
    let mut out = Vec::new();
    let mut toks_on_line: Vec<&str> = Vec::new();
    for p in pieces.iter() {
        match p.kind {
            PK::Newline => toks_on_line.clear(),
            PK::Tok => {
                toks_on_line.push(&text[p.start..p.end]);
                if toks_on_line.len() == 3 && toks_on_line[0] == "#" && toks_on_line[1] == "include" {
                    let t = toks_on_line[2];
                    if t.len() >= 2 {
                        out.push(t[1..t.len() - 1].to_string());
                    }
                }
            }
            _ => {}
        }
    }
    out
}

fn tok_class(t: &str, macros: &[String]) -> String {
    let b = t.as_bytes();
    if b.is_empty() {
        return "end".into();
    }
    if is_ident_start(b[0]) {
        if macros.iter().any(|m| m == t) {
            return "macro-name".into();
        }
        return "ident".into();
    }
    if b[0].is_ascii_digit() || (b[0] == b'.' && b.len() > 1) {
        return "number".into();
    }
    if b[0] == b'"' {
        return "string".into();
    }
    if b[0] >= 0x80 {
        return "non-ascii".into();
    }
    t.chars().take(3).collect()
}

/// All places between pieces with what may be inserted there.
/// `avoid_known` additionally removes the places of the recorded findings (newline inside a macro invocation).
pub fn points(text: &str, macros: &[String], avoid_known: bool) -> Vec<Point> {
    let b = text.as_bytes();
    let pieces = lex(text);
    let n = pieces.len();
    // logical lines: [first piece, last piece] inclusive of the terminating Newline piece
    struct Line {
        first_tok: Option<usize>,
        directive: bool,
        dir_name: Option<usize>,
        define_name: Option<usize>,
    }
    let mut line_of_piece = vec![0usize; n + 1];
    let mut lines: Vec<Line> = Vec::new();
    {
        let mut cur = Line { first_tok: None, directive: false, dir_name: None, define_name: None };
        let mut toks = 0;
        for (i, p) in pieces.iter().enumerate() {
            line_of_piece[i] = lines.len();
            match p.kind {
                PK::Newline => {
                    lines.push(cur);
                    cur = Line { first_tok: None, directive: false, dir_name: None, define_name: None };
                    toks = 0;
                }
                PK::Tok => {
                    toks += 1;
                    let t = &text[p.start..p.end];
                    if toks == 1 {
                        cur.first_tok = Some(i);
                        cur.directive = t == "#";
                    } else if toks == 2 && cur.directive {
                        cur.dir_name = Some(i);
                    } else if toks == 3 && cur.directive {
                        let dn = cur.dir_name.map(|d| &text[pieces[d].start..pieces[d].end]);
                        if dn == Some("define") {
                            cur.define_name = Some(i);
                        }
                    }
                }
                _ => {}
            }
        }
        line_of_piece[n] = lines.len();
        lines.push(cur);
    }
    // previous / next token of every point
    let mut prev_tok: Vec<Option<usize>> = vec![None; n + 1];
    let mut last = None;
    for i in 0..=n {
        prev_tok[i] = last;
        if i < n && pieces[i].kind == PK::Tok {
            last = Some(i);
        }
    }
    let mut next_tok: Vec<Option<usize>> = vec![None; n + 1];
    let mut nxt = None;
    for i in (0..=n).rev() {
        if i < n && pieces[i].kind == PK::Tok {
            nxt = Some(i);
        }
        next_tok[i] = nxt;
    }
    let tok_text = |i: Option<usize>| -> &str {
        match i {
            Some(i) => &text[pieces[i].start..pieces[i].end],
            None => "",
        }
    };
    let is_macro = |t: &str| macros.iter().any(|m| m == t);

    let mut out = Vec::with_capacity(n + 1);
    for i in 0..=n {
        let offset = if i < n { pieces[i].start } else { b.len() };
        let prev_piece = if i > 0 { Some(pieces[i - 1]) } else { None };
        let next_piece = if i < n { Some(pieces[i]) } else { None };
        let line_start = match prev_piece {
            None => true,
            Some(p) => p.kind == PK::Newline,
        };
        let line = if line_start { line_of_piece[i] } else { line_of_piece[i - 1] };
        let l = &lines[line];
        let before_eol = match next_piece {
            None => true,
            Some(p) => p.kind == PK::Newline,
        };
        let mut allow: u8;
        let mut directive = None;
        if l.directive {
            let hash = l.first_tok.unwrap();
            if i <= hash {
                allow = if line_start { A_LINES_THEN_SPACE } else { A_SPACE };
            } else {
                directive = Some(tok_text(l.dir_name).to_string());
                allow = A_SPACE | A_BLOCK | A_SPLICE;
                if before_eol {
                    allow |= A_EOLC;
                }
                // `#define NAME(`: adjacency decides between object-like and function-like
                if let Some(dn) = l.define_name {
                    if i == dn + 1 && matches!(next_piece, Some(p) if p.kind == PK::Tok) {
                        allow = 0;
                    }
                }
            }
        } else {
            allow = A_SPACE | A_BLOCK | A_SPLICE | A_NL;
            if before_eol {
                allow |= A_EOLC;
            }
            // a newline in front of a `#` would turn the rest of the line into a directive
            if let Some(nt) = next_tok[i] {
                if line_of_piece[nt] == line && tok_text(Some(nt)).starts_with('#') {
                    allow &= !A_NL;
                }
            }
            if avoid_known {
                let p = tok_text(prev_tok[i]);
                let nx = tok_text(next_tok[i]);
                // KF-C14-1: newline between a macro name and the `(` of its invocation
                if is_macro(p) && nx == "(" {
                    allow &= !A_NL;
                }
                // KF-C14-2: newline inside the empty argument list of a macro invocation
                if p == "(" && nx == ")" {
                    if let Some(pi) = prev_tok[i] {
                        if is_macro(tok_text(prev_tok[pi])) {
                            allow &= !A_NL;
                        }
                    }
                }
            }
        }
        if let Some(p) = prev_piece {
            match p.kind {
                // anything after `//` belongs to the comment
                PK::LineComment | PK::OpenBlockComment => allow = 0,
                PK::Tok => {
                    let c = b[p.end - 1];
                    // `<` `>`: adjacency is significant by design; `/` `\` CR: the inserted text would combine with them
                    if matches!(c, b'<' | b'>' | b'/' | b'\\' | b'\r') {
                        allow = 0;
                    }
                }
                _ => {}
            }
        }
        let prev = tok_text(prev_tok[i]).to_string();
        let next = tok_text(next_tok[i]).to_string();
        let mut prev_class = tok_class(&prev, macros);
        if prev == "(" {
            if let Some(pi) = prev_tok[i] {
                if is_macro(tok_text(prev_tok[pi])) {
                    prev_class = "macro-name(".into();
                }
            }
        }
        out.push(Point {
            offset,
            allow,
            prev_class,
            next_class: tok_class(&next, macros),
            prev,
            next,
            directive,
        });
    }
    out
}

/// Offsets at which whole lines can be inserted without touching any construct: the start of the file and
/// the position after every real newline (not inside comments or spliced lines, by construction of `lex`)
pub fn line_starts(text: &str) -> Vec<usize> {
    let mut out = vec![0];
    let pieces = lex(text);
    for p in pieces.iter() {
        if p.kind == PK::Newline {
            out.push(p.end);
        }
    }
    out
}

// ------------------------------------------------------------------------------------------------
// trivia text
// ------------------------------------------------------------------------------------------------

const BLOCK_WORDS: &[&str] = &[
    "", "c", " note ", " x < y > z ", " #define N 1 ", " \"quoted ", " it's ", " // nested ", " /* open ", " ; } ", " int a = 1; ", " \u{e9}\u{2192} ", "*", " F(x) ",
    " #include <q> ", "/", "/ x ", "// x ", "/ /* y ", "**", " *", "/ 100 + ",
];
/// Comment texts of the position monitor: no quotes / angle brackets (rssl words an unterminated string or header name
/// differently depending on whether a closing character exists anywhere later in the file)
const PLAIN_WORDS: &[&str] = &["", " c", " note ", " #define N 1 ", " it's ", " ; } ", " int a = 1; ", " \u{e9}\u{2192} ", " F(x) ", " * "];
const LINE_WORDS: &[&str] = &["", " c", " note", " a < b > c", " #define N 1", " \"quoted", " it's", " /* open", " */ close", " ; }", " int a = 1;", " \u{e9}\u{2192}", " F(", "/"];

#[derive(Clone, Copy, PartialEq, Eq, Debug)]
pub enum TK {
    Space,
    Tab,
    Block,
    BlockMultiLine,
    Splice,
    LineComment,
    BlankLine,
    EolComment,
}

pub const ALL_TK: [TK; 8] = [TK::Space, TK::Tab, TK::Block, TK::BlockMultiLine, TK::Splice, TK::LineComment, TK::BlankLine, TK::EolComment];

impl TK {
    pub fn name(self) -> &'static str {
        match self {
            TK::Space => "space",
            TK::Tab => "tab",
            TK::Block => "block-comment",
            TK::BlockMultiLine => "multi-line-block-comment",
            TK::Splice => "splice",
            TK::LineComment => "line-comment",
            TK::BlankLine => "newline",
            TK::EolComment => "eol-comment",
        }
    }
    fn needs(self) -> u8 {
        match self {
            TK::Space | TK::Tab => A_SPACE,
            TK::Block | TK::BlockMultiLine => A_BLOCK,
            TK::Splice => A_SPLICE,
            TK::LineComment | TK::BlankLine => A_NL,
            TK::EolComment => A_EOLC,
        }
    }
}

fn one_trivia(rng: &mut Rng, k: TK, nl: &str) -> String {
    match k {
        TK::Space => " ".repeat(1 + rng.below(3)),
        TK::Tab => "\t".to_string(),
        TK::Block => format!("/*{}*/", rng.pick(BLOCK_WORDS)),
        TK::BlockMultiLine => format!("/*{}{}{}*/", rng.pick(BLOCK_WORDS), nl, rng.pick(BLOCK_WORDS)),
        TK::Splice => format!("\\{}", nl),
        TK::LineComment => format!("//{}{}", rng.pick(LINE_WORDS), nl),
        TK::BlankLine => nl.to_string(),
        TK::EolComment => format!("//{}", rng.pick(LINE_WORDS)),
    }
}

/// A whole line of trivia (ends with a newline)
fn whole_line(rng: &mut Rng, nl: &str) -> String {
    match rng.below(7) {
        0 => nl.to_string(),
        1 => format!("  {}", nl),
        2 => format!("\t{}", nl),
        3 => format!("//{}{}", rng.pick(LINE_WORDS), nl),
        4 => format!("/*{}*/{}", rng.pick(BLOCK_WORDS), nl),
        5 => format!("  /*{}{}{}*/ //{}{}", rng.pick(BLOCK_WORDS), nl, rng.pick(BLOCK_WORDS), rng.pick(LINE_WORDS), nl),
        _ => format!(" \\{}{}", nl, nl),
    }
}

/// Trivia for one point. `only` restricts the kind (single-kind variants give precise signatures).
/// Returns None when nothing of the wanted kind is allowed here.
pub fn trivia_for(rng: &mut Rng, p: &Point, only: Option<TK>, nl: &str) -> Option<(String, &'static str)> {
    if p.allow == 0 {
        return None;
    }
    if p.allow & A_LINES_THEN_SPACE != 0 {
        // start of a directive line
        match only {
            Some(TK::Space) => return Some((" ".repeat(1 + rng.below(3)), "space-before-#")),
            Some(TK::Tab) => return Some(("\t".into(), "tab-before-#")),
            Some(TK::BlankLine) => return Some((nl.to_string(), "line-before-directive")),
            Some(TK::LineComment) => return Some((format!("//{}{}", rng.pick(LINE_WORDS), nl), "line-before-directive")),
            // a comment is one space and a splice joins two physical lines before directives are recognised (C translation
            // phases 2 and 3 come before phase 4): both may stand between the start of the line and the `#`
            Some(TK::Block) => return Some((one_trivia(rng, TK::Block, nl), "block-comment-before-#")),
            Some(TK::BlockMultiLine) => return Some((one_trivia(rng, TK::BlockMultiLine, nl), "multi-line-block-comment-before-#")),
            Some(TK::Splice) => return Some((one_trivia(rng, TK::Splice, nl), "splice-before-#")),
            Some(_) => return None,
            None => {}
        }
        let mut s = String::new();
        for _ in 0..rng.below(3) {
            s.push_str(&whole_line(rng, nl));
        }
        if s.is_empty() || rng.chance(1, 2) {
            for _ in 0..1 + rng.below(2) {
                let k = *rng.pick(&[TK::Space, TK::Space, TK::Tab, TK::Block, TK::BlockMultiLine, TK::Splice]);
                s.push_str(&one_trivia(rng, k, nl));
            }
        }
        return Some((s, "lines-before-directive"));
    }
    if let Some(k) = only {
        if p.allow & k.needs() == 0 {
            return None;
        }
        return Some((one_trivia(rng, k, nl), k.name()));
    }
    // mixed: one to three items; an eol comment can only come last
    let mut s = String::new();
    let items = 1 + rng.below(3);
    let mut label = "mixed";
    for n in 0..items {
        let k = *rng.pick(&ALL_TK);
        if p.allow & k.needs() == 0 {
            continue;
        }
        if k == TK::EolComment {
            s.push_str(&one_trivia(rng, k, nl));
            if items == 1 {
                label = k.name();
            }
            return Some((s, label));
        }
        s.push_str(&one_trivia(rng, k, nl));
        if items == 1 && n == 0 {
            label = k.name();
        }
    }
    if s.is_empty() {
        return None;
    }
    Some((s, label))
}

/// `k` physical lines of trivia (exactly k newline characters), for the position monitor
pub fn k_lines(rng: &mut Rng, k: usize, nl: &str) -> String {
    let mut s = String::new();
    let mut left = k;
    while left > 0 {
        let choice = rng.below(9);
        match choice {
            0 | 1 => {
                s.push_str(nl);
                left -= 1;
            }
            2 => {
                s.push_str(if rng.chance(1, 2) { "   " } else { "\t" });
                s.push_str(nl);
                left -= 1;
            }
            3 | 4 => {
                s.push_str(&format!("//{}{}", rng.pick(PLAIN_WORDS), nl));
                left -= 1;
            }
            5 => {
                s.push_str(&format!("\t/*{}*/ {}", rng.pick(PLAIN_WORDS), nl));
                left -= 1;
            }
            6 if left >= 3 => {
                s.push_str(&format!("/*{}{} *{}{} */{}", rng.pick(PLAIN_WORDS), nl, rng.pick(PLAIN_WORDS), nl, nl));
                left -= 3;
            }
            7 if left >= 2 => {
                // a line comment continued over a splice: two physical lines
                s.push_str(&format!("// spliced \\{}   still the comment{}", nl, nl));
                left -= 2;
            }
            8 if left >= 2 => {
                // an empty logical line made of a splice: two physical lines
                s.push_str(&format!("  \\{}{}", nl, nl));
                left -= 2;
            }
            _ => {
                s.push_str(nl);
                left -= 1;
            }
        }
    }
    s
}

// ------------------------------------------------------------------------------------------------
// generated programs with macros and includes
// ------------------------------------------------------------------------------------------------

/// A group of lines that belongs together
#[derive(Clone, Debug)]
pub struct Item {
    pub lines: Vec<String>,
    /// blank / comment lines may be put between the lines of the item (false for spliced defines)
    pub splittable: bool,
}

fn item(lines: &[String]) -> Item {
    Item { lines: lines.to_vec(), splittable: true }
}

fn item1(line: String) -> Item {
    Item { lines: vec![line], splittable: true }
}

#[derive(Clone, Debug)]
pub struct GenFile {
    pub name: String,
    pub items: Vec<Item>,
    pub crlf: bool,
    pub final_newline: bool,
}

impl GenFile {
    pub fn nl(&self) -> &'static str {
        if self.crlf {
            "\r\n"
        } else {
            "\n"
        }
    }
    pub fn render(&self) -> String {
        let mut lines: Vec<&str> = Vec::new();
        for it in &self.items {
            for l in &it.lines {
                lines.push(l);
            }
        }
        let mut s = lines.join(self.nl());
        if self.final_newline && !lines.is_empty() {
            s.push_str(self.nl());
        }
        s
    }
    /// 1-based line number of the first line of item `index`
    pub fn line_of_item(&self, index: usize) -> usize {
        1 + self.items[..index].iter().map(|i| i.lines.len()).sum::<usize>()
    }
}

/// What is visible at some point of a file (for references from later items)
#[derive(Clone, Debug, Default)]
struct Scope {
    const_macros: Vec<String>,
    /// object-like macros whose body is one integer literal (all that rssl's #if evaluates)
    plain_macros: Vec<String>,
    bin_macros: Vec<String>,
    un_macros: Vec<String>,
    const_globals: Vec<String>,
    int_functions: Vec<String>,
}

impl Scope {
    fn add(&mut self, other: &Scope) {
        for (a, b) in [
            (&mut self.const_macros, &other.const_macros),
            (&mut self.plain_macros, &other.plain_macros),
            (&mut self.bin_macros, &other.bin_macros),
            (&mut self.un_macros, &other.un_macros),
            (&mut self.const_globals, &other.const_globals),
            (&mut self.int_functions, &other.int_functions),
        ] {
            for x in b {
                if !a.contains(x) {
                    a.push(x.clone());
                }
            }
        }
    }
}

pub struct ProgGen {
    counter: u32,
    pub features: Vec<&'static str>,
}

#[derive(Clone, Debug)]
pub struct GenProgram {
    pub files: Vec<GenFile>,
    pub entry: String,
    pub features: Vec<&'static str>,
}

impl GenProgram {
    pub fn to_files(&self) -> crate::rs::Files {
        crate::rs::Files(self.files.iter().map(|f| (f.name.clone(), f.render())).collect())
    }
    pub fn file_index(&self, name: &str) -> Option<usize> {
        self.files.iter().position(|f| f.name == name)
    }
}

impl ProgGen {
    fn fresh(&mut self) -> u32 {
        self.counter += 1;
        self.counter
    }

    fn feature(&mut self, f: &'static str) {
        if !self.features.contains(&f) {
            self.features.push(f);
        }
    }

    /// A constant integer expression over what is in scope
    fn const_expr(&mut self, rng: &mut Rng, scope: &Scope, depth: u32) -> String {
        let leaf = depth == 0 || rng.chance(2, 5);
        if leaf {
            let c = rng.below(4);
            if c == 0 && !scope.const_macros.is_empty() {
                return rng.pick(&scope.const_macros).clone();
            }
            if c == 1 && !scope.const_globals.is_empty() {
                return rng.pick(&scope.const_globals).clone();
            }
            return format!("{}", 1 + rng.below(9));
        }
        match rng.below(8) {
            0 | 7 if !scope.bin_macros.is_empty() => {
                self.feature("use:function-like-macro");
                let m = rng.pick(&scope.bin_macros).clone();
                let a = self.const_expr(rng, scope, depth - 1);
                let b = self.const_expr(rng, scope, depth - 1);
                let sep = *rng.pick(&[", ", ",", " , "]);
                let gap = *rng.pick(&["", "", " "]);
                format!("{}{}({}{}{})", m, gap, a, sep, b)
            }
            1 if !scope.un_macros.is_empty() => {
                self.feature("use:function-like-macro");
                let m = rng.pick(&scope.un_macros).clone();
                let a = self.const_expr(rng, scope, depth - 1);
                format!("{}({})", m, a)
            }
            2 => {
                let a = self.const_expr(rng, scope, depth - 1);
                let b = self.const_expr(rng, scope, depth - 1);
                let c = self.const_expr(rng, scope, depth - 1);
                let op = *rng.pick(&["<", ">", "<=", ">=", "==", "!="]);
                format!("(({}) {} ({}) ? {} : {})", a, op, b, c, 1 + rng.below(5))
            }
            3 => {
                let a = self.const_expr(rng, scope, depth - 1);
                format!("(({}) {} {})", a, rng.pick(&["<<", ">>"]), rng.below(3))
            }
            _ => {
                let a = self.const_expr(rng, scope, depth - 1);
                let b = self.const_expr(rng, scope, depth - 1);
                let op = *rng.pick(&["+", "*", "-", "+", "|", "&"]);
                if rng.chance(1, 3) {
                    format!("({}{}{})", a, op, b)
                } else {
                    format!("({} {} {})", a, op, b)
                }
            }
        }
    }

    /// One valid item; extends `scope`
    fn valid_item(&mut self, rng: &mut Rng, scope: &mut Scope, want_macro: bool) -> Item {
        let n = self.fresh();
        match if want_macro { 5 + rng.below(4) } else { rng.below(20) } {
            0 | 1 => {
                let e = self.const_expr(rng, scope, 2);
                let name = format!("g{}", n);
                scope.const_globals.push(name.clone());
                self.feature("decl:const-global");
                item1(format!("static const int {} = {};", name, e))
            }
            2 => {
                let e = self.const_expr(rng, scope, 2);
                let name = format!("f{}", n);
                scope.int_functions.push(name.clone());
                self.feature("decl:function");
                item1(format!("int {}(int a, int b) {{ return a < b ? a + {} : b >> 1; }}", name, e))
            }
            3 => {
                let e = self.const_expr(rng, scope, 1);
                let name = format!("f{}", n);
                scope.int_functions.push(name.clone());
                self.feature("decl:multi-line-function");
                item(&[
                    format!("int {}(int a, int b)", name),
                    "{".to_string(),
                    format!("\tint r = a + b; // tab indent"),
                    format!("    if (r > {} && a <= b) {{ r <<= 1; }}", e),
                    "\treturn r;".to_string(),
                    "}".to_string(),
                ])
            }
            4 => {
                self.feature("decl:struct");
                item(&[format!("struct S{}", n), "{".into(), "    float x;".into(), "\tint y;".into(), "};".into()])
            }
            5 | 6 => {
                let name = format!("M{}", n);
                let plain = rng.chance(1, 2) || scope.const_macros.is_empty();
                let body = if plain { format!("{}", 1 + rng.below(9)) } else { format!("({} + 1)", rng.pick(&scope.const_macros)) };
                if plain {
                    scope.plain_macros.push(name.clone());
                }
                scope.const_macros.push(name.clone());
                self.feature("define:object-like");
                let gap = *rng.pick(&[" ", "  ", "\t"]);
                item1(format!("#define {}{}{}", name, gap, body))
            }
            7 => {
                let name = format!("ADD{}", n);
                scope.bin_macros.push(name.clone());
                self.feature("define:function-like");
                let form = *rng.pick(&["(a, b) ((a) + (b))", "(a,b) ((a)*(b))", "( a , b ) ((a) > (b) ? (a) : (b))", "(a, b) (a | b)"]);
                item1(format!("#define {}{}", name, form))
            }
            8 => {
                let name = format!("SQ{}", n);
                scope.un_macros.push(name.clone());
                self.feature("define:function-like");
                item1(format!("#define {}(x) ((x) * (x))", name))
            }
            9 => {
                // multi-line define with splices that declares a function
                let name = format!("DECL{}", n);
                let f = format!("fd{}", n);
                scope.int_functions.push(f.clone());
                self.feature("define:multi-line-splices");
                Item {
                    lines: vec![
                        format!("#define {}(name, v) \\", name),
                        "    int name(int q, int unused) \\".into(),
                        "    { \\".into(),
                        "\treturn q + (v); \\".into(),
                        "    }".into(),
                        format!("{}({}, {})", name, f, 1 + rng.below(9)),
                    ],
                    splittable: false,
                }
            }
            10 => {
                // token pasting that makes an identifier and a type name
                self.feature("define:concat");
                let cat = format!("CAT{}", n);
                let g = format!("gc{}", n);
                scope.const_globals.push(g.clone());
                item(&[
                    format!("#define {}(a, b) a##b", cat),
                    format!("#define VEC{}(k) float ## k", n),
                    format!("static const int {}(gc, {}) = {};", cat, n, 1 + rng.below(9)),
                    format!("VEC{}(3) fv{}(float a) {{ return {}(flo, at3)(a, a, a); }}", n, n, cat),
                    // pasting with an argument that is left empty (a placemarker, whatever white space the argument holds)
                    format!("#define SUFFIXED{}(t, name, suffix) static const t name ## suffix = 2", n),
                    format!("SUFFIXED{}(int, gd{}, );", n, n),
                    format!("SUFFIXED{}(int, ge{}, _x);", n, n),
                    format!("static const int gf{} = {}(, 7) + gd{};", n, cat, n),
                ])
            }
            11 => {
                // conditional groups; every branch declares the same name
                self.feature("directive:conditional");
                let name = format!("g{}", n);
                let cond = if !scope.plain_macros.is_empty() && rng.chance(2, 3) {
                    let m = rng.pick(&scope.plain_macros).clone();
                    match rng.below(3) {
                        0 => format!("#if {} > 2", m),
                        1 => format!("#if defined({}) && {} >= 1", m, m),
                        _ => format!("#ifdef {}", m),
                    }
                } else {
                    rng.pick(&["#if 0", "#if 1", "#ifndef NOT_DEFINED_ANYWHERE", "#if defined UNDEFINED_X || 1", "#if !defined(UNDEFINED_Y)"]).to_string()
                };
                scope.const_globals.push(name.clone());
                let mut lines = vec![cond, format!("static const int {} = 1;", name)];
                if rng.chance(1, 2) {
                    lines.push("#elif 1".into());
                    lines.push(format!("  static const int {} = 2;", name));
                }
                lines.push("#else".into());
                lines.push(format!("\tstatic const int {} = 3;", name));
                lines.push(if rng.chance(1, 2) { "#endif".into() } else { "#endif // done".into() });
                item(&lines)
            }
            12 => {
                self.feature("directive:undef");
                let name = format!("M{}", n);
                scope.const_macros.push(name.clone());
                scope.plain_macros.push(name.clone());
                item(&[format!("#define {} 1", name), format!("#undef {}", name), format!("#  define {} 2", name)])
            }
            13 => {
                self.feature("decl:resources-and-templates");
                scope.int_functions.push(format!("ft{}", n));
                item(&[
                    format!("Texture2D<float4> tex{};", n),
                    format!("StructuredBuffer<uint> sb{};", n),
                    format!("template<typename T> T tt{}(T a) {{ return a + a; }}", n),
                    format!("int ft{}(int a, int b) {{ return tt{}<int>(a) + (int)sb{}[0] + (int)tex{}.Load(int3(0, 0, 0)).x; }}", n, n, n, n),
                ])
            }
            14 => {
                self.feature("layout:comments-in-base");
                item(&["// a comment line".to_string(), "/* a block".to_string(), "   comment */".to_string(), "".to_string()])
            }
            17 | 18 if !scope.bin_macros.is_empty() => {
                // function-like macros applied to run time values, nested calls and parenthesised commas in arguments
                self.feature("use:function-like-macro-in-function");
                let m = rng.pick(&scope.bin_macros).clone();
                let inner = if !scope.un_macros.is_empty() { format!("{}(b)", rng.pick(&scope.un_macros)) } else { "(b)".to_string() };
                let call = if !scope.int_functions.is_empty() { format!("{}(a, b)", rng.pick(&scope.int_functions)) } else { "(a, b).x".replace("(a, b)", "int2(a, b)") };
                let name = format!("f{}", n);
                let l = item(&[format!("int {}(int a, int b) {{", name), format!("    return {}({}, {}) + {} ( a ,", m, call, inner, m), "        b );".to_string(), "}".to_string()]);
                scope.int_functions.push(name);
                l
            }
            19 if !scope.un_macros.is_empty() => {
                // an object-like macro that expands to the name of a function-like macro: the call reaches into the following text
                self.feature("use:macro-name-from-expansion");
                let m = rng.pick(&scope.un_macros).clone();
                let name = format!("g{}", n);
                scope.const_globals.push(name.clone());
                if rng.chance(1, 2) {
                    item(&[format!("#define APPLY{} {}", n, m), format!("static const int {} = APPLY{}(3) + APPLY{} (2);", name, n, n)])
                } else {
                    // ... or a function-like macro that hands its argument (the name) back
                    self.feature("use:macro-name-from-argument");
                    item(&[format!("#define APPLY{}(f) f", n), format!("static const int {} = APPLY{}({})(3) + APPLY{}( {} ) (2);", name, n, m, n, m)])
                }
            }
            15 if !scope.int_functions.is_empty() => {
                self.feature("use:call");
                let f = rng.pick(&scope.int_functions).clone();
                let a = self.const_expr(rng, scope, 1);
                let b = self.const_expr(rng, scope, 1);
                let name = format!("f{}", n);
                let l = item(&[format!("int {}(int a, int b) {{", name), format!("    return {}({},", f, a), format!("        {}) + a;", b), "}".to_string()]);
                scope.int_functions.push(name);
                l
            }
            _ => {
                self.feature("define:zero-arg");
                let z = format!("ZERO{}", n);
                let name = format!("g{}", n);
                scope.const_globals.push(name.clone());
                item(&[format!("#define {}() 0", z), format!("static const int {} = {}() + {}( );", name, z, z)])
            }
        }
    }

    fn header(&mut self, rng: &mut Rng, name: &str, includes: &[(String, String, Scope)], items: usize) -> (GenFile, Scope) {
        let mut scope = Scope::default();
        let mut out = Vec::new();
        match rng.below(3) {
            0 => {
                self.feature("directive:pragma-once");
                out.push(item1("#pragma once".into()));
            }
            _ => {}
        }
        let mut pending: Vec<&(String, String, Scope)> = includes.iter().collect();
        for i in 0..items {
            if !pending.is_empty() && (rng.chance(1, 2) || i + 1 == items) {
                let (spelling, _, s) = pending.remove(0);
                out.push(item1(spelling.clone()));
                scope.add(s);
            }
            let want_macro = i < 2 && rng.chance(2, 3);
            out.push(self.valid_item(rng, &mut scope, want_macro));
        }
        for (spelling, _, s) in pending {
            out.push(item1(spelling.clone()));
            scope.add(s);
        }
        (
            GenFile {
                name: name.to_string(),
                items: out,
                crlf: rng.chance(1, 5),
                final_newline: !rng.chance(1, 4),
            },
            scope,
        )
    }

    /// A valid program: main.rssl plus 0..3 headers (one of them nested in a sub directory)
    pub fn generate(rng: &mut Rng) -> GenProgram {
        let mut g = ProgGen { counter: 0, features: Vec::new() };
        let mut files = Vec::new();
        let shape = rng.below(5);
        let mut main_includes: Vec<(String, String, Scope)> = Vec::new();
        if shape >= 2 {
            // leaf header in a sub directory, included by a header next to it (relative to the includer)
            let n_items = 2 + rng.below(3);
            let (leaf, leaf_scope) = g.header(rng, "inc/sub/leaf.h", &[], n_items);
            let spelling = if rng.chance(1, 2) { "#include \"sub/leaf.h\"".to_string() } else { "#  include   \"sub/leaf.h\"   // nested".to_string() };
            let n_items = 2 + rng.below(3);
            let (mid, mid_scope) = g.header(rng, "inc/mid.h", &[(spelling, "inc/sub/leaf.h".into(), leaf_scope)], n_items);
            files.push(leaf);
            files.push(mid);
            g.feature("include:nested");
            main_includes.push(("#include \"inc/mid.h\"".into(), "inc/mid.h".into(), mid_scope));
        }
        if shape >= 1 && shape != 2 {
            let n_items = 2 + rng.below(4);
            let (h, s) = g.header(rng, "util.h", &[], n_items);
            files.push(h);
            g.feature("include:angle");
            main_includes.push((if rng.chance(1, 2) { "#include <util.h>".into() } else { "#include \"util.h\"".into() }, "util.h".into(), s));
        }
        if shape == 4 {
            // the same header twice: relies on #pragma once / harmless redefinition -> only headers that have pragma once
            if let Some(h) = files.iter().find(|f| f.name == "util.h") {
                if h.items.first().map(|i| i.lines[0] == "#pragma once").unwrap_or(false) {
                    g.feature("include:twice");
                    main_includes.push(("#include \"util.h\"".into(), "util.h".into(), Scope::default()));
                }
            }
        }
        let n_items = 3 + rng.below(6);
        let (mut main, _) = g.header(rng, "main.rssl", &main_includes, n_items);
        // main.rssl must not start with #pragma once of its own (harmless, but keep it plain)
        if main.items.first().map(|i| i.lines[0] == "#pragma once").unwrap_or(false) {
            main.items.remove(0);
        }
        files.push(main);
        GenProgram { files, entry: "main.rssl".into(), features: g.features }
    }
}

// ------------------------------------------------------------------------------------------------
// programs with exactly one injected error
// ------------------------------------------------------------------------------------------------

#[derive(Clone, Debug)]
pub struct Injected {
    pub program: GenProgram,
    pub kind: &'static str,
    /// (file, 1-based line) pairs at which a diagnostic for the construct may legitimately point
    pub acceptable: Vec<(String, usize)>,
    /// (file, 1-based line of the construct): lines are inserted before this line
    pub construct: (String, usize),
    /// a spelling that occurs exactly once on an acceptable line: when the diagnostic is on that line its column must be here
    pub unique: Vec<String>,
    /// the diagnostic for this kind is known to carry no position at all (counted, not judged)
    pub may_be_unlocated: bool,
}

pub const ERROR_KINDS: &[&str] = &[
    "assign-const",
    "undeclared-ident",
    "unknown-type",
    "wrong-arg-count",
    "bad-swizzle",
    "missing-semicolon",
    "stray-token",
    "unbalanced-paren",
    "bad-char",
    "bad-float-suffix",
    "int-too-large",
    "unterminated-string",
    "unknown-directive",
    "missing-include",
    "bad-define",
    "bad-if",
    "bad-ifdef",
    "else-junk",
    "endif-junk",
    "bad-pragma",
    "bad-undef",
    "concat-no-right",
    "macro-body-undeclared",
    "macro-arg-undeclared",
    "macro-body-assign-const",
    "unterminated-if",
    "stray-endif",
    "macro-arg-count",
];

/// Error on a token made by `##`: recorded finding KF-C14-3, only used by its witness
pub const KIND_CONCAT: &str = "concat-undeclared";

impl Injected {
    /// Take a valid program and put one erroneous construct into one of its files.
    /// `last_line`: put the construct on the very last line of its file, without a trailing newline (only kinds
    /// whose diagnostic lies inside the construct's own line).
    pub fn generate(rng: &mut Rng, kind: &'static str) -> Injected {
        let mut program = ProgGen::generate(rng);
        let n = 9000 + rng.below(900) as u32;
        let fi = rng.below(program.files.len());
        let fname = program.files[fi].name.clone();
        // error lines; `blame` = index of the line inside the item the diagnostic should be on
        let mut lines: Vec<String> = Vec::new();
        let mut blame = 0usize;
        let mut also_next_line = false;
        let mut unique: Vec<String> = Vec::new();
        let mut may_be_unlocated = false;
        let mut self_contained_line = true;
        // a second item placed earlier (macro definitions): (lines, is acceptable location)
        let mut earlier: Option<(Vec<String>, bool)> = None;
        let indent = *rng.pick(&["", "", "    ", "\t", "\t\t", " \t "]);
        match kind {
            "assign-const" => lines.push(format!("{}void e{}() {{ const int c = 1; c = 2; }}", indent, n)),
            "undeclared-ident" => {
                unique.push(format!("undeclared_{}", n));
                lines.push(format!("{}int e{}() {{ return\tundeclared_{}; }}", indent, n, n));
            }
            "unknown-type" => {
                unique.push(format!("UnknownType{}", n));
                lines.push(format!("{}UnknownType{} e{};", indent, n, n));
            }
            "wrong-arg-count" => lines.push(format!("{}int e{}() {{ return abs(1, 2); }}", indent, n)),
            "bad-swizzle" => lines.push(format!("{}int e{}() {{ int2 v = int2(1, 2); return v.q; }}", indent, n)),
            "missing-semicolon" => {
                lines.push(format!("{}static const int e{} = 5", indent, n));
                lines.push(format!("static const int e{}b = 6;", n));
                also_next_line = true;
                self_contained_line = false;
            }
            "stray-token" => lines.push(format!("{}static const int e{} = 5 5;", indent, n)),
            "unbalanced-paren" => lines.push(format!("{}static const int e{} = (1 + 2;", indent, n)),
            "bad-char" => {
                unique.push("$".into());
                lines.push(format!("{}static const int e{} = 5 $ 3;", indent, n));
            }
            "bad-float-suffix" => lines.push(format!("{}static const float e{} = 1.0q;", indent, n)),
            "int-too-large" => lines.push(format!("{}static const int e{} = 99999999999999999999999;", indent, n)),
            "unterminated-string" => lines.push(format!("{}static const int e{} = \"abc;", indent, n)),
            "unknown-directive" => lines.push(format!("{}#frobnicate e{}", indent, n)),
            "missing-include" => lines.push(format!("{}#include \"no_such_{}.h\"", indent, n)),
            "bad-define" => lines.push(format!("{}#define 3x{}", indent, n)),
            "bad-if" => {
                lines.push(format!("{}#if 1 +", indent));
                lines.push("#endif".into());
            }
            "bad-ifdef" => {
                lines.push(format!("{}#ifdef", indent));
                lines.push("#endif".into());
            }
            "else-junk" => {
                lines.push("#if 1".into());
                lines.push(format!("{}#else junk{}", indent, n));
                lines.push("#endif".into());
                blame = 1;
            }
            "endif-junk" => {
                lines.push("#if 1".into());
                lines.push(format!("{}#endif junk{}", indent, n));
                blame = 1;
            }
            "bad-pragma" => lines.push(format!("{}#pragma frob{}", indent, n)),
            "bad-undef" => lines.push(format!("{}#undef 3", indent)),
            "concat-no-right" => {
                earlier = Some((vec![format!("#define CNR{}(x) x ##", n)], true));
                lines.push(format!("{}static const int e{} = CNR{}(1);", indent, n, n));
            }
            "macro-body-undeclared" => {
                unique.push(format!("undeclared_{}", n));
                unique.push(format!("BAD{}", n));
                earlier = Some((vec![format!("#define BAD{} (1 + undeclared_{})", n, n)], true));
                lines.push(format!("{}int e{}() {{ return BAD{}; }}", indent, n, n));
            }
            "macro-arg-undeclared" => {
                unique.push(format!("undeclared_{}", n));
                unique.push(format!("USE{}", n));
                earlier = Some((vec![format!("#define USE{}(x) ((x) + 1)", n)], true));
                lines.push(format!("{}int e{}() {{ return USE{}(undeclared_{}); }}", indent, n, n, n));
            }
            "macro-body-assign-const" => {
                earlier = Some((vec![format!("#define SETC{}(v) v = 2", n)], true));
                lines.push(format!("{}void e{}() {{ const int c = 1; SETC{}(c); }}", indent, n, n));
            }
            KIND_CONCAT => {
                earlier = Some((vec![format!("#define PASTE{}(a, b) a##b", n)], true));
                lines.push(format!("{}int e{}() {{ return PASTE{}(undecl, ared_{}); }}", indent, n, n, n));
            }
            "unterminated-if" => {
                lines.push("#if 1".into());
                may_be_unlocated = true;
            }
            "stray-endif" => {
                lines.push("#endif".into());
                may_be_unlocated = true;
            }
            _ => {
                // "macro-arg-count"
                earlier = Some((vec![format!("#define ONE{}(x) x", n)], true));
                lines.push(format!("{}static const int e{} = ONE{}(1, 2);", indent, n, n));
                may_be_unlocated = true;
            }
        }
        // macro kinds, one time in three: the definition in a header, the use at the end of the entry file
        let main_index = program.files.len() - 1;
        if earlier.is_some() && program.files.len() > 1 && rng.chance(1, 3) {
            let (elines, _) = earlier.clone().unwrap();
            let hi = rng.below(main_index);
            let hname = program.files[hi].name.clone();
            let lo = if program.files[hi].items.first().map(|i| i.lines[0] == "#pragma once").unwrap_or(false) { 1 } else { 0 };
            let epos = lo + rng.below(program.files[hi].items.len() - lo + 1);
            program.files[hi].items.insert(epos, Item { lines: elines, splittable: false });
            let m = &mut program.files[main_index];
            m.items.push(Item { lines: lines.clone(), splittable: false });
            let use_item = m.items.len() - 1;
            m.items.push(item1(format!("static const int tail{} = 1;", n)));
            let mname = m.name.clone();
            let use_line = m.line_of_item(use_item) + blame;
            let def_line = program.files[hi].line_of_item(epos);
            return Injected {
                program,
                kind,
                acceptable: vec![(hname, def_line), (mname.clone(), use_line)],
                construct: (mname, use_line),
                unique,
                may_be_unlocated,
            };
        }
        let items_len = program.files[fi].items.len();
        // the last line variant: construct is the final item of the file and the file has no trailing newline
        let at_end = self_contained_line && !may_be_unlocated && lines.len() == 1 && rng.chance(1, 6);
        let pos = if at_end { items_len } else { rng.below(items_len.max(1)) };
        // "#pragma once" stays first
        let pos = if pos == 0 && items_len > 0 && program.files[fi].items[0].lines[0] == "#pragma once" { 1 } else { pos };
        program.files[fi].items.insert(pos, Item { lines: lines.clone(), splittable: false });
        if at_end {
            program.files[fi].final_newline = false;
        } else if pos + 1 == program.files[fi].items.len() {
            // never the last thing in its file: the token after the construct must be in the same file
            program.files[fi].items.push(item1(format!("static const int tail{} = 1;", n)));
        }
        let mut acceptable = Vec::new();
        let mut construct_item = pos;
        if let Some((elines, ok)) = &earlier {
            // the definition goes before the use, in the same file (at an earlier item) or in a header this file includes
            let epos = {
                let lo = if program.files[fi].items.first().map(|i| i.lines[0] == "#pragma once").unwrap_or(false) { 1 } else { 0 };
                lo + rng.below(pos - lo + 1)
            };
            program.files[fi].items.insert(epos, Item { lines: elines.clone(), splittable: false });
            construct_item = pos + 1;
            if *ok {
                acceptable.push((fname.clone(), program.files[fi].line_of_item(epos)));
            }
        }
        let first = program.files[fi].line_of_item(construct_item);
        acceptable.push((fname.clone(), first + blame));
        if also_next_line {
            acceptable.push((fname.clone(), first + blame + 1));
        }
        Injected {
            program,
            kind,
            acceptable,
            construct: (fname, first + blame),
            unique,
            may_be_unlocated,
        }
    }
}
