//! Hostile input generators for the totality check (C08): byte soups, token soups,
//! structured soups, token level mutation of real programs, and directed stress families.

use crate::rng::Rng;

pub const KEYWORDS: &[&str] = &[
    "if", "else", "for", "while", "do", "switch", "return", "break", "continue", "discard", "case", "default", "struct", "enum", "typedef", "cbuffer",
    "register", "packoffset", "namespace", "in", "out", "inout", "const", "volatile", "row_major", "column_major", "unorm", "snorm", "extern", "static",
    "inline", "groupshared", "constexpr", "sizeof", "template", "typename", "decltype", "true", "false", "class", "enum class", "precise",
    "nointerpolation", "linear", "centroid", "noperspective", "sample", "point", "line", "triangle", "lineadj", "triangleadj", "vertices", "primitives",
    "indices", "payload", "Pipeline", "StaticSampler", "ComputeShader", "VertexShader", "PixelShader", "MeshShader", "TaskShader", "DefaultBindGroup",
    "operator", "this", "auto", "goto", "union", "friend", "public", "private", "virtual", "new", "delete", "try", "catch", "throw", "using", "asm",
    "interface", "technique", "pass", "unsigned", "signed", "long", "short", "char", "string", "vector", "matrix", "defined", "numthreads", "unroll",
    "loop", "branch", "flatten", "fastopt", "allow_uav_condition", "outputtopology", "WaveSize", "rssl", "bind_group", "bindless", "vk", "binding",
    "assert_type", "assert_eval", "globallycoherent", "device", "constant", "thread", "threadgroup", "mesh", "object", "metal",
];

pub const TYPE_NAMES: &[&str] = &[
    "void", "bool", "int", "uint", "dword", "half", "float", "double", "float16_t", "int16_t", "uint16_t", "int32_t", "uint32_t", "int64_t", "uint64_t",
    "float32_t", "float64_t", "min16float", "min10float", "min16int", "min12int", "min16uint", "bool2", "int3", "uint4", "half2", "float1", "float2",
    "float3", "float4", "double2", "float2x2", "float3x3", "float4x4", "float3x4", "int2x2", "uint64_t2", "vector<float, 4>", "matrix<float, 4, 4>",
    "Buffer", "RWBuffer", "ByteAddressBuffer", "RWByteAddressBuffer", "BufferAddress", "RWBufferAddress", "StructuredBuffer", "RWStructuredBuffer",
    "Texture2D", "Texture2DArray", "RWTexture2D", "RWTexture2DArray", "TextureCube", "TextureCubeArray", "Texture3D", "RWTexture3D", "ConstantBuffer",
    "SamplerState", "SamplerComparisonState", "RaytracingAccelerationStructure", "RayQuery", "RayDesc", "TriangleStream", "Texture2D<float4>",
    "StructuredBuffer<uint>", "RWTexture2D<float4>", "ConstantBuffer<S>", "S", "T", "E", "N",
];

pub const IDENTS: &[&str] = &[
    "x", "y", "a", "b", "f", "g", "main", "s", "t", "i", "n", "v", "S", "T", "E", "M", "N", "A", "B", "g_tex", "g_buf", "value", "x_0", "f_0", "dot", "mul",
    "min", "max", "abs", "sin", "lerp", "saturate", "clamp", "Load", "Store", "Sample", "GetDimensions", "InterlockedAdd", "WaveActiveSum", "asuint",
    "asfloat", "length", "normalize", "cross", "select", "rcp", "sqrt", "xyzw", "xy", "rgba", "xxxx", "_m00", "_11_22", "SV_Position", "SV_Target0",
    "SV_DispatchThreadID", "SV_GroupIndex", "TEXCOORD", "t0", "u1", "s2", "b3", "space0", "space4", "space9999", "c0", "__HLSL_VERSION",
    "RSSL_TARGET_HLSL", "RSSL_TARGET_MSL", "__LINE__", "__FILE__", "__VA_ARGS__", "once",
];

pub const PUNCT: &[&str] = &[
    "{", "}", "(", ")", "[", "]", "<", ">", ";", ",", "?", ":", "::", "+", "++", "+=", "-", "--", "-=", "/", "/=", "%", "%=", "*", "*=", "|", "||", "|=",
    "&", "&&", "&=", "^", "^=", "=", "==", "#", "##", "@", "!", "!=", "~", ".", "<<", ">>", "<<=", ">>=", "<=", ">=", "->", "...", "[[", "]]", "\\", "$",
    "`", "'", "\"",
];

pub const LITERALS: &[&str] = &[
    "0", "1", "2", "7", "31", "32", "33", "63", "64", "255", "256", "65535", "65536", "2147483647", "2147483648", "4294967295", "4294967296",
    "9223372036854775807", "9223372036854775808", "18446744073709551615", "18446744073709551616", "99999999999999999999999999", "0x0", "0xFFFFFFFF",
    "0x100000000", "0xFFFFFFFFFFFFFFFF", "0x10000000000000000", "0x", "00", "07", "08", "0777777777777777777777", "01777777777777777777777",
    "02000000000000000000000", "1u", "0u", "4294967295u", "1U", "1l", "1L", "5l", "1ul", "1UL", "1ull", "1lu", "1uu", "1.0", "1.", ".5", "0.0", "1.0f",
    "1.0h", "1.0L", "1.0l", "2.0h", "1e10", "1e-10", "1e400", "1e-400", "1e+", "1e", "1.e5f", "3.4028235e38f", "3.5e38f", "1.7976931348623157e308",
    "1e309", "4.9e-324", "1e-330", "0.0031308", "0.055", "1e99999999999", "1e-99999999999", "0.1e+2147483648", "123456789012345678901234567890.0",
    "0.000000000000000000000000000000000000000000001", "1.0ff", "1.0fh", "1f", "1h", "0b101", "1'000", "1_000", "\"str\"", "\"unterminated",
    "'c'", "true", "false",
];

pub const DIRECTIVES: &[&str] = &[
    "#define", "#undef", "#if", "#ifdef", "#ifndef", "#elif", "#else", "#endif", "#include", "#pragma", "#pragma once", "#pragma warning", "#line",
    "#error", "#warning", "#", "# define", "#if defined(", "#if !defined", "#include \"main.rssl\"", "#include <x.h>", "#include \"missing.h\"",
    "#define M(a,b) a##b", "#define N M(N,N)", "#define A B\n#define B A", "#define F(x) F(x)+x", "#define E", "#if 1/0", "#if 1 +", "#if (",
    "#if 1 ? 2 : 3", "#if 1 << 70", "#if -1 < 0", "#if 18446744073709551615 + 1",
];

pub const UNSUPPORTED: &[&str] = &[
    "float4 a : packoffset(c0);",
    "cbuffer C { float4 a : packoffset(c0.y); }",
    "typedef float F4[4];",
    "typedef struct { int x; } S2;",
    "[maxvertexcount(3)] void gs(triangle float4 p[3] : SV_Position, inout TriangleStream<float4> s) { }",
    "int* p;",
    "int& r = x;",
    "const char* s = \"hello\";",
    "uint64_t big = 5l;",
    "int64_t big = 18446744073709551615l;",
    "Texture2D t : register(t4294967295);",
    "Texture2D t : register(t0, space4294967295);",
    "Texture2D t : register(t0, space4);",
    "Texture2D t : register(x0);",
    "[[rssl::bind_group(4294967295)]] Texture2D t;",
    "Texture2D t[4294967295];",
    "Texture2D t[];",
    "float a[0];",
    "float a[-1];",
    "float a[1 << 31];",
    "float a[4294967296];",
    "static const int k = 1 / 0;",
    "static const uint k = 0u - 1u;",
    "static const int k = 2147483647 + 1;",
    "static const int k = -2147483648;",
    "static const int k = 1 << 32;",
    "static const int k = 1 << -1;",
    "static const int k = (int)3e9f;",
    "static const int k = -2147483647 - 1; static const int j = k / -1;",
    "static const int k = -2147483647 - 1; static const int j = -k;",
    "static const int k = -2147483647 - 1; static const int j = k % -1;",
    "enum E { A = 4294967296 }; ",
    "enum E { A = -1, B = 4294967295 };",
    "enum E { A = 2147483647, B };",
    "enum E { A = 4294967295u, B };",
    "template<int N> struct TS { float a[N]; }; TS<-1> v;",
    "template<typename T> T id(T t) { return id(t); }",
    "void rec() { rec(); }",
    "struct R { R r; };",
    "struct Q; Q q;",
    "operator+;",
    "void f() { switch (1) { case 1/0: break; } }",
    "void f() { float4 v; v.xyzwx; v.q; v[5]; }",
    "void f() { int a[2]; a[3] = 0; a[-1] = 0; }",
    "void f(int a = f2()) {}",
    "void f() { goto l; l: ; }",
    "void f() { return 1; }",
    "int f() { }",
    "[numthreads(0, 0, 0)] void cs() {}",
    "[numthreads(4294967295, 4294967295, 4294967295)] void cs() {}",
    "[numthreads(1.5, 1, 1)] void cs() {}",
    "[numthreads(N, 1, 1)] void cs() {}",
    "Pipeline P { ComputeShader = missing; }",
    "Pipeline P { ComputeShader = 5; }",
    "Pipeline P { }",
    "Pipeline P { Unknown = 1; }",
    "Pipeline P { ComputeShader = f; ComputeShader = f; }",
    "Pipeline P { PixelShader = f; }",
    "Pipeline P { MeshShader = f; }",
    "Pipeline P { DefaultBindGroup = 4294967295; ComputeShader = f; }",
    "Pipeline P { DefaultBindGroup = -1; ComputeShader = f; }",
    "Pipeline P { RenderTargetFormat0 = 5; }",
    "Pipeline P { BlendState = { Unknown = 1; } }",
    "SamplerState s = StaticSampler { Filter = 5; };",
    "SamplerState s = StaticSampler { Unknown = X; };",
    "SamplerState s = StaticSampler { MaxAnisotropy = 4294967296; };",
    "SamplerState s = StaticSampler { MipLODBias = 1e999; };",
    "static float nan_v = 0.0 / 0.0;",
    "static float inf_v = 1e999;",
    "static half h = 65505.0h;",
    "static const float f = 1e39f;",
    "static const double d = 1e309L;",
    "void f() { uint x = sizeof(void); }",
    "void f() { uint x = sizeof(Texture2D); }",
    "void f() { float4x4 m; m._m44; m._55; m[4][4]; }",
    "ConstantBuffer<float> cb;",
    "ConstantBuffer<Texture2D> cb;",
    "StructuredBuffer<Texture2D> sb;",
    "StructuredBuffer<void> sb;",
    "RWTexture2D<S> t;",
    "Texture2D<float4, 5> t;",
    "vector<float, 5> v;",
    "vector<float, 0> v;",
    "vector<S, 2> v;",
    "matrix<float, 5, 5> m;",
    "BufferAddress b; void f() { b.Load<void>(0); }",
    "BufferAddress b; void f() { b.Load<Texture2D>(0); }",
    "RWByteAddressBuffer b; void f() { b.Store<float4x4>(0, 0); }",
    "RaytracingAccelerationStructure a; void f() { RayQuery<0> q; q.TraceRayInline(a, 0, 0, (RayDesc)0); }",
    "void f() { WaveReadLaneAt(1, 99999999999); }",
    "groupshared Texture2D gt;",
    "static Texture2D st;",
    "extern static int x;",
    "in out inout int x;",
    "const const int x = 0;",
    "void f(out in int x) {}",
    "void f(int x, int x) {}",
    "struct S { int a; int a; };",
    "struct S {}; struct S {};",
    "namespace N { namespace N { namespace N { int x; } } } void f() { N::N::N::x; ::N::x; N::; }",
    "void f() { x::y::z(); }",
    "void f() { (S)1; (int[2])1; (void)1; }",
    "void f() { int x = {1, 2}; float2 y = {1}; S s = {}; }",
    "void f() { float2 y = float2(1, 2, 3); float3 z = float3(y); }",
    "void f() { 1 = 2; 1++; --1; }",
    "void f() { int x; x.y; x(); x[0]; }",
    "void f() { f.x; f[0]; f = 0; }",
    "void f() { if (S) {} while (int) {} }",
    "void f() { for (;;) ; }",
    "void f() { do ; while (0) }",
    "void f() { else ; }",
    "void f() { case 1: ; default: ; break; continue; }",
    "void f() { switch (1.5) { } switch (S()) { } }",
    "void f() { switch (0) { case 0: case 0: ; default: ; default: ; } }",
];

fn sep(rng: &mut Rng) -> &'static str {
    match rng.below(24) {
        0 => "",
        1 => "",
        2 => "\n",
        3 => "\t",
        4 => "  ",
        5 => "/**/",
        6 => "// c\n",
        7 => "\\\n",
        8 => "\r\n",
        9 => "/* \n */",
        _ => " ",
    }
}

pub fn random_token(rng: &mut Rng) -> String {
    match rng.below(20) {
        0..=3 => rng.pick(KEYWORDS).to_string(),
        4..=6 => rng.pick(TYPE_NAMES).to_string(),
        7..=9 => rng.pick(IDENTS).to_string(),
        10..=14 => rng.pick(PUNCT).to_string(),
        15..=17 => rng.pick(LITERALS).to_string(),
        18 => {
            // random number spelling
            let mut s = String::new();
            let n = 1 + rng.below(24);
            for _ in 0..n {
                s.push((b'0' + rng.below(10) as u8) as char);
            }
            if rng.chance(1, 3) {
                s.push('.');
                for _ in 0..rng.below(8) {
                    s.push((b'0' + rng.below(10) as u8) as char);
                }
            }
            if rng.chance(1, 4) {
                s.push('e');
                if rng.chance(1, 2) {
                    s.push(if rng.chance(1, 2) { '-' } else { '+' });
                }
                for _ in 0..1 + rng.below(4) {
                    s.push((b'0' + rng.below(10) as u8) as char);
                }
            }
            if rng.chance(1, 3) {
                let sfx: &[&str] = &["f", "h", "L", "u", "l", "ul", "U", "F", "H"];
                let sf: &str = *rng.pick(sfx);
                s.push_str(sf);
            }
            s
        }
        _ => format!("\n{} ", rng.pick(DIRECTIVES)),
    }
}

/// Largest number of simultaneously open brackets, and longest run of prefix operators
pub fn nesting_depth(text: &str) -> usize {
    let mut depth: i64 = 0;
    let mut max = 0i64;
    let mut run = 0i64;
    let mut max_run = 0i64;
    for c in text.chars() {
        match c {
            '(' | '[' | '{' | '<' => {
                depth += 1;
                max = max.max(depth);
            }
            ')' | ']' | '}' | '>' => {
                depth = (depth - 1).max(0);
            }
            _ => {}
        }
        match c {
            '-' | '+' | '!' | '~' | '*' | '&' | '?' | ':' => {
                run += 1;
                max_run = max_run.max(run);
            }
            c if c.is_whitespace() => {}
            _ => run = 0,
        }
    }
    (max.max(max_run)) as usize
}

/// Limit bracket nesting (and runs of prefix operators) by dropping the characters that would exceed `limit`
pub fn cap_nesting(text: &str, limit: usize) -> String {
    let mut out = String::with_capacity(text.len());
    let mut depth: usize = 0;
    let mut run: usize = 0;
    for c in text.chars() {
        match c {
            '(' | '[' | '{' | '<' => {
                if depth >= limit {
                    continue;
                }
                depth += 1;
            }
            ')' | ']' | '}' | '>' => {
                depth = depth.saturating_sub(1);
            }
            _ => {}
        }
        match c {
            '-' | '+' | '!' | '~' | '*' | '&' | '?' | ':' => {
                if run >= limit {
                    continue;
                }
                run += 1;
            }
            c if c.is_whitespace() => {}
            _ => run = 0,
        }
        out.push(c);
    }
    out
}

/// Number of `( identifier )` groups that are directly followed by something that could start an operand
pub fn castlike_prefixes(text: &str) -> usize {
    // scan for maximal runs of "(ident)" groups separated only by whitespace
    let b: Vec<char> = text.chars().collect();
    let mut i = 0;
    let mut best = 0;
    let mut run = 0;
    while i < b.len() {
        if b[i] == '(' {
            let mut j = i + 1;
            while j < b.len() && b[j].is_whitespace() {
                j += 1;
            }
            let start = j;
            while j < b.len() && (b[j].is_alphanumeric() || b[j] == '_' || b[j] == ':' || b[j] == '<' || b[j] == '>' || b[j] == ',' || b[j] == ' ') {
                j += 1;
            }
            if j > start && j < b.len() && b[j] == ')' {
                run += 1;
                best = best.max(run);
                i = j + 1;
                while i < b.len() && b[i].is_whitespace() {
                    i += 1;
                }
                continue;
            }
        }
        if !b[i].is_whitespace() {
            run = 0;
        }
        i += 1;
    }
    best
}

pub fn byte_soup(rng: &mut Rng, max_len: usize) -> String {
    let len = rng.below(max_len + 1);
    let mut s = String::new();
    let style = rng.below(4);
    while s.len() < len {
        let c = match style {
            0 => char::from_u32(rng.below(128) as u32).unwrap(),
            1 => *rng.pick(&[' ', '\n', '(', ')', '{', '}', '<', '>', ';', '#', '"', '\\', '/', '*', '0', '9', 'a', '_', '.', 'e', '-', '+', ',', ':', '[', ']', '=', '&', '|', '!', '?', '\'', '\r', '\t', '\0', 'x']),
            2 => {
                let v = rng.next_u32() % 0x11_0000;
                char::from_u32(v).unwrap_or('\u{fffd}')
            }
            _ => {
                if rng.chance(1, 8) {
                    char::from_u32(rng.below(0x2000) as u32).unwrap_or('?')
                } else {
                    char::from_u32(32 + rng.below(95) as u32).unwrap()
                }
            }
        };
        s.push(c);
    }
    s
}

pub fn token_soup(rng: &mut Rng, max_len: usize) -> String {
    let len = rng.below(max_len + 1);
    let mut s = String::new();
    while s.len() < len {
        let t = random_token(rng);
        s.push_str(&t);
        s.push_str(sep(rng));
    }
    truncate_chars(&mut s, max_len);
    s
}

fn truncate_chars(s: &mut String, max_len: usize) {
    if s.len() > max_len {
        let mut cut = max_len;
        while !s.is_char_boundary(cut) {
            cut -= 1;
        }
        s.truncate(cut);
    }
}

fn small_soup(rng: &mut Rng, max_tokens: usize) -> String {
    let n = rng.below(max_tokens + 1);
    let mut s = String::new();
    for _ in 0..n {
        s.push_str(&random_token(rng));
        s.push(' ');
    }
    s
}

/// Well formed outer structure with soup in the holes, so the later compiler stages are reached
pub fn structured_soup(rng: &mut Rng, max_len: usize) -> String {
    let mut s = String::new();
    let n = 1 + rng.below(6);
    for _ in 0..n {
        let hole = small_soup(rng, 12);
        let hole2 = small_soup(rng, 6);
        let id = rng.pick(IDENTS);
        let ty = rng.pick(TYPE_NAMES);
        let piece = match rng.below(16) {
            0 => format!("void {}() {{ {} }}\n", id, hole),
            1 => format!("{} {}({} a, {} b) {{ return {}; }}\n", ty, id, ty, rng.pick(TYPE_NAMES), hole),
            2 => format!("struct {} {{ {} a; {} }};\n", id, ty, hole),
            3 => format!("static const {} {} = {};\n", ty, id, hole),
            4 => format!("#define {}({}) {}\n{}({})\n", id, hole2.replace(' ', ","), hole, id, hole2),
            5 => format!("#if {}\n{}\n#else\n{}\n#endif\n", hole2, hole, hole2),
            6 => format!("enum {} {{ A = {}, B }};\n", id, hole2),
            7 => format!("{} {}[{}];\n", ty, id, hole2),
            8 => format!("{} {} : register({});\n", ty, id, hole2),
            9 => format!("Pipeline {} {{ {} = {}; }}\n", id, rng.pick(&["ComputeShader", "VertexShader", "PixelShader", "MeshShader", "TaskShader", "DefaultBindGroup", "CullMode", "RenderTargetFormat0"]), hole2),
            10 => format!("template<{}> {} {}({} v) {{ {} }}\n", hole2, ty, id, ty, hole),
            11 => format!("void {}() {{ {} v = ({})({}); switch (v) {{ case {}: break; }} }}\n", id, ty, ty, hole2, hole2),
            12 => format!("namespace {} {{ {} }}\n", id, hole),
            13 => format!("cbuffer {} {{ {} a; {} }}\n", id, ty, hole2),
            14 => format!("[[{}]] {} {};\n", hole2, ty, id),
            _ => format!("{}\n", rng.pick(UNSUPPORTED)),
        };
        s.push_str(&piece);
    }
    truncate_chars(&mut s, max_len);
    s
}

/// Split a program into coarse tokens (identifiers/numbers, punctuation, whitespace, comments, strings)
pub fn coarse_tokens(text: &str) -> Vec<String> {
    let chars: Vec<char> = text.chars().collect();
    let mut out = Vec::new();
    let mut i = 0;
    while i < chars.len() {
        let c = chars[i];
        let start = i;
        if c.is_alphanumeric() || c == '_' {
            while i < chars.len() && (chars[i].is_alphanumeric() || chars[i] == '_' || (chars[i] == '.' && chars[start].is_ascii_digit())) {
                i += 1;
            }
        } else if c.is_whitespace() {
            while i < chars.len() && chars[i].is_whitespace() {
                i += 1;
            }
        } else if c == '/' && i + 1 < chars.len() && chars[i + 1] == '/' {
            while i < chars.len() && chars[i] != '\n' {
                i += 1;
            }
        } else if c == '/' && i + 1 < chars.len() && chars[i + 1] == '*' {
            i += 2;
            while i + 1 < chars.len() && !(chars[i] == '*' && chars[i + 1] == '/') {
                i += 1;
            }
            i = (i + 2).min(chars.len());
        } else if c == '"' {
            i += 1;
            while i < chars.len() && chars[i] != '"' && chars[i] != '\n' {
                i += 1;
            }
            i = (i + 1).min(chars.len());
        } else {
            i += 1;
        }
        out.push(chars[start..i].iter().collect());
    }
    out
}

/// Constructs left open at the end of the input
pub const HOSTILE_TAILS: &[&str] = &[
    "\n/* unterminated comment caf",
    "/*",
    "/* *",
    "\n// line comment without newline caf",
    "\n\"unterminated string caf",
    "\n#include \"unterminated",
    "\n#include <unterminated",
    "\n#define UNFINISHED(a, b",
    "\n#define TAIL value caf",
    "\n#if defined(",
    "\n#pragma caf",
    "\n#",
    "\nint x = 1.0e",
    "\nint x = 0x",
    "\nint x = '",
    "\nvoid f() { g(1, ",
    "\ntemplate<typename T",
    "\nfloat4 x = float4(1, 2",
    "\nstruct S { int a",
    "\n[[",
    "\nx ? y :",
    "\nFOO(",
];

/// Apply `n` token level mutations to a program
pub fn mutate(rng: &mut Rng, text: &str, n: usize) -> String {
    let mut toks = coarse_tokens(text);
    if toks.is_empty() {
        return token_soup(rng, 64);
    }
    for _ in 0..n {
        if toks.is_empty() {
            break;
        }
        let i = rng.below(toks.len());
        match rng.below(14) {
            12 => {
                // an unfinished construct at the very end of the file (no newline after it), also ending in a multi-byte character
                let tail = *rng.pick(HOSTILE_TAILS);
                let last = *rng.pick(&["", "", "\u{e9}", "\u{2014}", "\u{1f600}", "\u{fffd}", " ", "\\", "*", "/"]);
                toks.push(format!("{}{}", tail, last));
                break;
            }
            13 => {
                // cut the file in the middle of a token (character level)
                let text = toks.concat();
                let chars: Vec<char> = text.chars().collect();
                let cut = rng.below(chars.len().max(1));
                return chars[..cut].iter().collect();
            }
            0 => {
                toks.remove(i);
            }
            1 => {
                let t = toks[i].clone();
                toks.insert(i, t);
            }
            2 => {
                let j = rng.below(toks.len());
                toks.swap(i, j);
            }
            3 => toks[i] = rng.pick(LITERALS).to_string(),
            4 => toks[i] = rng.pick(PUNCT).to_string(),
            5 => toks[i] = rng.pick(KEYWORDS).to_string(),
            6 => toks[i] = rng.pick(TYPE_NAMES).to_string(),
            7 => toks.insert(i, format!(" {} ", rng.pick(UNSUPPORTED))),
            8 => toks.insert(i, format!("\n{} ", rng.pick(DIRECTIVES))),
            9 => {
                // replace the next numeric literal by an extreme one
                if let Some(k) = (i..toks.len()).find(|k| toks[*k].chars().next().map(|c| c.is_ascii_digit()).unwrap_or(false)) {
                    toks[k] = rng.pick(LITERALS).to_string();
                }
            }
            10 => toks.truncate(i),
            _ => toks.insert(i, random_token(rng)),
        }
    }
    toks.concat()
}

/// One structural (line / statement level) mutation of a program: the "single-mutation-invalid" inputs of the
/// grammar families (a duplicated or dropped declaration line, two lines exchanged, a duplicated statement,
/// a dropped brace line) - complements the token level `mutate`
pub fn mutate_structure(rng: &mut Rng, text: &str) -> (String, &'static str) {
    let mut lines: Vec<String> = text.split_inclusive('\n').map(|l| l.to_string()).collect();
    if lines.len() < 2 {
        return (mutate(rng, text, 1), "token");
    }
    // lines with content are preferred
    let content: Vec<usize> = (0..lines.len()).filter(|i| lines[*i].trim().len() > 1).collect();
    // `Name = value;` lines (pipeline / sampler / blend state properties, simple initialisers) are half of the picks:
    // the table-like parts of the grammar are where a repeated or missing entry matters
    let props: Vec<usize> = content.iter().copied().filter(|i| lines[*i].contains(" = ") && lines[*i].trim_end().ends_with(';') && !lines[*i].contains('(')).collect();
    let pick_line = |rng: &mut Rng| -> usize {
        if !props.is_empty() && rng.chance(1, 2) {
            props[rng.below(props.len())]
        } else if content.is_empty() {
            0
        } else {
            content[rng.below(content.len())]
        }
    };
    let i = pick_line(rng);
    match rng.below(8) {
        0 | 1 => {
            let l = lines[i].clone();
            lines.insert(i, l);
            (lines.concat(), "duplicate-line")
        }
        2 => {
            lines.remove(i);
            (lines.concat(), "delete-line")
        }
        3 => {
            if i + 1 < lines.len() {
                lines.swap(i, i + 1);
            }
            (lines.concat(), "swap-adjacent-lines")
        }
        4 => {
            let j = pick_line(rng);
            lines.swap(i, j);
            (lines.concat(), "swap-lines")
        }
        5 => {
            // move a copy of one line somewhere else (a declaration repeated in another scope)
            let j = pick_line(rng);
            let l = lines[i].clone();
            lines.insert(j, l);
            (lines.concat(), "copy-line-elsewhere")
        }
        6 => {
            // duplicate the statement around a random `;`
            let l = lines[i].clone();
            if let Some(k) = l.find(';') {
                let (a, b) = l.split_at(k + 1);
                lines[i] = format!("{}{}{}", a, a.trim_start(), b);
            }
            (lines.concat(), "duplicate-statement")
        }
        _ => (mutate(rng, text, 1), "token"),
    }
}

/// Directed stress families. `k` is the size parameter (nesting depth / repetition count).
pub fn stress_family(family: usize, k: usize) -> (String, String) {
    let rep = |s: &str, n: usize| s.repeat(n);
    let name;
    let text = match family {
        0 => {
            name = "nested parentheses";
            format!("void f() {{ int x = {}1{}; }}", rep("(", k), rep(")", k))
        }
        1 => {
            name = "nested blocks";
            format!("void f() {{ {} {} }}", rep("{", k), rep("}", k))
        }
        2 => {
            name = "nested subscripts";
            format!("void f() {{ int a[2]; a{}0{}; }}", rep("[a", k), rep("]", k))
        }
        3 => {
            name = "unary minus chain";
            format!("void f() {{ int x = {}1; }}", rep("- ", k))
        }
        4 => {
            name = "logical not chain";
            format!("void f() {{ bool x = {}true; }}", rep("!", k))
        }
        5 => {
            name = "ternary chain";
            format!("void f() {{ int x = {}0; }}", rep("1 ? 2 : ", k))
        }
        6 => {
            name = "else-if chain";
            format!("void f() {{ if (1) {{}} {} }}", rep("else if (1) {} ", k))
        }
        7 => {
            name = "nested template arguments";
            format!("{}float{} v;", rep("vector<", k), rep(", 1>", k))
        }
        8 => {
            name = "cast-like prefixes";
            format!("void f() {{ int a; int x = {}1; }}", rep("(a)", k))
        }
        9 => {
            name = "left angle brackets";
            rep("<", k)
        }
        10 => {
            name = "binary operator chain";
            format!("void f() {{ int x = 1{}; }}", rep(" + 1", k))
        }
        11 => {
            name = "nested calls";
            format!("int g(int a) {{ return a; }} void f() {{ int x = {}1{}; }}", rep("g(", k), rep(")", k))
        }
        12 => {
            name = "macro chain";
            let mut s = String::new();
            for i in 0..k {
                s.push_str(&format!("#define M{} M{} M{}\n", i, i + 1, i + 1));
            }
            s.push_str(&format!("#define M{} 1\nstatic const int x[] = {{ M0 }};\n", k));
            s
        }
        13 => {
            name = "recursive macro arguments";
            format!("#define F(x) x x\nvoid f() {{ {}1{}; }}", rep("F(", k), rep(")", k))
        }
        14 => {
            name = "nested #if";
            format!("{}int x;\n{}", rep("#if 1\n", k), rep("#endif\n", k))
        }
        15 => {
            name = "nested condition parentheses";
            format!("#if {}1{}\nint x;\n#endif\n", rep("(", k), rep(")", k))
        }
        16 => {
            name = "nested struct members";
            let mut s = String::new();
            for i in 0..k {
                if i == 0 {
                    s.push_str("struct S0 { int v; };\n");
                } else {
                    s.push_str(&format!("struct S{} {{ S{} m; }};\n", i, i - 1));
                }
            }
            s.push_str(&format!("void f() {{ S{} s; s{}.v = 1; }}", k.saturating_sub(1), rep(".m", k.saturating_sub(1))));
            s
        }
        17 => {
            name = "nested namespaces";
            format!("{} int x; {}", rep("namespace N {", k), rep("}", k))
        }
        18 => {
            name = "nested initializer braces";
            format!("static int x = {}1{};", rep("{", k), rep("}", k))
        }
        19 => {
            name = "statement sequence";
            format!("void f() {{ int x = 0; {} }}", rep("x = x + 1; ", k))
        }
        20 => {
            name = "comma sequence";
            format!("void f() {{ int x = 0; x = (0{}); }}", rep(", 1", k))
        }
        21 => {
            name = "nested loops";
            format!("void f() {{ {} ; }}", rep("for (int i = 0; i < 1; ++i) ", k))
        }
        22 => {
            name = "self include";
            "#include \"main.rssl\"\nint x;\n".to_string()
        }
        23 => {
            name = "token paste chain";
            format!("#define C(a, b) a##b\nstatic const int x1 = 1; static const int y = {}x, 1{};", rep("C(", k.min(40)), rep(")", k.min(40)).replace(")", ", 1)").replacen(", 1)", ")", 1))
        }
        _ => {
            name = "many overloads";
            let mut s = String::new();
            for i in 0..k.min(400) {
                s.push_str(&format!("struct T{} {{ int v; }}; void g(T{} t) {{}}\n", i, i));
            }
            s.push_str("void f() { T0 t; g(t); }");
            s
        }
    };
    (name.to_string(), text)
}

pub const STRESS_FAMILIES: usize = 25;
