#!/bin/sh
# setup_cmd: build the harness from files on disk only (no network)
set -e
cd "$(dirname "$0")/harness"
export CARGO_NET_OFFLINE=true
cargo build --release --offline
